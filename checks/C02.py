"""C02 -- fixing never harms: readable colours are kept, contrast never drops."""
from __future__ import annotations

from sa import contracts as C
from checks._gf_common import run_all, report, TRUSTED as _T

LEVEL = "other"
TRUSTED = _T
EXPLANATION = (
    "Same guard-fact verification as C01, for the clauses: (a) at every return of generate_accessible_color, the three strategies, "
    "check_and_fix_contrast and make_readable: contrast(returned colour, bg) >= contrast(original text, bg) -- from the 'best so far' "
    "accumulator invariants (candidate is None or its contrast equals the stored score; score >= original), the strict '>' at each "
    "update site, and transitivity through callee contracts across the recursive/extended loops; (b) if contrast(text, bg) >= MIN "
    "then the returned colour denotes the original text colour and the flag is true (the early return compares with the minimum, "
    "returns the input object, and every later return lies behind its false edge); (c) generate_accessible_color returns its input "
    "when the target is already met."
)


def run(project, chk):
    chk.rule("H1", "at every return: contrast(c, bg) >= contrast(text, bg) (never lower than the original's), on all paths")
    chk.rule("H2", "contrast(text, bg) >= MIN  =>  the returned colour is the original text colour and success is true")
    chk.assumptions += ["contrast of the formatted colour equals that of the judged one (C06 numeric clause)", "A1: no NaN contrast"]
    chk.not_decided += ["compositing of translucent input happens before this code (C13); 'exactly the original' is decided as 'the same value flows back through colour-preserving wrappers'"]
    chk.rule("H3", "the contrast that decides 'already readable' is the WCAG 2 ratio (the audit of C05, here as a discharged assumption)")
    from checks.C05 import ratio_is_wcag
    ratio_is_wcag(project, chk, "H3", "H3", "H3")
    contracts, out = run_all(project)

    def rule_of(r):
        return "H2" if r.atom[0] == "imp" else "H1"
    n = report(project, chk, "C02", rule_of, out)
    chk.floor("never-harms obligations", n, 60)


_run_own = run


def run(project, chk):      # noqa: F811  (borrowed rules first: an established violation outlives a later inconclusive rule)
    from checks._borrow import borrow
    borrow(project, chk, "C13", {"W1", "W2", "W5"}, "H6", "'after compositing any transparency': the text colour is composited over the pair's own background before it is judged and fixed, and the optimiser is handed the composite (C13's wiring rules)")
    _run_own(project, chk)
    # H7: the size flag the pair is judged with is the flag it was given
    chk.rule("H7", "ColorPair keeps large_text as given (or its truth value): 'already meets the minimum for the chosen large_text setting' is judged with the caller's setting")
    import ast as _ast
    from sa.wire import Origins as _Org, show as _show
    from sa.resolve import own_nodes as _own
    init = project.funcs.get("cm_colors.core.colors.ColorPair.__init__")
    if init is not None:
        o_ = _Org(project, init)
        n_ = 0
        for st in _own(init.node):
            if isinstance(st, _ast.Assign) and any(isinstance(t, _ast.Attribute) and t.attr == "large" and isinstance(t.value, _ast.Name) and t.value.id == "self" for t in st.targets):
                n_ += 1
                v = o_.at(st.value)
                okv = v == ("param", "large_text") or (v[0] == "call" and v[1] == "builtins.bool" and v[2] == (("param", "large_text"),))
                chk.check(okv, "H7", init.short, "self.large = ...", project.loc(init.module, st), "self.large is the large_text argument (or bool of it)", how=f"origin: {_show(v)[:80]}",
                          message=f"self.large is {_show(v)[:100]}, not the large_text the caller chose: e.g. large_text=True can be turned into False (True is an int), and the pair is then judged against the wrong minimum")
        chk.floor("stores to self.large in ColorPair.__init__", n_, 1)
