"""C02 -- fixing never harms: readable colours are kept, contrast never drops."""
from __future__ import annotations

from sa import contracts as C
from checks._gf_common import run_all, report, TRUSTED as _T

LEVEL = "other"
TRUSTED = _T
EXPLANATION = (
    "Same guard-fact verification as C01, for the clauses: (a) at every return of generate_accessible_color, the three strategies, "
    "check_and_fix_contrast and make_readable: contrast(returned colour, bg) >= contrast(original text, bg) -- from the 'best so far' "
    "accumulator invariants (candidate is None or its contrast equals the stored score; score >= original), the strict '>' at each "
    "update site, and transitivity through callee contracts across the recursive/extended loops; (b) if contrast(text, bg) >= MIN "
    "then the returned colour denotes the original text colour and the flag is true (the early return compares with the minimum, "
    "returns the input object, and every later return lies behind its false edge); (c) generate_accessible_color returns its input "
    "when the target is already met."
)


def run(project, chk):
    chk.rule("H1", "at every return: contrast(c, bg) >= contrast(text, bg) (never lower than the original's), on all paths")
    chk.rule("H2", "contrast(text, bg) >= MIN  =>  the returned colour is the original text colour and success is true")
    chk.assumptions += ["contrast of the formatted colour equals that of the judged one (C06 numeric clause)", "A1: no NaN contrast"]
    chk.not_decided += ["compositing of translucent input happens before this code (C13); 'exactly the original' is decided as 'the same value flows back through colour-preserving wrappers'"]
    chk.rule("H3", "the contrast that decides 'already readable' is the WCAG 2 ratio (the audit of C05, here as a discharged assumption)")
    from checks.C05 import ratio_is_wcag
    ratio_is_wcag(project, chk, "H3", "H3", "H3")
    contracts, out = run_all(project)

    def rule_of(r):
        return "H2" if r.atom[0] == "imp" else "H1"
    n = report(project, chk, "C02", rule_of, out)
    chk.floor("never-harms obligations", n, 60)


_run_own = run


def run(project, chk):      # noqa: F811  (borrowed rules first: an established violation outlives a later inconclusive rule)
    from checks._borrow import borrow
    borrow(project, chk, "C13", {"W1", "W2", "W5"}, "H6", "'after compositing any transparency': the text colour is composited over the pair's own background before it is judged and fixed, and the optimiser is handed the composite (C13's wiring rules)")
    _run_own(project, chk)
