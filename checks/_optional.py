"""Optional-value discipline: a regex match object (None when nothing matched) is only dereferenced where it is known to be one.

`derefs(project, fi)` lists every `m.attr` / `m[...]` evaluated by `fi` whose `m` comes from re.search / re.match / re.fullmatch
(directly or through a compiled pattern), with whether the evaluation is guarded: on every path to it (guard chains over the CFG,
which splits `and` / `or` / `not` into their short-circuit branches) or inside the expression itself (conditional expressions and
boolean operators evaluated left to right) the value was tested for truth / `is not None`."""
from __future__ import annotations

import ast

from sa.cfg import build_cfg, node_exprs
from sa.guards import guard_states, implied
from sa.loader import norm_text
from sa.wire import Origins

MATCHERS = {"re.search", "re.match", "re.fullmatch", ".search", ".match", ".fullmatch"}


def may_be_match(o) -> bool:
    if isinstance(o, tuple) and o:
        if o[0] == "call" and o[1] in MATCHERS:
            return True
        if o[0] == "phi":
            return any(may_be_match(x) for x in o[1])
        if o[0] == "ifexp":
            return may_be_match(o[2]) or may_be_match(o[3])
    return False


def facts_if(e: ast.AST, truth: bool) -> set:
    """Names known to be a real (non-None) object when `e` evaluated to `truth`."""
    if isinstance(e, ast.Name):
        return {e.id} if truth else set()
    if isinstance(e, ast.NamedExpr) and isinstance(e.target, ast.Name):
        return {e.target.id} if truth else set()
    if isinstance(e, ast.UnaryOp) and isinstance(e.op, ast.Not):
        return facts_if(e.operand, not truth)
    if isinstance(e, ast.Compare) and len(e.ops) == 1 and isinstance(e.left, ast.Name) and isinstance(e.comparators[0], ast.Constant) and e.comparators[0].value is None:
        if isinstance(e.ops[0], (ast.IsNot, ast.NotEq)):
            return {e.left.id} if truth else set()
        if isinstance(e.ops[0], (ast.Is, ast.Eq)):
            return {e.left.id} if not truth else set()
    if isinstance(e, ast.Call) and isinstance(e.func, ast.Name) and e.func.id == "bool" and len(e.args) == 1:
        return facts_if(e.args[0], truth)
    if isinstance(e, ast.BoolOp):
        if isinstance(e.op, ast.And) and truth or isinstance(e.op, ast.Or) and not truth:
            out = set()
            for v in e.values:
                out |= facts_if(v, truth)
            return out
    return set()


def derefs(project, fi, cfg=None):
    cfg = cfg or build_cfg(fi.node)
    G = guard_states(cfg)
    org = Origins(project, fi, cfg)
    out = []

    # a plain copy (found = m, bound once) is tested when what it copies was tested
    copies = {}
    for st in ast.walk(fi.node):
        if isinstance(st, ast.Assign) and len(st.targets) == 1 and isinstance(st.targets[0], ast.Name) and isinstance(st.value, ast.Name):
            t = st.targets[0].id
            if sum(1 for x in ast.walk(fi.node) if isinstance(x, ast.Name) and x.id == t and isinstance(x.ctx, (ast.Store, ast.Del))) == 1:
                copies[t] = st.value.id

    def known(node, name, facts, depth=0):
        if name in copies and depth < 4 and known(node, copies[name], facts, depth + 1):
            return True
        if name in facts:
            return True
        st = G.get(node.id)
        return implied(st, lambda alt: (name, True) in alt or (f"{name} is not None", True) in alt or (f"{name} is None", False) in alt
                       or (f"{name} != None", True) in alt or (f"{name} == None", False) in alt)

    def visit(node, e, facts):
        if isinstance(e, (ast.Attribute, ast.Subscript)) and isinstance(e.value, ast.Name) and isinstance(e.ctx, ast.Load):
            try:
                o = org.of(node.id, e.value)
            except Exception:
                o = None
            if may_be_match(o):
                out.append((node, e, e.value.id, known(node, e.value.id, facts)))
        if isinstance(e, ast.BoolOp):
            f = set(facts)
            for v in e.values:
                visit(node, v, f)
                f = f | facts_if(v, isinstance(e.op, ast.And))
            return
        if isinstance(e, ast.IfExp):
            visit(node, e.test, facts)
            visit(node, e.body, facts | facts_if(e.test, True))
            visit(node, e.orelse, facts | facts_if(e.test, False))
            return
        if isinstance(e, (ast.ListComp, ast.SetComp, ast.GeneratorExp, ast.DictComp)):
            f = set(facts)
            for g in e.generators:
                visit(node, g.iter, f)
                for c in g.ifs:
                    visit(node, c, f)
                    f = f | facts_if(c, True)
            for part in (getattr(e, "elt", None), getattr(e, "key", None), getattr(e, "value", None)):
                if part is not None:
                    visit(node, part, f)
            return
        for ch in ast.iter_child_nodes(e):
            if isinstance(ch, ast.AST) and not isinstance(ch, (ast.expr_context, ast.operator, ast.boolop, ast.cmpop, ast.unaryop)):
                visit(node, ch, facts)

    for node in cfg.nodes:
        for e in node_exprs(node):
            visit(node, e, set())
    return out


def check(project, chk, rule, qualnames, consequence):
    n = 0
    for q in qualnames:
        fi = project.funcs.get(q)
        if fi is None:
            continue
        chk.saw_function(fi)
        for node, e, name, ok in derefs(project, fi):
            n += 1
            chk.check(ok, rule, fi.short, norm_text(e), project.loc(fi.module, e), f"`{name}` (a regex match, None when nothing matched) is dereferenced only where it was tested",
                      how="guard chain / short-circuit order", message=f"`{norm_text(e)}` is evaluated where `{name}` may be None (no dominating test of `{name}`): AttributeError/TypeError {consequence}")
    return n
