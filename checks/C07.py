"""C07 -- CSS colour values parse to the colour CSS defines (structural clauses)."""
from __future__ import annotations

import ast
import json
import os

from sa.cfg import build_cfg, node_exprs
from sa.formula import (Policy, Unsupported, compare, extract_function, inline_calls, project_resolver, reference, show, transform, RAISE)
from sa.loader import AnalysisError, norm_text
from sa.resolve import Scope, own_nodes
from sa.wire import Origins, show as oshow
from checks._fs_common import audit

LEVEL = "other"
EXPLANATION = (
    "Constant-table, normalisation-dominance and formula-shape rules over the parser: (N1) the 148-keyword table equals CSS Color 3 + "
    "rebeccapurple (embedded reference generated from two sources; thorough tier re-reads tinycss2's own table with ast); (N2) every "
    "string dispatch test of parse_color_to_rgb (keyword lookup, '#', 'hsl(' / 'rgb(' prefixes, bare-hex pattern) is applied to a value "
    "derived from color.strip().lower(), so case and outer whitespace cannot change the path; (N3) the scalers: percentage -> v*255/100 "
    "clamped (component) and v/100 clamped (alpha), plain components accepted in [0,255], rounding to the nearest integer and clamping in "
    "the rgb()/rgba() branch; (N4) hex: each of 3 digits doubled, base-16 pairs read in R,G,B order; (N5) hue wrapped % 360 on every hue "
    "entry, percentages / 100, the CSS HSL->RGB algorithm (q/p, sector bounds 1/6, 1/2, 2/3, offsets +1/3, 0, -1/3, round(x*255)). "
    "Nearest-8-bit rounding of arbitrary decimal input and whitespace inside functions are numeric/lexical and not decided."
)
TRUSTED = ["stdlib ast", "embedded CSS Color 3 keyword table (/verif/ref/css_named_colors.json)", "reference formulas in checks/C07.py transcribe CSS Color 3 section 4.2"]

PAR = "cm_colors.core.color_parser"
CONV = "cm_colors.core.conversions"
HERE = os.path.dirname(os.path.dirname(os.path.abspath(__file__)))

REF = '''
def number_token(tok, component):
    t = tok.strip()
    if t.endswith("%"):
        v = float(t[:-1])
        if component:
            return max(0.0, min(255.0, v * 255.0 / 100.0))
        else:
            return max(0.0, min(1.0, v / 100.0))
    w = float(t)
    if component:
        if 0.0 <= w <= 255.0:
            return float(w)
        raise ValueError("range")
    else:
        if 0.0 <= w <= 1.0:
            return float(w)
        if 1.0 < w <= 100.0:
            return max(0.0, min(1.0, w / 100.0))
        raise ValueError("range")

def hue_of(v):
    return float(v.strip()) % 360

def pct_or_decimal(v):
    t = v.strip()
    if t.endswith("%"):
        return float(t[:-1]) / 100.0
    x = float(t)
    if 0 <= x <= 1:
        return x
    raise ValueError("range")

def pct_or_decimal_rstrip(v):
    t = v.strip()
    if t.endswith("%"):
        return float(t.rstrip("%")) / 100.0
    x = float(t.rstrip("%"))
    if 0 <= x <= 1:
        return x
    raise ValueError("range")

def f(p, q, t):
    if t < 0:
        t += 1
    if t > 1:
        t -= 1
    if t < 1 / 6:
        return p + (q - p) * 6 * t
    if t < 1 / 2:
        return q
    if t < 2 / 3:
        return p + (q - p) * (2 / 3 - t) * 6
    return p

def hsl_core(h, s, l):
    if s == 0:
        r = l
        g = l
        b = l
    else:
        q = l * (1 + s) if l < 0.5 else (l + s - l * s)
        p = 2 * l - q
        hn = h / 360
        r = f(p, q, hn + 1 / 3)
        g = f(p, q, hn)
        b = f(p, q, hn - 1 / 3)
    return (int(round(r * 255)), int(round(g * 255)), int(round(b * 255)))
'''


from sa.formula import final_value, raise_guards, term  # noqa: E402


def hex_digits_validated(ret) -> bool:
    """Before int(.., 16) every character of the digit string is restricted to hex digits: a rejected
    `all(c in <hex alphabet> for c in h)` or a rejected full regex match. Without it int() also accepts
    signs, underscores and surrounding whitespace ('-f', '+a', '1_0')."""
    import string
    ok = []

    def visit(n, negated):
        if n[0] == "not":
            visit(n[1], not negated)
            return
        if n[0] in ("or", "and"):
            for x in n[1]:
                visit(x, negated)
            return
        if negated and n[0] == "call" and n[1] == "all" and n[2] and n[2][0][0] in ("mapcomp", "tuple"):
            mc = n[2][0]
            if mc[0] == "mapcomp" and mc[2][0] == "cmp" and mc[2][1] == "in" and mc[2][2] == ("var", "$elt") and mc[2][3][0] == "str":
                alpha = set(mc[2][3][1])
                if alpha and alpha <= set(string.hexdigits) and set("0123456789") <= alpha:
                    ok.append(True)
        if negated and n[0] == "call" and str(n[1]).startswith("re.") and str(n[1]).rsplit(".", 1)[-1] in ("fullmatch",) and n[2] and n[2][0][0] == "str":
            pat = n[2][0][1]
            if "[0-9a-f" in pat.lower() and "{" in pat and not any(ch in pat for ch in "+-_. "):
                ok.append(True)
    for c in raise_guards(ret):
        visit(c, False)
    return bool(ok)


def hsl_fields_read_as_css(project, chk, rule="N5"):
    """The two token readers of hsl(): hue wrapped modulo 360; S / L: a percentage is divided by 100 whatever its size,
    a bare number is accepted only in [0, 1]. (Also the reader C06's read-back clause relies on.)"""
    audit(project, chk, rule, f"{CONV}._parse_hue", REF, "hue_of", Policy(), "hue normalisation (any angle wraps into [0, 360))")
    audit(project, chk, rule, f"{CONV}._parse_hsl_percentage_or_decimal", REF, "pct_or_decimal", Policy(), "S / L percentage scaling", alternatives=["pct_or_decimal_rstrip"])


def keyword_strings(e):
    """Lower-case alphabetic literals (CSS function names / keywords) a value is compared with; None otherwise."""
    items = e.elts if isinstance(e, (ast.Tuple, ast.List, ast.Set)) else [e]
    if items and all(isinstance(x, ast.Constant) and isinstance(x.value, str) and x.value.isalpha() and x.value.islower() and len(x.value) >= 3 for x in items):
        return [x.value for x in items]
    return None


def _subterms(o):
    yield o
    if isinstance(o, tuple):
        for x in o:
            if isinstance(x, (tuple, frozenset)):
                for y in (x if isinstance(x, frozenset) else [x]):
                    yield from _subterms(y)


def hsl_core_is_css(project, chk, rule="N5"):
    """hsl_to_rgb computes the CSS HSL -> RGB algorithm on the parsed (h, s, l), each channel int(round(x * 255))."""
    fi = project.func(f"{CONV}.hsl_to_rgb")
    try:
        ex, env, ret = extract_function(project, fi)
        memo = {id(env[v]): (env[v], ("var", v)) for v in ("h", "s", "l")}
        core = final_value(transform(ret, lambda n: n, memo))
    except (Unsupported, KeyError) as e:
        raise AnalysisError(f"ANALYSIS-INCONCLUSIVE {fi.short}: {e}")
    audit(project, chk, rule, f"{CONV}.hsl_to_rgb", REF, "hsl_core", Policy(), "the CSS HSL -> RGB algorithm", code_expr=core)


def prefix_strings(org, node, arg):
    """The constant string(s) a startswith/endswith test compares with: a literal, a tuple of literals, or the
    k-th column of a constant table the enclosing loop runs over."""
    if isinstance(arg, ast.Constant) and isinstance(arg.value, str):
        return [arg.value]
    if isinstance(arg, ast.Tuple) and arg.elts and all(isinstance(x, ast.Constant) and isinstance(x.value, str) for x in arg.elts):
        return [x.value for x in arg.elts]
    if isinstance(arg, ast.Name):
        o = org.of(node.id, arg)
        if o[0] == "const" and isinstance(o[1], str):
            return [o[1]]           # a loop over a literal table, unrolled in the flow graph: this copy tests one constant
        if o[0] == "item" and o[1][0] == "elem" and o[1][1][0] == "tuple":
            rows = o[1][1][1]
            if all(r[0] == "tuple" and len(r[1]) > o[2] and r[1][o[2]][0] == "const" and isinstance(r[1][o[2]][1], str) for r in rows):
                return [r[1][o[2]][1] for r in rows]
        if o[0] == "elem" and o[1][0] == "tuple" and all(r[0] == "const" and isinstance(r[1], str) for r in o[1][1]):
            return [r[1] for r in o[1][1]]
    return None


PIECE_METHODS = (".partition", ".rpartition", ".split", ".rsplit", ".rstrip", ".lstrip", ".removeprefix", ".removesuffix")


def lowered(o) -> bool:
    """Origin is .lower() of .strip() of something (case and outer whitespace normalised), or a piece cut out of such a
    value (s_lower.partition("(")[0], s_lower[:4]): cutting does not change case."""
    seen_lower = seen_strip = False
    while True:
        if o[0] == "call" and o[1] in (".lower", ".strip", ".casefold") and o[4] is not None:
            seen_lower |= o[1] in (".lower", ".casefold")
            seen_strip |= o[1] == ".strip"
            o = o[4]
        elif o[0] in ("item", "index") and isinstance(o[1], tuple):
            o = o[1]
        elif o[0] == "call" and o[1] in PIECE_METHODS and o[4] is not None:
            o = o[4]
        else:
            break
    return seen_lower and seen_strip


NUM_REF = r"[-+]?[0-9]*\.?[0-9]+%?"


def number_token_language(project, chk, rule="N8"):
    """The pattern that cuts rgb()/rgba()/informal strings into numeric tokens still recognises every ASCII number spelling the
    pinned tokeniser does (sign, digits, leading-dot and trailing-digit decimals, percent). Decided on the pattern text by
    automata inclusion (sa.relang); nothing is matched against anything."""
    from sa.relang import witness_not_included, Unsupported as ReUnsupported
    fi = project.funcs.get(f"{PAR}._extract_number_tokens")
    if fi is None:
        chk.not_decided.append(f"{rule}: _extract_number_tokens is gone; the token pattern was not located")
        return 0
    sc = Scope(project, fi)
    pats = []
    for c in own_nodes(fi.node):
        if not (isinstance(c, ast.Call) and isinstance(c.func, ast.Attribute) and c.func.attr in ("findall", "finditer")):
            continue
        recv = c.func.value
        pn = None
        if sc.resolve(recv) == "re" and c.args:
            pn = c.args[0]
        else:
            d = recv
            if isinstance(recv, ast.Name) and recv.id in fi.module.top_assigns:
                d = fi.module.top_assigns[recv.id]
            if isinstance(d, ast.Call) and sc.resolve(d.func) == "re.compile" and d.args and len(d.args) == 1 and not d.keywords:
                pn = d.args[0]
        if isinstance(pn, ast.Constant) and isinstance(pn.value, str):
            pats.append((c, pn.value))
    if not pats:
        chk.not_decided.append(f"{rule}: the numeric tokens are not cut out by a readable regular expression")
        return 0
    for c, pat in pats:
        try:
            w = witness_not_included(NUM_REF, pat)
        except (ReUnsupported, Exception) as e:       # noqa: BLE001
            chk.not_decided.append(f"{rule}: token pattern {pat!r} uses a construct the language comparison does not model ({e})")
            continue
        chk.check(w is None, rule, fi.short, f"pattern {pat!r}", project.loc(fi.module, c), "every ASCII number spelling (sign, digits, `.5`, `1.`-less decimals, `%`) is one token",
                  how=f"L({NUM_REF}) is included in L({pat}) (subset construction over the pattern's character classes)",
                  message=f"the number tokeniser {pat!r} no longer recognises {w!r} as one token (it is cut differently): e.g. an alpha written `.5` is read as `5`")
    return len(pats)


def hsla_string_fields(project, chk, rule="N9"):
    """hsla() strings: what reaches the HSL core as S and L is the written percentage divided by 100 (or 0 for an empty field), never the bare number."""
    fi = project.funcs.get(f"{CONV}.hsla_to_rgb")
    if fi is None:
        return 0
    org = Origins(project, fi)
    sc = Scope(project, fi)

    def from_text(o) -> bool:
        if isinstance(o, frozenset):
            return any(from_text(x) for x in o)
        if not isinstance(o, tuple) or not o:
            return False
        if o[0] == "call" and isinstance(o[1], str) and (o[1].startswith(".") or o[1].startswith("re.")):
            return True
        if o[0] == "comp":
            return True
        return any(from_text(x) for x in o if isinstance(x, (tuple, frozenset)))

    def alts(o):
        if o[0] == "phi":
            return [a for x in o[1] for a in alts(x)]
        if o[0] == "ifexp":
            return alts(o[2]) + alts(o[3])
        return [o]
    n = 0
    for c in own_nodes(fi.node):
        if not (isinstance(c, ast.Call) and (sc.resolve_call(c) or "").endswith(".hsl_to_rgb") and c.args):
            continue
        o = org.at(c.args[0])
        if o[0] != "tuple" or len(o[1]) != 3:
            chk.not_decided.append(f"{rule}: the colour handed to hsl_to_rgb is not a 3-element display")
            continue
        for k, name in ((1, "saturation"), (2, "lightness")):
            for a in alts(o[1][k]):
                if not from_text(a):
                    continue
                n += 1
                ok = a[0] == "binop" and a[1] == "Div" and a[3] in (("const", 100), ("const", 100.0)) and a[2][0] == "call" and a[2][1] == "builtins.float"
                chk.check(ok, rule, fi.short, f"{name} from an hsla() string", project.loc(fi.module, c), f"the {name} of an hsla() string is its percentage / 100",
                          how=f"origin: {oshow(a)[:90]}", message=f"the {name} of an hsla() string can reach the HSL core as {oshow(a)[:100]} (not percentage / 100): `1%` is read as 100%")
    return n


def run(project, chk):
    chk.rule("N1", "CSS_NAMED_COLORS has exactly the 148 keywords of CSS Color 3 + rebeccapurple, lower-case, each with the value CSS defines")
    chk.rule("N2", "every string dispatch test in parse_color_to_rgb / detect_color_format is applied to color.strip().lower()")
    chk.rule("N3", "numeric tokens: percentage*255/100 clamped, alpha/100 clamped, plain 0..255; rgb()/rgba() components are int(round(.)) and clamped to 0..255")
    chk.rule("N4", "hex: 3 digits are doubled, pairs are read base 16 in R, G, B order; both letter cases accepted")
    chk.rule("N5", "hsl: hue % 360 on every entry, S and L percentages / 100, CSS HSL->RGB algorithm, round(x*255)")
    chk.not_decided += ["nearest-8-bit rounding of arbitrary decimal components (numeric)", "whitespace inside functional notation / informal forms (lexical behaviour of the regex tokeniser)",
                        "the 1.5-unit bound of translucent forms (C13)"]

    # ---------------------------------------------------------------- N0: the parser is a function of its arguments
    chk.rule("N0", "parse_color_to_rgb and everything it calls read and write no module-level state (a result cache keyed on part of the input breaks 'equivalent spellings give identical results')")
    from sa.effects import Effects
    eff = Effects(project)
    entry = f"{PAR}.parse_color_to_rgb"
    project.func(entry)
    closure = eff.reach(entry)
    dirty = [(q, d, n) for q in sorted(closure) for (d, n) in eff.sum[q].module_writes]
    for q, d, n in dirty:
        f2 = project.funcs[q]
        chk.fail("N0", f2.short, norm_text(n), project.loc(f2.module, n), f"the parser's call closure writes module-level state {d}: what a colour parses to can depend on what was parsed before (e.g. a cache keyed without the background or on the un-normalised spelling)")
    if not dirty:
        chk.ok("N0", f"{project.loc(project.func(entry).module, project.func(entry).node)} core.color_parser.parse_color_to_rgb", f"the {len(closure)} functions in the parser's call closure write no module-level state", "effect summaries closed over the call graph")
    from sa.effects import CACHE_DECORATORS
    for q in sorted(closure):
        f2 = project.funcs[q]
        from sa.resolve import Scope as _S
        for d in f2.node.decorator_list:
            tgt = d.func if isinstance(d, ast.Call) else d
            qd = (_S(project, f2.parent) if f2.parent else _S(project, None, f2.module)).resolve(tgt)
            if qd in CACHE_DECORATORS:
                chk.fail("N0", f2.short, "@" + norm_text(d), project.loc(f2.module, d), f"memoised with {qd}: hash-equal arguments (1, 1.0, True) share an entry although they parse differently")

    # ---------------------------------------------------------------- N1
    m = project.module("cm_colors.core.named_colors")
    chk.saw_module(m)
    tbl = m.top_assigns.get("CSS_NAMED_COLORS")
    if not isinstance(tbl, ast.Dict):
        raise AnalysisError("named_colors.CSS_NAMED_COLORS is not a dict display")
    code = {}
    for k, v in zip(tbl.keys, tbl.values):
        if not (isinstance(k, ast.Constant) and isinstance(k.value, str) and isinstance(v, ast.Constant) and isinstance(v.value, str)):
            raise AnalysisError(f"{project.loc(m, k or tbl)}: table entry is not a pair of string literals")
        if k.value in code:
            chk.fail("N1", "named_colors:<module>", f"{k.value!r} (duplicate key)", project.loc(m, k), f"keyword {k.value!r} appears twice: the later value silently wins")
        code[k.value] = (v.value, k)
    with open(os.path.join(HERE, "ref", "css_named_colors.json")) as fh:
        ref = json.load(fh)
    refs = [("embedded CSS Color 3 table", ref)]
    if chk.tier == "thorough":
        p = "/venv/lib/python3.12/site-packages/tinycss2/color3.py"
        if os.path.exists(p):
            t2 = {}
            for n in ast.parse(open(p).read()).body:
                if isinstance(n, ast.Assign) and isinstance(n.targets[0], ast.Name) and n.targets[0].id in ("_BASIC_COLOR_KEYWORDS", "_EXTENDED_COLOR_KEYWORDS"):
                    for e in n.value.elts:
                        t2[e.elts[0].value] = "#%02x%02x%02x" % tuple(x.value for x in e.elts[1].elts)
            t2["rebeccapurple"] = "#663399"
            refs.append(("tinycss2.color3 keyword tables (read with ast)", t2))
    for rname, r in refs:
        for kw in sorted(r):
            if kw not in code:
                chk.fail("N1", "named_colors:<module>", f"{kw!r} missing", project.loc(m, tbl), f"CSS keyword {kw!r} is missing from the table ({rname})")
                continue
            val, knode = code[kw]
            chk.check(val.lower() == r[kw], "N1", "named_colors:<module>", f"{kw!r}: {val!r}", project.loc(m, knode), f"{kw} = {r[kw]} ({rname})",
                      how="literal comparison, hex digits case-insensitive", message=f"keyword {kw!r} maps to {val!r} but CSS defines {r[kw]!r} ({rname})", nontrivial=True)
        for kw in sorted(set(code) - set(r)):
            chk.fail("N1", "named_colors:<module>", f"{kw!r} (not a CSS keyword)", project.loc(m, code[kw][1]), f"{kw!r} is not a CSS Color 3 keyword ({rname}): a non-CSS spelling (or a mis-cased key that never matches) is accepted")
    chk.floor("keywords in the table", len(code), 140)

    # ---------------------------------------------------------------- N2
    for q in (f"{PAR}.parse_color_to_rgb", f"{PAR}.detect_color_format"):
        fi = project.func(q)
        cfg = build_cfg(fi.node)
        chk.saw_function(fi, cfg)
        org = Origins(project, fi, cfg)
        sc = Scope(project, fi)
        n_tests = 0
        for node in cfg.nodes:
            for e in node_exprs(node):
                for c in ast.walk(e):
                    subj = None
                    what = None
                    weight = 1
                    if isinstance(c, ast.Call) and isinstance(c.func, ast.Attribute) and c.func.attr in ("startswith", "endswith") and c.args and prefix_strings(org, node, c.args[0]):
                        strs = prefix_strings(org, node, c.args[0])
                        if any(ch.isalpha() or ch == "#" for v in strs for ch in v):
                            subj, what = c.func.value, f".{c.func.attr}({', '.join(repr(v) for v in strs)})"
                            weight = len(strs)
                    elif isinstance(c, ast.Compare) and len(c.ops) == 1 and isinstance(c.ops[0], (ast.In, ast.NotIn)) and sc.resolve(c.comparators[0]) == "cm_colors.core.named_colors.CSS_NAMED_COLORS":
                        subj, what = c.left, "in CSS_NAMED_COLORS"
                    elif isinstance(c, ast.Compare) and len(c.ops) == 1 and isinstance(c.ops[0], (ast.In, ast.NotIn, ast.Eq, ast.NotEq)) and keyword_strings(c.comparators[0]):
                        # a function name / keyword compared with lower-case literals: `func in ("hsl", "hsla")`, `func == "hsla"`
                        ks = keyword_strings(c.comparators[0])
                        so = org.of(node.id, c.left)
                        from_input = any(t == ("param", fi.params()[0]) for t in _subterms(so))
                        if from_input:
                            subj, what = c.left, f"compared with {', '.join(repr(k) for k in ks)}"
                            weight = len(ks)
                    elif isinstance(c, ast.Subscript) and sc.resolve(c.value) == "cm_colors.core.named_colors.CSS_NAMED_COLORS":
                        subj, what = c.slice, "CSS_NAMED_COLORS[...]"
                    elif isinstance(c, ast.Call) and sc.resolve(c.func) in ("re.fullmatch", "re.match", "re.search") and len(c.args) >= 2 and isinstance(c.args[0], ast.Constant):
                        pat = str(c.args[0].value)
                        if "a-f" in pat and "A-F" not in pat or "A-F" in pat and "a-f" not in pat or "a-f" in pat:
                            subj, what = c.args[1], f"re.{c.func.attr}({pat!r})"
                    elif isinstance(c, ast.Call) and isinstance(c.func, ast.Attribute) and c.func.attr in ("fullmatch", "match", "search") and isinstance(c.func.value, ast.Call) \
                            and sc.resolve(c.func.value.func) == "re.compile" and c.func.value.args and isinstance(c.func.value.args[0], ast.Constant) and c.args:
                        pat = str(c.func.value.args[0].value)      # a precompiled pattern (module constants are propagated by the loader)
                        if "a-f" in pat or "A-F" in pat:
                            subj, what = c.args[0], f"re.{c.func.attr}({pat!r})"
                    if subj is None:
                        continue
                    n_tests += weight
                    o = org.of(node.id, subj)
                    ok = lowered(o)
                    if not ok and what.startswith("re.") and "a-f" in what and "A-F" in what:
                        ok = o[0] == "call" and o[1] in (".strip", ".lower")      # case-insensitive class: stripping is enough
                    chk.check(ok, "N2", fi.short, norm_text(c), project.loc(fi.module, c), f"`{norm_text(c)[:60]}` tests the stripped, lower-cased input",
                              how=f"subject origin: {oshow(o)[:80]}", message=f"`{norm_text(c)[:70]}` is applied to {oshow(o)[:60]}, not to color.strip().lower(): letter case or outer whitespace changes the parse")
        chk.floor(f"string dispatch tests in {fi.short}", n_tests, 6)

    # ---------------------------------------------------------------- N3 scalers
    audit(project, chk, "N3", f"{PAR}._parse_number_token", REF, "number_token", Policy(), "CSS number / percentage token scaling")
    # rgb()/rgba() branch of parse_color_to_rgb: int(round(token)) then clamp / composite
    fi = project.func(f"{PAR}.parse_color_to_rgb")
    cfg = build_cfg(fi.node)
    org = Origins(project, fi, cfg)
    PNT = f"{PAR}._parse_number_token"

    def peel(t):
        """tokens[k] seen through str(...) (the tokens are strings already) and through a leading slice tokens[:n][k]"""
        while t is not None and t[0] == "call" and t[1] == "builtins.str" and len(t[2]) == 1 and not t[3]:
            t = t[2][0]
        if t is not None and t[0] == "item" and isinstance(t[1], tuple) and t[1][0] == "index" and t[1][2][0] == "expr" and str(t[1][2][1]).replace(" ", "") in (":3", ":4", "0:3", "0:4"):
            t = ("item", t[1][1], t[2])
        return t

    def is_component(o, k):
        """int(round(_parse_number_token(tokens[k], component=True)))"""
        if not (o[0] == "call" and o[1] == "builtins.int" and len(o[2]) == 1):
            return False
        r = o[2][0]
        if not (r[0] == "call" and r[1] == "builtins.round" and len(r[2]) == 1):
            return False
        p = r[2][0]
        if not (p[0] == "call" and p[1] == PNT):
            return False
        args = list(p[2])
        kws = dict(p[3])
        comp = kws.get("component", args[1] if len(args) > 1 else ("const", True))
        tok = peel(args[0] if args else None)
        return comp == ("const", True) and tok is not None and tok[0] == "item" and tok[2] == k

    n_rgb = 0
    for node in cfg.nodes:
        if node.kind != "return" or node.ast.value is None:
            continue
        o = org.of(node.id, node.ast.value)
        loc = project.loc(fi.module, node.ast)
        # rgb(): (max(0, min(255, r)), ...)
        if o[0] == "tuple" and len(o[1]) == 3 and all(x[0] == "call" and x[1] == "builtins.max" for x in o[1]):
            inner = []
            bounds = set()
            for x in o[1]:
                mn = [a for a in x[2] if a[0] == "call" and a[1] == "builtins.min"]
                lo = [a for a in x[2] if a[0] == "const"]
                if len(mn) == 1 and lo:
                    hi = [a for a in mn[0][2] if a[0] == "const"]
                    rest = [a for a in mn[0][2] if a[0] != "const"]
                    if len(hi) == 1 and len(rest) == 1:
                        bounds.add((lo[0][1], hi[0][1]))
                        inner.append(rest[0])
            if len(inner) == 3:
                chk.check(bounds == {(0, 255)}, "N3", fi.short, norm_text(node.ast), loc, "rgb() channels are clamped to 0..255", how=f"clamp bounds {sorted(bounds)}",
                          message=f"rgb() channels are clamped to {sorted(bounds)} instead of 0..255")
            if len(inner) == 3 and all(v[0] == "call" and v[1] == "builtins.int" for v in inner):
                n_rgb += 1
                ok = all(is_component(v, k) for k, v in enumerate(inner))
                chk.check(ok, "N3", fi.short, norm_text(node.ast), loc, "rgb(): channel k = clamp(int(round(token k scaled as a component)), 0, 255) in R, G, B order",
                          how=f"origins: {[oshow(v)[:60] for v in inner]}", message=f"rgb() components are not int(round(number_token(tokens[k], component=True))) in order: {[oshow(v)[:70] for v in inner]}")
        # rgba(): rgba_to_rgb((r, g, b, a), background=...)
        if o[0] == "call" and o[1] == f"{CONV}.rgba_to_rgb" and o[2] and o[2][0][0] == "tuple" and len(o[2][0][1]) == 4:
            r4 = o[2][0][1]
            if all(v[0] == "call" and v[1] == "builtins.int" for v in r4[:3]) and r4[0][2] and r4[0][2][0][0] == "call" and r4[0][2][0][2] and r4[0][2][0][2][0][0] == "call" and r4[0][2][0][2][0][2] and (peel(r4[0][2][0][2][0][2][0]) or ("?",))[0] == "item" \
                    and "_extract_number_tokens" in repr(peel(r4[0][2][0][2][0][2][0])[1]):       # (the string branch: items of the token list)
                n_rgb += 1
                a = r4[3]
                ok_a = a[0] == "call" and a[1] == PNT and a[2] and (peel(a[2][0]) or ("?",))[0] == "item" and peel(a[2][0])[2] == 3 and dict(a[3]).get("component", a[2][1] if len(a[2]) > 1 else None) == ("const", False)
                ok = all(is_component(v, k) for k, v in enumerate(r4[:3])) and ok_a
                chk.check(ok, "N3", fi.short, norm_text(node.ast), loc, "rgba(): (int(round(component k)) for k = 0..2, alpha = token 3 scaled as alpha) handed to the compositor",
                          how=f"origins: {[oshow(v)[:50] for v in r4]}", message=f"rgba() components / alpha are not scaled as CSS defines: {[oshow(v)[:60] for v in r4]}")
    chk.floor("rgb()/rgba() return sites recognised in parse_color_to_rgb", n_rgb, 2)

    # ---------------------------------------------------------------- N6: a tuple/list of three 8-bit ints parses to itself
    chk.rule("N6", "tuple/list input: an int component c with 0 <= c <= 255 is taken as it is (the per-component decision chain, partially evaluated for ints, is `0 <= c <= 255 ? int(c) : raise`), then clamped/validated in 0..255")
    import copy as _copy
    from sa.formula import Extractor, rebuild_node
    pfi = project.func(f"{PAR}.parse_color_to_rgb")
    color_param = pfi.params()[0]
    # the per-component conversion: the body of `for c in color:` (its appends read as results), or the element
    # expression / helper of a comprehension over color
    cands = []
    for n in own_nodes(pfi.node):
        if isinstance(n, ast.For) and isinstance(n.iter, ast.Name) and n.iter.id == color_param and isinstance(n.target, ast.Name):
            cands.append(("loop", n))
        if isinstance(n, (ast.ListComp, ast.GeneratorExp)) and len(n.generators) == 1 and isinstance(n.generators[0].iter, ast.Name) and n.generators[0].iter.id == color_param \
                and isinstance(n.generators[0].target, ast.Name) and not n.generators[0].ifs:
            cands.append(("comp", n))
    if len(cands) != 1:
        raise AnalysisError(f"{pfi.short}: expected one loop / comprehension over the components of the tuple input, found {len(cands)}")
    kind, lp = cands[0]
    comp_scope_fi = pfi

    class _AppendToReturn(ast.NodeTransformer):
        def visit_Expr(self, n):
            v = n.value
            if isinstance(v, ast.Call) and isinstance(v.func, ast.Attribute) and v.func.attr == "append" and len(v.args) == 1:
                return ast.copy_location(ast.Return(value=v.args[0]), n)
            return n
    if kind == "loop":
        target = lp.target.id
        body = [_AppendToReturn().visit(_copy.deepcopy(st)) for st in lp.body]
    else:
        target = lp.generators[0].target.id
        elt = lp.elt
        callee = Scope(project, pfi).resolve_call(elt) if isinstance(elt, ast.Call) else None
        if callee in project.funcs and len(elt.args) == 1 and not elt.keywords and isinstance(elt.args[0], ast.Name) and elt.args[0].id == target and len(project.funcs[callee].params()) >= 1:
            comp_scope_fi = project.funcs[callee]
            chk.saw_function(comp_scope_fi)
            target = comp_scope_fi.params()[0]
            body = [_copy.deepcopy(st) for st in comp_scope_fi.node.body]
        else:
            body = [ast.Return(value=_copy.deepcopy(elt))]
    fn = ast.FunctionDef(name="component", args=ast.arguments(posonlyargs=[], args=[ast.arg(arg=target)], kwonlyargs=[], kw_defaults=[], defaults=[]), body=body, decorator_list=[], lineno=lp.lineno, col_offset=0)
    ast.fix_missing_locations(fn)
    try:
        ex = Extractor(project, comp_scope_fi, fn, Scope(project, comp_scope_fi))
        env, comp = ex.run()
    except Unsupported as e:
        raise AnalysisError(f"ANALYSIS-INCONCLUSIVE {pfi.short}: per-component decision chain not readable ({e})")
    cvar = ("var", target)

    def for_int(n):
        if n[0] == "call" and n[1] == "isinstance" and n[2][0] == cvar and n[2][1][0] == "op":
            names = {x[1] for x in n[2][1][2] if x[0] == "var"}
            return ("lit", "int" in names or "bool" in names)
        return n
    pe = transform(comp, for_int)
    want_a = term("int(c) if 0 <= c <= 255 else RAISE", c=cvar)
    want_b = term("c if 0 <= c <= 255 else RAISE", c=cvar)
    from sa.formula import mk_not as _mk_not
    forms = {pe}
    if pe[0] == "ite" and not (pe[3][0] == "ite"):     # `reject if out of range else keep` is the same decision written from the other end
        forms.add(("ite", _mk_not(pe[1]), pe[3], pe[2]))
    wants = {want_a, want_b, term("int(c) if (c >= 0 and c <= 255) else RAISE", c=cvar), term("c if (c >= 0 and c <= 255) else RAISE", c=cvar),
             term("int(c) if (0 <= c and c <= 255) else RAISE", c=cvar), term("c if (0 <= c and c <= 255) else RAISE", c=cvar)}
    chk.check(bool(forms & wants), "N6", pfi.short, "per-component chain for int input", project.loc(pfi.module, lp), "an int component in 0..255 is kept as it is; any other int is rejected",
              how=f"partial evaluation for ints: {show(pe)[:120]}", message=f"for an int component the decision chain reduces to {show(pe)[:200]} instead of `0 <= c <= 255 ? int(c) : raise`: a tuple of three 8-bit ints does not parse to itself")

    # ---------------------------------------------------------------- N4 hex
    fi = project.func(f"{CONV}.hex_to_rgb")
    chk.saw_function(fi)
    try:
        ex, env, ret = extract_function(project, fi)
    except Unsupported as e:
        raise AnalysisError(f"ANALYSIS-INCONCLUSIVE {fi.short}: {e}")
    loc = project.loc(fi.module, fi.node)
    val = final_value(ret)
    if val[0] == "ite":      # string flag: the tuple is one of the branches
        val = val[3] if val[3][0] == "tuple" else val[2]
    ok = val[0] == "tuple" and len(val[1]) == 3
    digits = None
    if ok:
        for k, it in enumerate(val[1]):
            good = it[0] == "call" and it[1] == "int" and len(it[2]) == 2 and it[2][1] == ("num", 16) and it[2][0][0] == "slice" and it[2][0][2] == ("num", 2 * k) and it[2][0][3] == ("num", 2 * k + 2)
            ok = ok and good
            if good:
                digits = it[2][0][1] if digits is None else digits
                ok = ok and it[2][0][1] == digits
    chk.check(ok, "N4", fi.short, show(val)[:100], loc, "channels are int(digits[0:2], 16), int(digits[2:4], 16), int(digits[4:6], 16) in R, G, B order",
              how="shape of the returned tuple", message=f"hex pairs are not read base 16 in R, G, B order: {show(val)[:160]}")
    # expansion of 3-digit form: "".join(c * 2 for c in h)
    exp_ok = False
    if digits is not None and digits[0] == "ite":
        c, a, b = digits[1], digits[2], digits[3]
        three = c[0] == "cmp" and c[1] == "==" and c[3] == ("num", 3) and c[2][0] == "call" and c[2][1] == "len"
        doubled = a[0] == "method" and a[1] == "join" and a[2] == ("str", "") and a[3] and a[3][0][0] in ("mapcomp", "tuple") and (a[3][0][0] != "mapcomp" or (a[3][0][1] == b and a[3][0][2] in (("op", "*", (("num", 2), ("var", "$elt"))), ("op", "+", (("var", "$elt"), ("var", "$elt"))), ("bin", "**", ("var", "$elt"), ("num", 2)))))
        exp_ok = three and doubled
    chk.check(exp_ok, "N4", fi.short, "3-digit expansion", loc, "#rgb is expanded by doubling each digit (r -> rr, g -> gg, b -> bb)", how="digits = ''.join(c * 2 for c in h) when len(h) == 3",
              message=f"3-digit hex is not expanded by doubling each digit: {show(digits)[:200] if digits is not None else 'unreadable'}")
    chk.check(hex_digits_validated(ret), "N4", fi.short, "hex digit validation", loc, "every character is checked to be a hex digit before int(.., 16) (which would also accept signs, underscores, whitespace)",
              how="a failed all(c in <hex alphabet> ...) / regex full match raises before the conversion", message="the hex digits are not validated character by character before int(pair, 16): '#-f0000' or '#1_0000' parse to (possibly negative) numbers instead of being rejected")
    # both letter cases accepted by the validity test
    src = ast.get_source_segment(fi.module.src, fi.node) or ""
    alpha_sets = [n.value for n in ast.walk(fi.node) if isinstance(n, ast.Constant) and isinstance(n.value, str) and set("0123456789").issubset(set(n.value)) and len(n.value) >= 16]
    case_ok = all(set("abcdef").issubset(set(sv)) and set("ABCDEF").issubset(set(sv)) for sv in alpha_sets) if alpha_sets else True
    chk.check(case_ok, "N4", fi.short, repr(alpha_sets[0]) if alpha_sets else "hex digit set", loc, "the hex-digit validity test accepts both letter cases", how=f"digit alphabet(s): {alpha_sets}",
              message=f"hex digit alphabet {alpha_sets} rejects one letter case")

    # ---------------------------------------------------------------- N5 hsl
    hsl_fields_read_as_css(project, chk, "N5")
    hsl_core_is_css(project, chk, "N5")
    chk.rule("N8", "the numeric-token pattern of the rgb()/rgba() parser accepts every ASCII number spelling of CSS that the pinned one does (language inclusion, decided on the pattern)")
    number_token_language(project, chk, "N8")
    chk.rule("N9", "hsla() strings: S and L reach the HSL core as percentage / 100 (value-flow origins of the tuple handed to hsl_to_rgb)")
    chk.floor("string-derived S/L alternatives in hsla_to_rgb", hsla_string_fields(project, chk, "N9"), 2)
    # every way a hue enters hsl_to_rgb / hsla_to_rgb is wrapped
    for q in (f"{CONV}.hsl_to_rgb", f"{CONV}.hsla_to_rgb"):
        fi = project.func(q)
        try:
            ex, env, ret = extract_function(project, fi)
            h = inline_calls(env["h"], project_resolver(project))
        except (Unsupported, KeyError) as e:
            raise AnalysisError(f"ANALYSIS-INCONCLUSIVE {fi.short}: {e}")
        branches = []

        def leaves(t):
            if t[0] == "ite":
                leaves(t[2])
                leaves(t[3])
            else:
                branches.append(t)
        leaves(h)
        branches = [b for b in branches if b[0] != "unbound"]
        chk.floor(f"hue entry points in {fi.short}", len(branches), 2)
        for b in branches:
            ok = b[0] == "bin" and b[1] == "%" and b[3] == ("num", 360)
            chk.check(ok, "N5", fi.short, show(b)[:80], project.loc(fi.module, fi.node), f"hue entry `{show(b)[:50]}` is wrapped modulo 360", how="expression is (...) % 360",
                      message=f"a hue enters as {show(b)[:80]} without % 360: negative hues or hues beyond 360 parse to a different colour")
