"""C14 -- invalid colour input is reported, never raised."""
from __future__ import annotations

import ast

from sa.cfg import build_cfg, node_exprs, handler_names
from sa.exc import Interp, STR, NONE, BOOL, OTHER, RAW_ELEM, seq, caught_by
from sa.guards import guard_states, common_literals, implied
from sa.loader import AnalysisError, norm_text
from sa.resolve import Scope, own_nodes

LEVEL = "other"
EXPLANATION = (
    "Exception-escape analysis by abstract interpretation over abstract types: the constructors Color / ColorPair are analysed "
    "for the whole input domain of the property at once (a string, or a list/tuple of any length whose elements may be int, float, "
    "bool, str or None); every operation that can raise for some abstract operand (float()/int() of None, arithmetic or ordering on "
    "un-narrowed elements, method calls on non-strings, unpacking, indexing without a dominating length test, dict lookup without a "
    "membership test, explicit raise) contributes its exception class; isinstance / None / length tests narrow, package callees are "
    "analysed per calling context, try/except filters by class. The obligation is that nothing escapes the constructors. A None-guard "
    "typestate rule adds that .rgb of a possibly-invalid colour is only dereferenced under an is_valid test and that the invalid "
    "short-circuits return the documented constants."
)
TRUSTED = ["stdlib ast", "table of builtin/str/list/re semantics in sa/exc.py (Python 3.12)",
           "numeric-domain exceptions are out of scope: OverflowError (astronomically large ints, inf), ZeroDivisionError, RecursionError, MemoryError"]

COLORS = "cm_colors.core.colors"
INPUT = STR | seq(RAW_ELEM)
RGB = seq({"int"})
NG_MODULES = ("cm_colors.core.colors", "cm_colors.core.cm_colors", "cm_colors.core.optimisation")
COLOR_CLS = f"{COLORS}.Color"
PAIR_CLS = f"{COLORS}.ColorPair"


def run(project, chk):
    chk.rule("E1", "no exception can escape Color.__init__ / ColorPair.__init__ for any str or list/tuple of {int,float,bool,str,None}: every exception class that the parser region may raise is caught by the constructor's handler")
    chk.rule("E2", "every explicit raise reachable from the constructors carries a non-empty message (so .error is non-empty)")
    chk.rule("E3", "_rgb is only assigned the parser's result inside the guarded try (and None in __init__); the handler assigns _error from the exception and leaves _rgb None")
    chk.rule("N1", ".rgb/._rgb of a Color is dereferenced only where is_valid of that colour (or of its pair) is known true on every path")
    chk.rule("N2", "is_readable returns 'Not Readable' and make_readable returns (None, False) under `not self.is_valid`, before anything else; every other return is under is_valid")
    chk.assumptions += ["input domain as stated by the property: str, or list/tuple whose elements are int/float/bool/str/None (nested sequences are outside it)",
                        "numeric-domain exceptions (OverflowError, ZeroDivisionError), RecursionError, MemoryError are out of scope",
                        "A3: builtin semantics table of sa/exc.py"]
    chk.not_decided += ["that a valid colour's rgb lies in 0..255 (range arithmetic: C07/C10 side conditions); only its construction path is decided here"]

    I = Interp(project)
    I.attr_types = {"original": INPUT, "rgb": NONE | RGB, "_rgb": NONE | RGB, "is_valid": BOOL, "background_context": OTHER | NONE,
                    "error": NONE | STR, "_error": NONE | STR, "_format": STR, "_parsed": BOOL}
    init = project.func(f"{COLOR_CLS}.__init__")
    pinit = project.func(f"{PAIR_CLS}.__init__")
    parse = project.func(f"{COLOR_CLS}._parse")
    entries = [(init, {"self": OTHER, "color_input": INPUT, "background_context": OTHER | NONE}),
               (pinit, {"self": OTHER, "text_color": INPUT, "bg_color": INPUT, "large_text": BOOL})]
    escaped_all = []
    for fi, args in entries:
        ret, raised = I.call_function(fi, args, ())
        escaped_all.append((fi, raised))
    for q in sorted(I.functions_analysed):
        chk.saw_function(project.funcs[q])
    chk.floor("functions in the constructors' call closure analysed by EXC", len(I.functions_analysed), 12)
    # the constructor must actually reach the parser
    for need in ("cm_colors.core.color_parser.parse_color_to_rgb", "cm_colors.core.color_parser.detect_color_format", "cm_colors.core.conversions.hsla_to_rgb",
                 "cm_colors.core.conversions.hsl_to_rgb", "cm_colors.core.conversions.hex_to_rgb", "cm_colors.core.conversions.rgba_to_rgb"):
        if need not in I.functions_analysed:
            raise AnalysisError(f"EXC: {need} is not reached from the constructors (anchor moved?)")

    # everything raised anywhere in the region (before the handler filters it)
    region = {}
    for key, (ret, raised) in I.memo.items():
        for r in raised:
            region[(r.cls, r.fi.qualname, norm_text(r.site))] = r
    explicit = [r for r in region.values() if r.kind == "explicit"]
    implicit = [r for r in region.values() if r.kind == "implicit"]
    chk.floor("explicit raise sites reachable from the constructors", len({(r.fi.qualname, id(r.site)) for r in explicit}), 15)
    chk.extra["exc"] = {"contexts_analysed": I.contexts, "operations_checked": I.ops_checked,
                        "explicit_raise_sites": len(explicit), "implicit_exception_sites": len(implicit),
                        "classes_raised_in_region": sorted({r.cls for r in region.values()}),
                        "unknown_callees_assumed_total": sorted(I.unknown_calls)}
    if I.unknown_calls:
        chk.note(f"callees without a semantics entry were assumed not to raise: {sorted(I.unknown_calls)}")

    # E7: what the parser hands back is always a colour: a None result would make the object invalid *without* an error message
    chk.rule("E7", "parse_color_to_rgb never returns None (nor a bare parameter that may be None): an input it cannot turn into a colour raises, so that the constructor records a message")
    pq = "cm_colors.core.color_parser.parse_color_to_rgb"
    none_ctx = [key for key, (ret, _r) in I.memo.items() if key[0] == pq and "none" in ret]
    pfi = project.funcs[pq]
    chk.check(not none_ctx, "E7", pfi.short, "return value", project.loc(pfi.module, pfi.node), "every normal return of the parser is a colour triple",
              how=f"abstract return types over {sum(1 for k in I.memo if k[0] == pq)} calling context(s) contain no None",
              message="the parser can return None (e.g. a bare `return background` with no background given): the colour is then invalid with error None -- 'invalid with a non-empty error message' is violated")
    # E1
    seen = set()
    n_escaped = 0
    for fi, raised in escaped_all:
        for r in raised:
            k = (r.cls, r.fi.qualname, norm_text(r.site))
            if k in seen:
                continue
            seen.add(k)
            n_escaped += 1
            chk.fail("E1", r.fi.short, norm_text(r.site), project.loc(r.fi.module, r.site),
                     f"{r.cls} can escape {fi.short}: {r.detail}; path {' > '.join(r.chain)} (the constructor's handler does not catch {r.cls})",
                     text=f"{r.cls} raised here is caught before it leaves the constructor")
    # what the handler(s) in _parse catch: every class raised in the region is listed as one discharged obligation
    hnames = []
    for n in own_nodes(parse.node):
        if isinstance(n, ast.Try):
            for h in n.handlers:
                hnames.append(handler_names(h))
    chk.floor("try statements with handlers in Color._parse", len(hnames), 1)
    for k, r in sorted(region.items(), key=lambda kv: (kv[0][1], kv[1].site.lineno, kv[0][0])):
        if k in seen:
            continue
        caught = any(caught_by(r.cls, hn) for hn in hnames)
        inner = not caught
        chk.ok("E1", f"{project.loc(r.fi.module, r.site)} {r.fi.short}", f"{r.cls} from `{norm_text(r.site)[:70]}` cannot leave the constructor",
               (f"caught by Color._parse's handler ({'/'.join(sorted(hn or {'<bare>'}) and ','.join(sorted(hn or {'<bare>'})) for hn in hnames)})" if caught else "converted by an inner try/except before it propagates"),
               nontrivial=True)
    # E2
    for r in sorted(explicit, key=lambda r: (r.fi.qualname, r.site.lineno)):
        chk.check(r.msg_ok, "E2", r.fi.short, norm_text(r.site), project.loc(r.fi.module, r.site),
                  f"`{norm_text(r.site)[:70]}` carries a non-empty message", how="first argument is a non-empty constant / f-string / expression",
                  message="exception raised without a message: the invalid colour's .error would be empty", nontrivial=False)

    # E3: stores to _rgb / _error in the Color class
    m = project.module(COLORS)
    for q, fi in sorted(m.funcs.items()):
        if not q.startswith("Color."):
            continue
        for n in own_nodes(fi.node):
            if isinstance(n, ast.Attribute) and isinstance(n.ctx, ast.Store) and n.attr == "_rgb":
                par = next((p for p in own_nodes(fi.node) if isinstance(p, ast.Assign) and n in p.targets), None)
                val = par.value if par else None
                if q == "Color.__init__":
                    ok = isinstance(val, ast.Constant) and val.value is None
                    why = "initialised to None"
                elif q == "Color._parse":
                    sc = Scope(project, fi)
                    ok = isinstance(val, ast.Call) and sc.resolve_call(val) == "cm_colors.core.color_parser.parse_color_to_rgb"
                    in_try = any(isinstance(t, ast.Try) and any(par is x for s in t.body for x in ast.walk(s)) for t in own_nodes(fi.node))
                    in_handler = any(isinstance(t, ast.ExceptHandler) and any(par is x for x in ast.walk(t)) for t in own_nodes(fi.node))
                    ok = ok and in_try and not in_handler
                    why = "assigned the parser's result inside the try body"
                else:
                    ok, why = False, ""
                chk.check(ok, "E3", fi.short, norm_text(par or n), project.loc(m, n), f"self._rgb store in {q}: {why or 'not allowed here'}", how="store census of Color",
                          message="_rgb is written outside the constructor's guarded parse: an invalid colour may carry an rgb, or a valid one lose it")
    handler_ok = False
    for t in own_nodes(parse.node):
        if isinstance(t, ast.ExceptHandler):
            sets_err = any(isinstance(x, ast.Attribute) and isinstance(x.ctx, ast.Store) and x.attr == "_error" for x in ast.walk(t))
            uses_exc = t.name is not None and any(isinstance(x, ast.Name) and x.id == t.name for b in t.body for x in ast.walk(b))
            handler_ok = handler_ok or (sets_err and uses_exc)
            leaves = [x for x in ast.walk(t) if isinstance(x, ast.Raise)]
            chk.check(not leaves, "E3", parse.short, norm_text(leaves[0]) if leaves else "except handler", project.loc(m, leaves[0] if leaves else t),
                      "the constructor's handler does not re-raise", how="no raise statement in the handler", message="the constructor's handler re-raises: invalid input raises instead of being recorded")
    chk.check(handler_ok, "E3", parse.short, "except ...: self._error = str(e)", project.loc(m, parse.node), "the handler records the exception text in _error", how="store to self._error using the bound exception",
              message="the handler does not record the error message: .error stays empty for invalid colours")

    # ---------------------------------------------------------------- V1: a *valid* colour is three ints in 0..255 (structural part)
    chk.rule("V1", "what the parser can return as a valid colour is range-checked: hex digits are validated before int(.., 16); tuple/string RGB paths return under is_valid_rgb")
    from sa.formula import extract_function, Unsupported
    from checks.C07 import hex_digits_validated
    hfi = project.func("cm_colors.core.conversions.hex_to_rgb")
    try:
        _ex, _env, hret = extract_function(project, hfi)
    except Unsupported as e:
        raise AnalysisError(f"ANALYSIS-INCONCLUSIVE {hfi.short}: {e}")
    chk.check(hex_digits_validated(hret), "V1", hfi.short, "hex digit validation", project.loc(hfi.module, hfi.node), "hex_to_rgb rejects anything but hex digits before int(.., 16), so a valid hex colour has components in 0..255",
              how="a failed all(c in <hex alphabet> ...) / regex full match raises before the conversion",
              message="hex digits are not validated before int(pair, 16): Color('#-f0000') becomes a *valid* colour with a negative component, and make_readable then raises instead of returning (None, False)")
    # hsl()/hsla(): S, L (and alpha) are range-checked before the conversion (otherwise channels leave 0..255)
    from sa.formula import compare, Policy, transform, reference
    from sa.formula import raise_guards, guards_cover
    GUARD_REF = "def g2(s, l):\n    return not (0 <= s <= 1 and 0 <= l <= 1)\n\ndef g3(s, l, a):\n    return not (0 <= s <= 1 and 0 <= l <= 1 and 0 <= a <= 1)\n"
    for q, names, entry in (("cm_colors.core.conversions.hsl_to_rgb", ("s", "l"), "g2"), ("cm_colors.core.conversions.hsla_to_rgb", ("s", "l", "a"), "g3")):
        gfi = project.func(q)
        try:
            gex, genv, gret = extract_function(project, gfi)
            memo = {id(genv[v]): (genv[v], ("var", v)) for v in names}
            gabs = transform(gret, lambda n: n, memo)
        except (Unsupported, KeyError) as e:
            raise AnalysisError(f"ANALYSIS-INCONCLUSIVE {gfi.short}: {e}")
        ref = reference(GUARD_REF, entry)
        guards = raise_guards(gabs)
        found = guards_cover(guards, ref)
        chk.check(found, "V1", gfi.short, f"range check of {', '.join(names)}", project.loc(gfi.module, gfi.node), f"{gfi.name} raises unless {' and '.join('0 <= ' + v + ' <= 1' for v in names)}",
                  how="one of the raise guards preceding the conversion is exactly that range test", message=f"{gfi.name} does not reject {'/'.join(names)} outside [0, 1] before converting: out-of-range input yields a 'valid' colour with components outside 0..255")
    pfi = project.func("cm_colors.core.color_parser.parse_color_to_rgb")
    pcfg = build_cfg(pfi.node)
    pG = guard_states(pcfg)
    from sa.wire import Origins
    porg = Origins(project, pfi, pcfg)
    n_direct = 0
    for node in pcfg.nodes:
        if node.kind == "return" and node.ast.value is not None:
            o = porg.of(node.id, node.ast.value)
            if o[0] == "tuple" or (o[0] == "call" and o[1] == "builtins.tuple"):
                n_direct += 1
                lits = common_literals(pG.get(node.id))
                ok = any((not v) and t.startswith("not is_valid_rgb(") for (t, v) in lits) or any(v and t.startswith("is_valid_rgb(") for (t, v) in lits)
                chk.check(ok, "V1", pfi.short, norm_text(node.ast), project.loc(pfi.module, node.ast), "a directly assembled RGB triple is returned only after is_valid_rgb accepted it", how=f"guards: {sorted(t for t, v in lits)[-2:]}",
                          message="an RGB triple assembled by the parser is returned without the is_valid_rgb range check")
    chk.floor("directly assembled triples returned by parse_color_to_rgb", n_direct, 2)

    # ---------------------------------------------------------------- N1
    n_deref = 0
    for mname in NG_MODULES:
        mod = project.module(mname)
        chk.saw_module(mod)
        for q, fi in sorted(mod.funcs.items()):
            if fi.cls == "Color" and fi.name in ("rgb", "is_valid", "__init__"):
                continue
            if fi.qualname in project.transparent:
                continue        # a private helper introduced after the pinned tree, inlined into (and judged with) each of its callers
            if fi.qualname in project.outside_surface:
                continue        # an API function added after the pinned tree that nothing of the pinned package calls: not among the entry points the property names
            sc = Scope(project, fi)
            cfg = None
            G = None
            for node_ast in own_nodes(fi.node):
                if not (isinstance(node_ast, ast.Attribute) and isinstance(node_ast.ctx, ast.Load) and node_ast.attr in ("rgb", "_rgb")):
                    continue
                base = node_ast.value
                if sc.class_of(base) != COLOR_CLS:
                    continue
                if cfg is None:
                    cfg = build_cfg(fi.node)
                    G = guard_states(cfg)
                    chk.saw_function(fi, cfg)
                cnode = None
                for n in cfg.nodes:
                    for e in node_exprs(n):
                        if any(x is node_ast for x in ast.walk(e)):
                            cnode = n
                if cnode is None:
                    continue
                n_deref += 1
                bt = norm_text(base)
                accept = {f"{bt}.is_valid", f"{bt}.rgb is not None", f"{bt}._rgb is not None"}
                if isinstance(base, ast.Attribute) and base.attr in ("text", "bg") and sc.class_of(base.value) == PAIR_CLS:
                    accept.add(f"{norm_text(base.value)}.is_valid")
                # a local that abbreviates an attribute chain (text = self.text): the guards of what it abbreviates count too
                from sa.resolve import local_aliases, unalias
                ub = unalias(base, local_aliases(fi.node))
                if norm_text(ub) != bt:
                    ubt = norm_text(ub)
                    accept |= {f"{ubt}.is_valid", f"{ubt}.rgb is not None", f"{ubt}._rgb is not None"}
                    if isinstance(ub, ast.Attribute) and ub.attr in ("text", "bg") and sc.class_of(ub.value) == PAIR_CLS:
                        accept.add(f"{norm_text(ub.value)}.is_valid")
                st = G.get(cnode.id)
                # the attribute may be tested in the same `and` chain: literal established before this cond node
                ok = implied(st, lambda alt: any((t, True) in alt for t in accept))
                # is the value merely compared with None / passed to `is not None`? then no guard is needed
                parents = [p for p in own_nodes(fi.node) if any(ch is node_ast for ch in ast.iter_child_nodes(p))]
                par = parents[0] if parents else None
                harmless = isinstance(par, ast.Compare) and isinstance(par.ops[0], (ast.Is, ast.IsNot)) or isinstance(par, ast.Return)
                if not harmless and isinstance(par, ast.Assign) and len(par.targets) == 1 and isinstance(par.targets[0], ast.Name) and par.value is node_ast:
                    # copied into a local: harmless if every use of that local sits under `<local> is not None` (or is itself a None test / a return)
                    v = par.targets[0].id
                    one_def = sum(1 for x in own_nodes(fi.node) if isinstance(x, ast.Name) and x.id == v and isinstance(x.ctx, ast.Store)) == 1
                    uses_ok = one_def
                    for u in own_nodes(fi.node):
                        if not (isinstance(u, ast.Name) and u.id == v and isinstance(u.ctx, ast.Load)) or not uses_ok:
                            continue
                        up = next((p for p in own_nodes(fi.node) if any(ch is u for ch in ast.iter_child_nodes(p))), None)
                        if isinstance(up, ast.Compare) and isinstance(up.ops[0], (ast.Is, ast.IsNot)) or isinstance(up, ast.Return):
                            continue
                        un = next((n for n in cfg.nodes for e in node_exprs(n) if any(x is u for x in ast.walk(e))), None)
                        ust = G.get(un.id) if un is not None else None
                        uses_ok = un is not None and implied(ust, lambda alt: (f"{v} is not None", True) in alt or (f"{v} is None", False) in alt or any((t, True) in alt for t in accept))
                    harmless = uses_ok
                chk.check(ok or harmless, "N1", fi.short, norm_text(par if par is not None else node_ast)[:120], project.loc(mod, node_ast),
                          f"{norm_text(node_ast)} is used only where {sorted(accept)[0]} (or its pair's is_valid) holds on every path",
                          how=f"guard literals common to all paths: {sorted(t for t, v in common_literals(st) if v)}",
                          message=f"{norm_text(node_ast)} may be None here (no dominating is_valid test): the call raises TypeError for an invalid colour instead of reporting it")
    chk.floor(".rgb/._rgb dereferences of Color objects in the API modules", n_deref, 12)

    # ---------------------------------------------------------------- N2
    for q, want in ((f"{PAIR_CLS}.is_readable", ("const", "Not Readable")), (f"{PAIR_CLS}.make_readable", ("tuple", (None, False)))):
        fi = project.func(q)
        cfg = build_cfg(fi.node)
        G = guard_states(cfg)
        chk.saw_function(fi, cfg)
        inv_returns = []
        for n in cfg.nodes:
            if n.kind != "return":
                continue
            lits = common_literals(G.get(n.id))
            v = n.ast.value
            alts = G.get(n.id) or frozenset()
            on_invalid = [a for a in alts if ("self.is_valid", False) in a]
            on_valid = [a for a in alts if ("self.is_valid", True) in a]
            if on_invalid and len(on_invalid) + len(on_valid) == len(alts):
                # reached for invalid pairs (possibly shared with a valid-pair path): what is returned must be the documented constant
                if want[0] == "const":
                    ok = isinstance(v, ast.Constant) and v.value == want[1]
                else:
                    ok = isinstance(v, ast.Tuple) and len(v.elts) == 2 and all(isinstance(e, ast.Constant) for e in v.elts) and tuple(e.value for e in v.elts) == want[1]
                inv_returns.append(n)
                chk.check(ok, "N2", fi.short, norm_text(n.ast), project.loc(fi.module, n.ast), f"on an invalid pair {fi.name} returns {want[1]!r}", how="return under `not self.is_valid` is the documented constant",
                          message=f"on an invalid pair {fi.name} returns {norm_text(v) if v is not None else None} instead of {want[1]!r}")
            else:
                ok = implied(G.get(n.id), lambda alt: ("self.is_valid", True) in alt)
                chk.check(ok, "N2", fi.short, norm_text(n.ast)[:100], project.loc(fi.module, n.ast), "every other return is reached only for a valid pair", how="self.is_valid known true on all paths",
                          message="a return is reachable for invalid pairs without the is_valid short-circuit")
        chk.check(len(inv_returns) >= 1, "N2", fi.short, f"if not self.is_valid: return {want[1]!r}", project.loc(fi.module, fi.node), f"{fi.name} has the invalid-pair short-circuit",
                  how=f"{len(inv_returns)} return(s) under `not self.is_valid`", message=f"{fi.name} has no `not self.is_valid` short-circuit: an invalid pair reaches the contrast code with rgb None")
        # nothing fallible before the short-circuit: the first cond node of the function is the is_valid test
        first_cond = next((n for n in cfg.nodes if n.kind == "cond"), None)
        early = first_cond is not None and norm_text(first_cond.ast) == "self.is_valid"
        before = [n for n in cfg.nodes if n.kind in ("stmt", "for_iter", "with") and first_cond is not None and n.id < first_cond.id and not (isinstance(n.ast, ast.Expr) and isinstance(n.ast.value, ast.Constant))]
        chk.check(early and not before, "N2", fi.short, norm_text(first_cond.ast) if first_cond is not None else "", project.loc(fi.module, first_cond.ast if first_cond is not None else fi.node),
                  "the validity test is the first thing the method does", how="first condition node tests self.is_valid; no statement precedes it",
                  message="work is done before the validity short-circuit")


_run_own = run


def run(project, chk):      # noqa: F811  (borrowed rules first: an established violation outlives a later inconclusive rule)
    from checks._borrow import borrow
    borrow(project, chk, "C12", {"B1"}, "E6", "'the bulk API reports that entry as invalid and carries on with the rest': one result per entry on every path, the entry loop is never left early (C12's path rule)")
    _run_own(project, chk)
