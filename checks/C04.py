"""C04 -- change is bounded: strict mode within dE 5.0, each search step within tolerance."""
from __future__ import annotations

import ast

from sa import contracts as C
from sa.loader import norm_text
from checks._gf_common import run_all, report, TRUSTED as _T

LEVEL = "proof"
_DE = "cm_colors.core.color_metrics.calculate_delta_e_2000"
TRUSTED = _T
EXPLANATION = (
    "Same guard-fact verification, for: (a) binary_search_lightness / gradient_descent_oklch return None or a colour v with "
    "dE(text, v) <= the tolerance they were given, v a valid 8-bit triple -- every recording site is dominated by the false edge of "
    "`dE > tolerance` on that very candidate; (b) generate_accessible_color returns its input or a colour within max(schedule) of it "
    "(the accumulator invariant `candidate is None or within max(schedule)`), with the default schedule's maximum evaluated from the "
    "literal; (c) mode 0 is within 5.0 of the original (strict passes no schedule; default maximum <= 5.0); (d) every colour the "
    "default/relaxed strategies return is the original or the output of such a bounded step applied to a colour of that chain, "
    "against the caller's background."
)


def run(project, chk):
    chk.rule("D1", "search routines: result is None, or within the given tolerance of the input text colour and a valid 8-bit triple")
    chk.rule("D2", "generate_accessible_color: result within max(schedule) of its input (default schedule: its literal maximum), never None")
    chk.rule("D3", "strict mode (mode 0): returned colour within CIEDE2000 5.0 of the original")
    chk.rule("D4", "default / relaxed: every returned colour is reached from the original by chaining bounded steps on the caller's background")
    chk.assumptions += ["calculate_delta_e_2000 is the CIEDE2000 distance (C11, structural)", "oklch_to_rgb_safe returns validated or clamped 8-bit triples on every path (C10)"]
    contracts, out = run_all(project)

    def rule_of(r):
        q = r.fi.qualname
        if q in (C.BSL, C.GD):
            return "D1"
        if q == C.GAC:
            return "D2"
        if r.atom[0] == "within":
            return "D3"
        return "D4"
    n = report(project, chk, "C04", rule_of, out)
    chk.floor("bounded-change obligations", n, 80)
    dmax = C.default_schedule_max(project)
    fi = project.func(C.GAC)
    mut = getattr(project, "schedule_mutation", None)
    if mut is not None:
        mfi, mnode, q = mut
        chk.fail("D3", mfi.short, norm_text(mnode), project.loc(mfi.module, mnode),
                 f"the default tolerance schedule is the module-level object {q}, and this statement mutates it in place: after it has run, strict mode searches with a longer schedule (its bound of 5.0 is no longer a constant of the program)")
    chk.check(dmax <= C.STRICT_CAP, "D3", fi.short, "delta_e_sequence = [...]", project.loc(fi.module, fi.node),
              f"the default schedule's largest tolerance ({dmax}) does not exceed the strict-mode cap {C.STRICT_CAP}", how="maximum of the list literal",
              message=f"the default schedule reaches {dmax} > {C.STRICT_CAP}: strict mode can move a colour further than 5.0")
    chk.extra["default_schedule_max"] = dmax


_run_own = run


def run(project, chk):      # noqa: F811  (borrowed rules first: an established violation outlives a later inconclusive rule)
    from checks._borrow import borrow
    borrow(project, chk, "C11", {"L1", "L2", "L3", "L4"}, "D7", "the yardstick of every tolerance, calculate_delta_e_2000, is CIEDE2000 (C11's closed form): a wrong term makes 'within dE 5.0' mean something else")
    # D8: a memo table in the yardstick's call closure is transparent only if its key is injective in what the value depends on
    from sa.memo import memo_findings
    chk.rule("D8", "calculate_delta_e_2000 and everything it calls: a value stored in module-level state is keyed by an injective function of all it was computed from (else the distance of one pair of colours is another pair's)")
    dfi = project.func(_DE)
    closure, finds = memo_findings(project, _DE)
    for verdict, fi, node, d, msg in finds:
        if verdict == "collision":
            chk.fail("D8", fi.short, norm_text(node), project.loc(fi.module, node), f"memo table {d}: {msg}: two different colours share an entry, so a tolerance test can be answered with another colour's distance")
        elif verdict == "ok":
            chk.ok("D8", f"{project.loc(fi.module, node)} {fi.short}", f"memo table {d}: {msg}", "key expanded to the parameters; tuple / mixed-radix injectivity")
        else:
            chk.not_decided.append(f"D8: {project.loc(fi.module, node)} {fi.short}: memo table {d}: {msg}")
    if not finds:
        chk.ok("D8", f"{project.loc(dfi.module, dfi.node)} {dfi.short}", f"the {len(closure)} functions in the distance routine's call closure store nothing in module-level state", "effect summaries closed over the call graph")
    _run_own(project, chk)
