"""C01 -- make_readable's success flag is exactly the WCAG verdict on the returned colour."""
from __future__ import annotations

from sa import contracts as C
from sa.gf import show
from sa.loader import AnalysisError
from checks._gf_common import run_all, report, TRUSTED as _T

LEVEL = "other"
TRUSTED = _T
EXPLANATION = (
    "Modular deductive verification by guard-fact dataflow (sa/gf.py): for every return statement of the three strategies, "
    "check_and_fix_contrast (4 premium/large configurations x 3 mode classes) and ColorPair.make_readable (4 configurations), on all "
    "CFG paths at once, the returned flag s and colour c satisfy  s truthy => contrast(c, bg) >= MIN  and  s falsy => contrast(c, bg) < MIN, "
    "with MIN taken from the property's own WCAG table (4.5 / 3.0 / 7.0 / 4.5), not from the code. Facts come only from branch edges, "
    "definitions and callee contracts; loop invariants are the candidate facts that survive the back edge. A flipped comparison, a "
    "wrong table entry, a `True` on an unguarded branch or a colour reassigned after being judged leaves an obligation undischarged "
    "whatever input would be needed to expose it."
)


def run(project, chk):
    chk.rule("V1", "at every return (c, s): s truthy => contrast(c, bg) >= MIN[very_readable, large] and s falsy => MIN > contrast(c, bg), and s is a boolean; MIN from the WCAG table of the property")
    chk.rule("V2", "the minimum/target the code passes to the strategies equals the WCAG table for all four (premium, large) configurations")
    chk.assumptions += ["calculate_contrast_ratio is the WCAG contrast ratio (decided structurally under C05)",
                        "the formatted result denotes the RGB that was judged: rgbint_to_string / Color(.).rgb / format_color are colour-preserving (structural part under C06; numeric read-back equality not decided)",
                        "A1: no NaN contrast; oklch_to_rgb_safe returns a valid 8-bit triple (C10)"]
    chk.not_decided += ["that the hsl()/rgb() text a CSS consumer reads back is numerically the judged colour (C06's numeric clause)"]
    chk.rule("V3", "the contrast the verdicts are taken on is the WCAG 2 ratio: calculate_contrast_ratio / luminance / linearisation are the published formulas (the audit of C05, here as a discharged assumption)")
    chk.rule("V4", "the returned text denotes the judged RGB: hex pairs / rgb() ints in order after validation, hsl() fields at full precision inside the reader's range (the emitted-field rules of C06)")
    from checks.C05 import ratio_is_wcag
    from checks.C06 import emitted_fields, format_dispatch
    format_dispatch(project, chk, "V4")
    ratio_is_wcag(project, chk, "V3", "V3", "V3")
    emitted_fields(project, chk, "V4", "V4")
    contracts, out = run_all(project)
    n = report(project, chk, "C01", lambda r: "V1", out)
    chk.floor("verdict obligations (flag <=> contrast >= minimum)", n, 100)
    # V2: extract what the dispatcher passes (evidence + explicit table comparison)
    res, ans = out[C.CAF]
    fi = project.func(C.CAF)
    table = {}
    from sa.verify import cases_for
    for an, case in zip(ans, cases_for(C.CAF)):
        label = case[0]
        for nid, terms in an.call_terms.items():
            for t in terms:
                if t[1] in (C.STRICT, C.RECURSIVE, C.RELAXED) and nid in an.IN:
                    prem = "premium=True" in label
                    large = "large=True" in label
                    table.setdefault((prem, large), set()).add((show(t[2][3]), show(t[2][4])))
    chk.extra["min_target_table_extracted"] = {f"premium={k[0]},large={k[1]}": sorted(v) for k, v in sorted(table.items())}
    for (prem, large), want in sorted(C.WCAG_MIN.items()):
        got = table.get((prem, large), set())
        mins = {m for (_, m) in got}
        ok = mins == {repr(want)}
        chk.check(ok, "V2", fi.short, f"min_contrast for premium={prem}, large={large}", project.loc(fi.module, fi.node),
                  f"minimum passed to the strategies for premium={prem}, large={large} is {want}", how=f"constant-propagated argument(s): {sorted(got)}",
                  message=f"minimum for premium={prem}, large={large} is {sorted(mins)} but WCAG requires {want}")
