"""C06 -- output keeps the input's format and reads back as the judged colour (structural clauses)."""
from __future__ import annotations

import ast

from sa.cfg import build_cfg, node_exprs
from sa.formula import Policy, Unsupported, extract_function, show, transform, RAISE
from sa.guards import guard_states, common_literals
from sa.intervals import interval, within
from sa.loader import AnalysisError, norm_text
from sa.resolve import Scope, own_nodes
from sa.wire import Origins, show as oshow
from checks._fs_common import audit
from checks.C07 import final_value

LEVEL = "other"
EXPLANATION = (
    "Constant-table, wiring and interval rules: (O1) detect_color_format's if-chain is the documented classification and format_color, "
    "partially evaluated for every label that detection can produce, returns the documented counterpart (hex -> rgb_to_hex, rgb -> "
    "rgbint_to_string, hsl -> rgb_to_hsl, rgb_tuple -> the tuple, everything else -> hex); (O2) make_readable re-formats the optimiser's "
    "colour with the *text* colour's own format, unconditionally w.r.t. success, and _format is written only from "
    "detect_color_format(self.original); (O3) what the formatters emit is inside the range the library's reader accepts: hex pairs "
    "{:02x} of validated ints in order, rgb() of validated ints in order, hsl() with S*100 and L*100 provably in [0, 100] by interval "
    "analysis under the function's own validation guards (the hue is wrapped by the reader, so any finite value is accepted). Equality "
    "of the read-back colour on all 2^24 colours is numeric and not decided."
)
TRUSTED = ["stdlib ast", "the reader's acceptance ranges (hsl_to_rgb: S, L in [0, 1] after /100; hue any finite number) are those checked under C07/C14"]

PAR = "cm_colors.core.color_parser"
CONV = "cm_colors.core.conversions"
COLORS = "cm_colors.core.colors"

REF = '''
def detect(color):
    if isinstance(color, str):
        s = color.strip().lower()
        if s in CSS_NAMED_COLORS:
            return "named"
        if s.startswith("#"):
            return "hex"
        if s.startswith("rgb("):
            return "rgb"
        if s.startswith("rgba("):
            return "rgba"
        if s.startswith("hsl("):
            return "hsl"
        if s.startswith("hsla("):
            return "hsla"
        if re.fullmatch(r"[0-9a-f]{3}|[0-9a-f]{6}", s):
            return "hex"
        if "," in s or " " in s:
            return "rgb"
    elif isinstance(color, (tuple, list)):
        if len(color) == 3:
            return "rgb_tuple"
        if len(color) == 4:
            return "rgba_tuple"
    return "unknown"
'''

REF_HSL = '''
def hsl_of(r, g, b):
    mx = max(r, g, b)
    mn = min(r, g, b)
    diff = mx - mn
    l = (mx + mn) / 2
    if diff == 0:
        h = 0
        s = 0
    else:
        s = max(0.0, min(1.0, diff / (1 - abs(2 * l - 1))))
        if mx == r:
            h = (g - b) / diff % 6
        elif mx == g:
            h = (b - r) / diff + 2
        else:
            h = (r - g) / diff + 4
        h *= 60
    return (h, s * 100, l * 100)

def hsl_of_min_only(r, g, b):
    mx = max(r, g, b)
    mn = min(r, g, b)
    diff = mx - mn
    l = (mx + mn) / 2
    if diff == 0:
        h = 0
        s = 0
    else:
        s = min(1.0, diff / (1 - abs(2 * l - 1)))
        if mx == r:
            h = (g - b) / diff % 6
        elif mx == g:
            h = (b - r) / diff + 2
        else:
            h = (r - g) / diff + 4
        h *= 60
    return (h, s * 100, l * 100)
'''

EXPECTED = {"hex": f"{CONV}.rgb_to_hex", "rgb": f"{CONV}.rgbint_to_string", "hsl": f"{CONV}.rgb_to_hsl", "rgb_tuple": None,
            "named": f"{CONV}.rgb_to_hex", "rgba": f"{CONV}.rgb_to_hex", "hsla": f"{CONV}.rgb_to_hex", "rgba_tuple": f"{CONV}.rgb_to_hex", "unknown": f"{CONV}.rgb_to_hex"}


def run(project, chk):
    chk.rule("O1", "detect_color_format classifies as documented; for every label it can return, format_color returns the documented counterpart")
    chk.rule("O2", "make_readable's result is format_color(Color(tuned).rgb, self.text._format) paired with the optimiser's flag, not conditional on success; _format only comes from detect_color_format(self.original)")
    chk.rule("O3", "emitted fields are inside the reader's range: hex {:02x} x3 of validated 0..255 ints in R,G,B order; rgb() of validated ints in order; hsl() with S*100, L*100 in [0, 100]")
    chk.not_decided += ["read-back equality of the formatted colour for all 2^24 colours and 4 formats (float rounding in rgb_to_hsl / hsl_to_rgb)",
                        "what a CSS-conformant third-party parser does with long float reprs (lexical)"]

    # ---------------------------------------------------------------- O1
    call_map = {"CSS_NAMED_COLORS": None}
    fi = project.func(f"{PAR}.detect_color_format")
    chk.saw_function(fi)
    try:
        ex, env, ret = extract_function(project, fi)
    except Unsupported as e:
        raise AnalysisError(f"ANALYSIS-INCONCLUSIVE {fi.short}: {e}")
    # normalise the module-level table name on both sides
    code = transform(ret, lambda n: ("var", "CSS_NAMED_COLORS") if n[0] in ("var", "attr") and show(n).endswith("CSS_NAMED_COLORS") else n)
    code = transform(code, lambda n: ("call", "re.fullmatch", n[2]) if n[0] == "call" and str(n[1]).endswith("re.fullmatch") else n)
    audit(project, chk, "O1", f"{PAR}.detect_color_format", REF.replace("re.fullmatch", "re_fullmatch"), "detect", Policy(), "input format detection", inline=False,
          code_expr=transform(code, lambda n: ("call", "ref.re_fullmatch", n[2]) if n[0] == "call" and n[1] == "re.fullmatch" else n))
    labels = set()
    transform(ret, lambda n: (labels.add(n[1]) or n) if n[0] == "str" and n[1] in EXPECTED else n)
    if not chk.findings:
        chk.floor("format labels returned by detect_color_format", len(labels), 9)
    format_dispatch(project, chk, "O1", labels)

    # ---------------------------------------------------------------- O2
    fi = project.func(f"{COLORS}.ColorPair.make_readable")
    cfg = build_cfg(fi.node)
    chk.saw_function(fi, cfg)
    org = Origins(project, fi, cfg)
    G = guard_states(cfg)
    CAF = "cm_colors.core.optimisation.check_and_fix_contrast"
    rets = [n for n in cfg.nodes if n.kind == "return" and not (isinstance(n.ast.value, ast.Tuple) and all(isinstance(e, ast.Constant) for e in n.ast.value.elts))]
    chk.floor("non-constant returns in make_readable", len(rets), 1)
    fmt_want = ("attr", ("attr", ("param", "self"), "text"), "_format")
    for node in rets:
        o = org.of(node.id, node.ast.value)
        # the colour component of what is returned, as a set of alternatives
        def flat(x):
            if x[0] == "phi":
                return [y for z in x[1] for y in flat(z)]
            if x[0] == "ifexp":
                return flat(x[2]) + flat(x[3])
            return [x]
        colours = []
        for a0 in flat(o):
            if a0[0] == "tuple" and len(a0[1]) == 2:
                colours += flat(a0[1][0])
            else:
                colours.append(("item", a0, 0))
        colours = list(dict.fromkeys(colours))
        detail = oshow(o)[:200]

        def is_formatted(c):
            if not (c[0] == "call" and c[1] == f"{PAR}.format_color"):
                return False, False
            args = list(c[2]) + [v for _, v in c[3]]
            if len(args) != 2:
                return True, False
            col = args[0]
            col_ok = col[0] == "attr" and col[2] in ("rgb", "_rgb") and col[1][0] == "call" and col[1][1] == f"{COLORS}.Color" and bool(col[1][2]) and \
                col[1][2][0][0] == "item" and col[1][2][0][2] == 0 and col[1][2][0][1][0] == "call" and col[1][2][0][1][1] == CAF
            return True, (col_ok and args[1] == fmt_want)

        fm = [c for c in colours if is_formatted(c)[0]]
        chk.check(bool(fm), "O2", fi.short, norm_text(node.ast), project.loc(fi.module, node.ast), "some path re-formats the optimiser's colour with format_color", how=detail,
                  message=f"no path re-formats the optimiser's result with format_color: {detail}")
        for c in fm:
            chk.check(is_formatted(c)[1], "O2", fi.short, norm_text(node.ast), project.loc(fi.module, node.ast), "the colour returned is format_color(Color(<optimiser's colour>).rgb, self.text._format): rendered in the text colour's own detected format",
                      how=oshow(c)[:160], message=f"the returned colour is {oshow(c)[:160]}: not the optimiser's colour rendered with self.text._format")
        for c in colours:
            if c in fm:
                continue
            okraw = c[0] == "item" and c[2] == 0 and c[1][0] == "call" and c[1][1] == CAF
            chk.check(okraw, "O2", fi.short, norm_text(node.ast), project.loc(fi.module, node.ast), "the only other colour that can be returned is the optimiser's own rgb() string (when it cannot be re-parsed)", how=oshow(c)[:100],
                      message=f"make_readable can return the colour {oshow(c)[:120]}, which is neither the re-formatted nor the optimiser's own value")
    # the re-formatting assignment must not depend on success
    n_fmt = 0
    sc = Scope(project, fi)
    for node in cfg.nodes:
        for e in node_exprs(node):
            for c in ast.walk(e):
                if isinstance(c, ast.Call) and sc.resolve_call(c) == f"{PAR}.format_color":
                    n_fmt += 1
                    lits = common_literals(G.get(node.id))
                    dep = [t for (t, v) in lits if "success" in t.replace("(", " ").replace(")", " ").split()]
                    chk.check(not dep, "O2", fi.short, norm_text(c), project.loc(fi.module, c), "re-formatting happens whether or not the fix succeeded", how=f"guards: {sorted(t for t, v in lits)}",
                              message=f"re-formatting is conditional on {dep}: failed fixes come back in another format")
    chk.floor("format_color calls in make_readable", n_fmt, 1)
    # _format stores
    m = project.module(COLORS)
    for q, f2 in sorted(m.funcs.items()):
        for n in own_nodes(f2.node):
            if isinstance(n, ast.Attribute) and isinstance(n.ctx, ast.Store) and n.attr == "_format":
                par = next((p for p in own_nodes(f2.node) if isinstance(p, ast.Assign) and n in p.targets), None)
                val = par.value if par is not None else None
                vo = Origins(project, f2).at(val) if val is not None else None
                ok = (isinstance(val, ast.Constant) and q == "Color.__init__") or (q == "Color._parse" and vo is not None and vo[0] == "call" and vo[1] == f"{PAR}.detect_color_format" and vo[2][:1] == (("attr", ("param", "self"), "original"),))
                chk.check(ok, "O2", f2.short, norm_text(par if par is not None else n), project.loc(m, n), "_format is the detected format of the constructor's input (or the initial placeholder)", how="store census of _format",
                          message="_format is written from something other than detect_color_format(self.original)")

    emitted_fields(project, chk)
    chk.rule("O5", "the library's own reader of hsl() fields is CSS's: a percentage is divided by 100 whatever its size (0.4% is 0.004), a bare number only in [0, 1], and the HSL -> RGB core rounds each channel to the nearest 8-bit value (C07's N5, here as the discharged assumption of 'reads back')")
    from checks.C07 import hsl_fields_read_as_css, hsl_core_is_css
    hsl_fields_read_as_css(project, chk, "O5")
    hsl_core_is_css(project, chk, "O5")


def format_dispatch(project, chk, rule="O1", labels=()):
    """format_color hands every format label to its emitter (and nothing in between re-writes the emitted text)."""
    fi = project.func(f"{PAR}.format_color")
    chk.saw_function(fi)
    try:
        ex, env, ret = extract_function(project, fi)
    except Unsupported as e:
        raise AnalysisError(f"ANALYSIS-INCONCLUSIVE {fi.short}: {e}")
    loc = project.loc(fi.module, fi.node)
    for lab in sorted(set(labels) | set(EXPECTED)):
        r = transform(ret, lambda n, lab=lab: ("str", lab) if n == ("var", "format_type") else n)
        want = EXPECTED.get(lab, f"{CONV}.rgb_to_hex")
        if want is None:
            ok = r == ("var", "rgb")
        else:
            ok = r[0] == "call" and r[1] == want and r[2] == (("var", "rgb"),)
        chk.check(ok, rule, fi.short, f"format_type == {lab!r}", loc, f"format {lab!r} -> {(want or 'the tuple itself').rsplit('.', 1)[-1]}", how=f"partial evaluation gives {show(r)[:60]}",
                  message=f"format {lab!r} is rendered by {show(r)[:80]} instead of {(want or 'returning the tuple').rsplit('.', 1)[-1]}")



def emitted_fields(project, chk, R3="O3", R4="O4"):
    """Rules about what the formatters emit (shared with C01: 'as a CSS consumer reads it back')."""
    # ---------------------------------------------------------------- O3
    # hsl()
    fi = project.func(f"{CONV}.rgb_to_hsl")
    chk.saw_function(fi)
    # a field printed in a format that has no guaranteed decimal point and then stripped of trailing '0's loses significant digits
    import ast as _ast
    from sa.effects import Effects as _Eff
    _eff = _Eff(project)
    nstrip = 0
    for q in sorted(_eff.reach(fi.qualname) | {fi.qualname}):
        f2 = project.funcs.get(q)
        if f2 is None:
            continue
        for c in _ast.walk(f2.node):
            if not (isinstance(c, _ast.Call) and isinstance(c.func, _ast.Attribute) and c.func.attr in ("rstrip", "strip") and len(c.args) == 1
                    and isinstance(c.args[0], _ast.Constant) and isinstance(c.args[0].value, str) and "0" in c.args[0].value):
                continue
            base = c.func.value
            while isinstance(base, _ast.Call) and isinstance(base.func, _ast.Attribute) and base.func.attr in ("rstrip", "strip", "lstrip"):
                base = base.func.value
            spec = None
            if isinstance(base, _ast.JoinedStr) and len(base.values) == 1 and isinstance(base.values[0], _ast.FormattedValue):
                fs = base.values[0].format_spec
                spec = "".join(v.value for v in fs.values if isinstance(v, _ast.Constant)) if fs is not None and all(isinstance(v, _ast.Constant) for v in fs.values) else None
            elif isinstance(base, _ast.Call) and isinstance(base.func, _ast.Name) and base.func.id == "format" and len(base.args) == 2 and isinstance(base.args[1], _ast.Constant):
                spec = str(base.args[1].value)
            if spec is None:
                continue
            nstrip += 1
            pointless = spec[-1:] in ("g", "G", "e", "E", "d", "n") and "#" not in spec
            chk.check(not pointless, R3, f2.short, norm_text(c), project.loc(f2.module, c), "a number stripped of trailing zeros was printed in a fixed-point format (always has a decimal point)",
                      how=f"format spec {spec!r}", message=f"a field printed with format spec {spec!r} (no decimal point for integral values, or an exponent) is stripped of trailing '0's: 120 is emitted as 12, so the hsl() text denotes another colour than the one judged")
    try:
        ex, env, ret = extract_function(project, fi)
    except Unsupported as e:
        raise AnalysisError(f"ANALYSIS-INCONCLUSIVE {fi.short}: {e}")
    loc = project.loc(fi.module, fi.node)
    out = final_value(ret)
    if out[0] != "fstr":
        raise AnalysisError(f"ANALYSIS-INCONCLUSIVE {fi.short}: the result is not an f-string ({show(out)[:60]})")
    texts = [p[1] for p in out[1] if p[0] == "str"]
    holes = [p[1] for p in out[1] if p[0] == "fmt"]
    tmpl = "{}".join(texts) if len(texts) == len(holes) + 1 else None
    chk.check(tmpl == "hsl({}, {}%, {}%)" and len(holes) == 3, R3, fi.short, f"template {tmpl!r}", loc, "the emitted text is hsl(<h>, <s>%, <l>%)", how=f"constant parts {texts}",
              message=f"the emitted hsl() template is {tmpl!r}")
    specs = [p[2] for p in out[1] if p[0] == "fmt"]
    lossy = [sp for sp in specs if sp not in ("", "r")]
    chk.check(not lossy, R3, fi.short, f"format specs {specs}", loc, "the hsl() fields are emitted with full float precision (repr round-trips exactly)", how="no precision-limiting format spec on h, s, l",
              message=f"the hsl() fields are emitted with format spec(s) {lossy}: the text no longer denotes the judged colour exactly (a CSS consumer reads back a neighbouring colour, which can sit on the other side of a contrast threshold)")
    cons = getattr(ex, "constraints", [])
    if len(holes) == 3:
        for name, e, lo, hi in (("saturation", holes[1], 0, 100), ("lightness", holes[2], 0, 100)):
            try:
                iv = interval(e, {}, cons)
            except Exception as ex2:
                raise AnalysisError(f"ANALYSIS-INCONCLUSIVE {fi.short}: interval of {name} unreadable ({ex2})")
            chk.check(within(iv, lo, hi), R3, fi.short, f"{name} field", loc, f"the emitted {name} percentage lies in [{lo}, {hi}] (the reader rejects anything beyond)",
                      how=f"interval {iv} under the function's own validation guards", message=f"the emitted {name} percentage has interval {iv}: values above 100% (float rounding of an unclamped quotient) are rejected by the library's own hsl parser")
        # s and l are emitted scaled by 100 exactly
        for name, e, var in (("saturation", holes[1], "s"), ("lightness", holes[2], "l")):
            base = env.get(var)
            ok = base is not None and (e == ("op", "*", (("num", 100), base)) or e == ("op", "*", (("num", 100.0), base)))
            chk.check(ok, R3, fi.short, f"{name} scaling", loc, f"{name} is emitted as {var} * 100", how=show(e)[:60] if not ok else "field == 100 * " + var, message=f"{name} is emitted as {show(e)[:80]}, not {var} * 100")
    # the RGB -> HSL conversion itself (the achromatic test is exact equality of max and min; sector formulas; clamped saturation)
    chk.rule(R4, "rgb_to_hsl computes the standard RGB -> HSL conversion (exact achromatic test, sector formulas, x60, saturation clamped to [0,1])")
    if len(holes) == 3 and all(v in env for v in ("r", "g", "b")):
        from sa.formula import transform as _tr
        memo = {id(env[v]): (env[v], ("var", v)) for v in ("r", "g", "b")}
        core = _tr(("tuple", (holes[0], holes[1], holes[2])), lambda n: n, memo)
        audit(project, chk, R4, f"{CONV}.rgb_to_hsl", REF_HSL, "hsl_of", Policy(), "RGB -> HSL (normalised channels)", code_expr=core, inline=False, alternatives=["hsl_of_min_only"])
    # rgb()
    fi = project.func(f"{CONV}.rgbint_to_string")
    chk.saw_function(fi)
    ex, env, ret = extract_function(project, fi)
    out = final_value(ret)
    guard_ok = ret[0] == "ite" and ret[3] == out or ret[0] == "ite" and ret[2] == out
    ok = out[0] == "fstr" and [p[1] for p in out[1] if p[0] == "str"] == ["rgb(", ", ", ", ", ")"] and [p[1] for p in out[1] if p[0] == "fmt"] == [("index", ("var", "rgb"), ("num", k)) for k in range(3)]
    chk.check(ok and guard_ok and "is_valid_rgb" in show(ret), R3, fi.short, show(out)[:80], project.loc(fi.module, fi.node), "rgb(r, g, b) of the three components in order, after the range check", how="template and operand order; validation precedes",
              message=f"rgbint_to_string does not emit rgb(rgb[0], rgb[1], rgb[2]) after validating: {show(ret)[:120]}")
    # hex
    fi = project.func(f"{CONV}.rgb_to_hex")
    chk.saw_function(fi)
    ex, env, ret = extract_function(project, fi)
    out = final_value(ret)
    from sa.formula import term as _term, specialise as _spec

    def tuple_input(n):
        # the tuple-input case: isinstance(rgb, str) is False, isinstance(rgb, tuple) and len(rgb) == 3 are True
        if n[0] == "call" and n[1] == "isinstance" and n[2][0] == ("var", "rgb") and n[2][1][0] == "op":
            return ("lit", "tuple" in {x[1] for x in n[2][1][2] if x[0] == "var"})
        if n == _term("len(rgb) == 3"):
            return ("lit", True)
        return n
    out = final_value(_spec(ret, tuple_input))
    want = _term("f'#{rgb[0]:02x}{rgb[1]:02x}{rgb[2]:02x}'")
    chk.check(out == want, R3, fi.short, show(out)[:80], project.loc(fi.module, fi.node), "'#{:02x}{:02x}{:02x}'.format(r, g, b) in R, G, B order", how="template and operand order (tuple input, partially evaluated)",
              message=f"rgb_to_hex does not emit #rrggbb from (r, g, b) in order: {show(out)[:120]}")
    from sa.formula import compare, reference, transform as _tr2
    from sa.formula import raise_guards, guards_cover
    HEXG = "def g(r, g_, b):\n    return not all(isinstance(x, int) and 0 <= x <= 255 for x in (r, g_, b))\n"
    ranged = False
    if all(v in env for v in ("r", "g", "b")):
        memo = {id(env["r"]): (env["r"], ("var", "r")), id(env["g"]): (env["g"], ("var", "g_")), id(env["b"]): (env["b"], ("var", "b"))}
        absd = _tr2(ret, lambda n: n, memo)
        refg = reference(HEXG, "g")
        ranged = guards_cover(raise_guards(absd), refg)
    chk.check(ranged, R3, fi.short, "validation", project.loc(fi.module, fi.node), "hex digits are produced only for ints in 0..255", how="a raise guard `not all(isinstance(x, int) and 0 <= x <= 255 for x in (r, g, b))` precedes the formatting",
              message="rgb_to_hex does not reject components that are not ints in 0..255 before formatting them as two hex digits each")
