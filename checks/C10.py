"""C10 -- OKLCH conversion matches the OKLab definition."""
from __future__ import annotations

import ast

from sa.cfg import build_cfg, node_exprs
from sa.formula import Policy, extract_function, Extractor, Unsupported, show, Dag, inline_calls, project_resolver
from sa.guards import guard_states, common_literals
from sa.intervals import interval, within
from sa.loader import AnalysisError, norm_text
from sa.resolve import Scope, own_nodes
from sa.wire import Origins
from checks._fs_common import audit

LEVEL = "other"
EXPLANATION = (
    "Formula-shape and constant audit of rgb_to_oklch / oklch_to_rgb / linear_to_srgb against Ottosson's OKLab definition (both 3x3 "
    "matrices and both inverses, cube root with sign handling, polar conversion with pi/180, atan2 hue with +360 on negatives, the sRGB "
    "transfer functions, the clamps L in [0,1] and channel in [0,255] after rounding); constant arithmetic on the literals found in the "
    "code showing the forward and inverse matrices are mutually inverse; interval analysis of the fallback values of the 'safe' wrappers; "
    "and a path rule that every return of a safe wrapper is the validated plain result or the clamped grey fallback. Losslessness of the "
    "2^24 round trip is numeric and not decided."
)
TRUSTED = ["stdlib ast", "reference formulas in checks/C10.py transcribe Bjorn Ottosson's OKLab (2020, matrices as updated 2021-01-25) and IEC 61966-2-1"]

REF = '''
def lin(c):
    if c <= 0.04045:
        return c / 12.92
    else:
        return ((c + 0.055) / 1.055) ** 2.4

def gamma(c):
    if c <= 0.0031308:
        return 12.92 * c
    else:
        return 1.055 * c ** (1.0 / 2.4) - 0.055

def cbrt(x):
    if x >= 0:
        return x ** (1 / 3)
    else:
        return -((-x) ** (1 / 3))

def valid_oklch(oklch):
    if not (0 <= oklch[0] <= 1):
        return False
    if oklch[1] < 0:
        return False
    if not (0 <= oklch[2] <= 360):
        return False
    return True

def valid_rgb(rgb):
    return all(0 <= value <= 255 for value in rgb)

def cube(x):
    if x >= 0:
        return x * x * x
    else:
        return -((-x) * (-x) * (-x))

def hue(a, b):
    if a == 0 and b == 0:
        return 0
    h = math.atan2(b, a) * 180 / math.pi
    return h + 360 if h < 0 else h

def forward(rgb):
    r = lin(rgb[0] / 255)
    g = lin(rgb[1] / 255)
    b = lin(rgb[2] / 255)
    l = cbrt(0.4122214708 * r + 0.5363325363 * g + 0.0514459929 * b)
    m = cbrt(0.2119034982 * r + 0.6806995451 * g + 0.1073969566 * b)
    s = cbrt(0.0883024619 * r + 0.2817188376 * g + 0.6299787005 * b)
    L = 0.2104542553 * l + 0.7936177850 * m - 0.0040720468 * s
    A = 1.9779984951 * l - 2.4285922050 * m + 0.4505937099 * s
    B = 0.0259040371 * l + 0.7827717662 * m - 0.8086757660 * s
    C = math.sqrt(A * A + B * B)
    if C < 1e-10:
        H = 0.0
    else:
        H = hue(A, B)
    return (max(0.0, min(1.0, L)), C, H)

def inverse(oklch):
    L = oklch[0]
    C = oklch[1]
    H = oklch[2]
    a = C * math.cos(H * math.pi / 180.0)
    b = C * math.sin(H * math.pi / 180.0)
    l = cube(L + 0.3963377774 * a + 0.2158037573 * b)
    m = cube(L - 0.1055613458 * a - 0.0638541728 * b)
    s = cube(L - 0.0894841775 * a - 1.2914855480 * b)
    r = gamma(max(0.0, min(1.0, 4.0767416621 * l - 3.3077115913 * m + 0.2309699292 * s)))
    g = gamma(max(0.0, min(1.0, -1.2684380046 * l + 2.6097574011 * m - 0.3413193965 * s)))
    bb = gamma(max(0.0, min(1.0, -0.0041960863 * l - 0.7034186147 * m + 1.7076147010 * s)))
    return (max(0, min(255, round(r * 255))), max(0, min(255, round(g * 255))), max(0, min(255, round(bb * 255))))
'''

V = "cm_colors.core.conversions"


def pol(**kw):
    return Policy(rel=1e-6, classes={0.04045: (10 / 255, 11 / 255, True, False)}, alternates={1e-10: [1e-12, 1e-9, 1e-8, 1e-6]}, **kw)


def matmul(a, b):
    return [[sum(a[i][k] * b[k][j] for k in range(3)) for j in range(3)] for i in range(3)]


def coeffs(expr, basis):
    """Coefficients of a linear form op+(c1*x1, c2*x2, c3*x3) over the given basis expressions."""
    out = [0.0, 0.0, 0.0]
    terms = list(expr[2]) if expr[0] == "op" and expr[1] == "+" else [expr]
    for t in terms:
        sign = 1.0
        if t[0] == "neg":
            sign, t = -1.0, t[1]
        c, x = 1.0, t
        if t[0] == "op" and t[1] == "*":
            nums = [y for y in t[2] if y[0] == "num"]
            rest = [y for y in t[2] if y[0] != "num"]
            for y in nums:
                c *= float(y[1])
            x = rest[0] if len(rest) == 1 else ("op", "*", tuple(rest))
        if x not in basis:
            raise Unsupported(f"term {show(x)[:40]} is not one of the basis expressions")
        out[basis.index(x)] += sign * c
    return out


def linear_stages(t):
    """The 3x3 linear stages of a closed form, found by shape: sums of three (coefficient x atom) terms over a common
    set of atoms. Returns [stage1 rows, stage2 rows]: stage 2's atoms contain stage 1's rows; its columns follow their order."""
    forms = []
    seen = set()

    def parse(n):
        if not (n[0] == "op" and n[1] == "+" and len(n[2]) == 3):
            return None
        row = []
        for x in n[2]:
            sign = 1.0
            if x[0] == "neg":
                sign, x = -1.0, x[1]
            c, atom = 1.0, x
            if x[0] == "op" and x[1] == "*":
                nums = [y for y in x[2] if y[0] == "num"]
                rest = [y for y in x[2] if y[0] != "num"]
                if not rest:
                    return None
                for y in nums:
                    c *= float(y[1])
                atom = rest[0] if len(rest) == 1 else ("op", "*", tuple(rest))
            elif x[0] == "num":
                return None
            row.append((atom, sign * c))
        return row

    def walk(n):
        if not isinstance(n, tuple) or id(n) in seen:
            return
        seen.add(id(n))
        if n and isinstance(n[0], str):
            r = parse(n)
            if r is not None and not any(f[0] == n for f in forms):
                forms.append((n, r))
        for x in n:
            if isinstance(x, tuple):
                walk(x)
    walk(t)

    def inside(big, small):
        st = [big]
        mem = set()
        while st:
            x = st.pop()
            if not isinstance(x, tuple) or id(x) in mem:
                continue
            mem.add(id(x))
            if x is small or (x and x[0] == small[0] and x == small):
                return True
            st.extend(y for y in x if isinstance(y, tuple))
        return False
    stage1 = [f for f in forms if not any(inside(a, g[0]) for a, _ in f[1] for g in forms if g is not f)]
    stage2 = [f for f in forms if f not in stage1]
    if len(stage1) != 3 or len(stage2) != 3:
        raise Unsupported(f"expected two 3x3 linear stages, found {len(stage1)} + {len(stage2)} linear forms")
    basis1 = [a for a, _ in stage1[0][1]]
    M_a = [[dict((repr(a), c) for a, c in f[1]).get(repr(b), None) for b in basis1] for f in stage1]
    # stage 2's column j is the atom that contains stage 1's row j
    M_b = []
    for f in stage2:
        row = []
        for g in stage1:
            hit = [c for a, c in f[1] if inside(a, g[0])]
            row.append(hit[0] if len(hit) == 1 else None)
        M_b.append(row)
    if any(v is None for r in M_a + M_b for v in r):
        raise Unsupported("the linear forms do not share one basis")
    return M_a, M_b


def run(project, chk):
    chk.rule("K1", "rgb_to_oklch: sRGB -> linear -> LMS (matrix M1) -> cube root (sign-preserving) -> OKLab (matrix M2) -> chroma sqrt(a^2+b^2), hue atan2 in degrees [0,360), L clamped to [0,1]")
    chk.rule("K2", "oklch_to_rgb: polar -> OKLab (H*pi/180, cos/sin) -> LMS' (M2^-1) -> cube -> linear sRGB (M1^-1) -> clamp [0,1] -> gamma -> round -> clamp [0,255]")
    chk.rule("K3", "linear_to_srgb is the inverse sRGB transfer function (12.92 c below 0.0031308, 1.055 c^(1/2.4) - 0.055 above)")
    chk.rule("K4", "the forward and inverse matrices written in the code are mutually inverse (constant arithmetic on the literals): |M * M^-1 - I| < 1e-6")
    chk.rule("K5", "safe wrappers: every return is the plain conversion's result under its validity test, or the grey fallback; the fallback's components are provably inside the valid range (interval analysis)")
    chk.not_decided += ["losslessness of the RGB -> OKLCH -> RGB round trip on all 2^24 colours", "H < 360 strictly (float -eps + 360)", "the exact grey / black / white special values beyond what the clamps imply"]
    from checks._fs_common import closed_form
    closed_form(project, chk, "K1", [f"{V}.rgb_to_oklch", f"{V}.oklch_to_rgb", f"{V}.linear_to_srgb", f"{V}.srgb_to_linear"], "OKLCH conversions")
    audit(project, chk, "K1", f"{V}.rgb_to_oklch", REF, "forward", pol(), "sRGB -> OKLCH (Ottosson)")
    audit(project, chk, "K2", f"{V}.oklch_to_rgb", REF, "inverse", pol(), "OKLCH -> sRGB (Ottosson)")
    audit(project, chk, "K3", f"{V}.linear_to_srgb", REF, "gamma", pol(var_map={"c": "channel"}), "the inverse sRGB transfer function")
    # the validators the safe wrappers rely on: the documented closed ranges, inclusive (H = 360 and L = 1 are valid input)
    # a necessary condition that survives any rewrite of the validator: chroma has no upper limit (only its sign is tested), so every in-gamut and
    # out-of-gamut triple the plain conversion accepts is also accepted by the safe one
    from sa.formula import extract_function as _xf, Unsupported as _Uns, show as _show
    try:
        _ex, _env, _ret = _xf(project, project.func(f"{V}.is_valid_oklch"))
        lims = []

        def _walk(t):
            if isinstance(t, tuple) and t:
                if t[0] == "cmp" and t[3][0] == "num" and isinstance(t[3][1], (int, float)) and not isinstance(t[3][1], bool) and t[3][1] > 0 \
                        and t[2][0] == "index" and t[2][2] == ("num", 1) and t[2][1][0] == "var":
                    lims.append(t)
                for x in t:
                    if isinstance(x, tuple):
                        _walk(x)
        _walk(_ret)
        fi5 = project.func(f"{V}.is_valid_oklch")
        chk.check(not lims, "K5", fi5.short, _show(lims[0])[:60] if lims else "chroma tests", project.loc(fi5.module, fi5.node), "the validator bounds chroma from below only",
                  how="comparisons of the chroma component with a positive constant: none", message=f"the validator rejects triples by an upper chroma limit ({_show(lims[0])[:60] if lims else ''}): "
                  "the safe inverse falls back to grey for colours the plain conversion clips into gamut")
    except _Uns:
        pass
    audit(project, chk, "K5", f"{V}.is_valid_oklch", REF, "valid_oklch", Policy(), "the validity range of an OKLCH triple (L in [0,1], C >= 0, H in [0,360], inclusive)", inline=False)
    audit(project, chk, "K5", f"{V}.is_valid_rgb", REF, "valid_rgb", Policy(), "the validity range of an 8-bit triple (0..255 inclusive)", inline=False)

    # ---------------------------------------------------------------- K4 from the code's own literals
    permuted = False
    try:
        f_ex, f_env, f_ret = extract_function(project, project.func(f"{V}.rgb_to_oklch"))
        i_ex, i_env, i_ret = extract_function(project, project.func(f"{V}.oklch_to_rgb"))
    except Unsupported as e:
        raise AnalysisError(f"ANALYSIS-INCONCLUSIVE conversions: {e}")
    try:
        fb = [f_env["r_linear"], f_env["g_linear"], f_env["b_linear"]]
        M1 = [coeffs(f_env[n], fb) for n in ("l_cone", "m_cone", "s_cone")]
        # M2: rows of L, a, b over (l', m', s'): take the unclamped L
        lb = [f_env["l_prime"], f_env["m_prime"], f_env["s_prime"]]
        Lexpr = f_env["L"]
        while Lexpr[0] == "op" and Lexpr[1] in ("max", "min"):
            Lexpr = [x for x in Lexpr[2] if x[0] != "num"][0]
        M2 = [coeffs(Lexpr, lb), coeffs(f_env["a"], lb), coeffs(f_env["b"], lb)]
        ib = [i_env["L"], i_env["a"], i_env["b"]]
        M2i = [coeffs(i_env[n], ib) for n in ("l_prime", "m_prime", "s_prime")]
        cb = [i_env["l_cone"], i_env["m_cone"], i_env["s_cone"]]

        def unclamp(e):
            while e[0] == "op" and e[1] in ("max", "min"):
                e = [x for x in e[2] if x[0] != "num"][0]
            return e
        # r_linear etc. are reassigned (clamped): recover the linear forms from the clamp's operand
        M1i = [coeffs(unclamp(i_env[n]), cb) for n in ("r_linear", "g_linear", "b_linear")]
    except (Unsupported, KeyError):
        # the intermediates are not named as at the pinned tree: read the two 3x3 stages of each closed form by shape
        # (row / column order is then only known up to a permutation, which K1 / K2 pin down by alignment)
        try:
            res = project_resolver(project)
            M1, M2 = linear_stages(inline_calls(f_ret, res))
            M2i, M1i = linear_stages(inline_calls(i_ret, res))
            permuted = True
        except Unsupported as e:
            raise AnalysisError(f"ANALYSIS-INCONCLUSIVE conversions: cannot read the matrices as linear forms ({e})")
    fi = project.func(f"{V}.oklch_to_rgb")
    for name, A, B in (("M1 (linear sRGB -> LMS) x M1^-1", M1, M1i), ("M2 (LMS' -> OKLab) x M2^-1", M2, M2i)):
        P = matmul(A, B)
        if permuted:
            # a permutation matrix: every entry is 0 or 1 (to 1e-6) and every row and column holds exactly one 1
            near = [[1 if abs(P[i][j] - 1.0) < 1e-6 else 0 if abs(P[i][j]) < 1e-6 else None for j in range(3)] for i in range(3)]
            okp = all(v is not None for r in near for v in r) and all(sum(r) == 1 for r in near) and all(sum(near[i][j] for i in range(3)) == 1 for j in range(3))
            err = max(min(abs(P[i][j]), abs(P[i][j] - 1.0)) for i in range(3) for j in range(3))
            chk.check(okp, "K4", fi.short, name, project.loc(fi.module, fi.node), f"{name} = I up to the order of rows (max deviation {err:.2e})",
                      how="product of the 3x3 linear stages found by shape in rgb_to_oklch and oklch_to_rgb", message=f"{name} deviates from a permutation of the identity by {err:.3e}: a coefficient of the forward or inverse matrix is wrong")
            continue
        err = max(abs(P[i][j] - (1.0 if i == j else 0.0)) for i in range(3) for j in range(3))
        chk.check(err < 1e-6, "K4", fi.short, name, project.loc(fi.module, fi.node), f"{name} = I to 1e-6 (max deviation {err:.2e})",
                  how="product of the 3x3 literals found in rgb_to_oklch and oklch_to_rgb", message=f"{name} deviates from the identity by {err:.3e}: a coefficient of the forward or inverse matrix is wrong")
    chk.extra["matrices"] = {"M1": M1, "M1_inv": M1i, "M2": M2, "M2_inv": M2i}

    # ---------------------------------------------------------------- K5 safe wrappers
    for q, plain, validator, rng in ((f"{V}.rgb_to_oklch_safe", f"{V}.rgb_to_oklch", f"{V}.is_valid_oklch", [(0.0, 1.0), (0.0, float("inf")), (0.0, 360.0)]),
                                     (f"{V}.oklch_to_rgb_safe", f"{V}.oklch_to_rgb", f"{V}.is_valid_rgb", [(0, 255)] * 3)):
        fi = project.func(q)
        cfg = build_cfg(fi.node)
        chk.saw_function(fi, cfg)
        org = Origins(project, fi, cfg)
        G = guard_states(cfg)
        handler_nodes = set()
        for tr in cfg.tries:
            for h in tr["handlers"]:
                handler_nodes |= cfg.reachable(h)
        n_ret = 0
        param = fi.params()[0]
        for node in cfg.nodes:
            if node.kind != "return":
                continue
            n_ret += 1
            loc = project.loc(fi.module, node.ast)
            if node.id in handler_nodes and not any(node.id in cfg.reachable(tr["enter"]) - handler_nodes for tr in cfg.tries if False):
                # fallback: interval analysis of each component, parameters unconstrained
                ex = Extractor(project, fi, fi.node, Scope(project, fi))
                # evaluate the handler body symbolically
                hbody = None
                for tr in cfg.tries:
                    for hnode in tr["stmt"].handlers:
                        if any(node.ast is x for x in ast.walk(hnode)):
                            hbody = hnode.body
                try:
                    env, ret = ex.block(hbody, {p: ("var", p) for p in fi.params()})
                except Unsupported as e:
                    raise AnalysisError(f"ANALYSIS-INCONCLUSIVE {fi.short}: fallback not readable ({e})")
                comps = list(ret[1]) if ret is not None and ret[0] == "tuple" else None
                if comps is None or len(comps) != 3:
                    chk.fail("K5", fi.short, norm_text(node.ast), loc, "fallback does not return a 3-tuple")
                    continue
                for k, (c, (lo, hi)) in enumerate(zip(comps, rng)):
                    iv = interval(c, {})
                    chk.check(within(iv, lo, hi), "K5", fi.short, norm_text(node.ast), loc,
                              f"fallback component {k} = {show(c)[:70]} lies in [{lo}, {hi}] for any input",
                              how=f"interval {iv} with unconstrained inputs", message=f"fallback component {k} = {show(c)[:80]} has interval {iv}, not inside [{lo}, {hi}]: invalid input yields an invalid result")
            else:
                o = org.of(node.id, node.ast.value)
                lits = common_literals(G.get(node.id))
                is_plain = o[0] == "call" and o[1] == plain and o[2] == (("param", param),)
                validated = any(v and t.startswith(validator.rsplit(".", 1)[-1] + "(") for (t, v) in lits) or any((not v) and ("not " + validator.rsplit(".", 1)[-1]) in t for (t, v) in lits)
                chk.check(is_plain and validated, "K5", fi.short, norm_text(node.ast), loc,
                          f"the non-fallback return is {plain.rsplit('.', 1)[-1]}({param}) under {validator.rsplit('.', 1)[-1]}(...)",
                          how=f"value origin {o[1] if o[0] == 'call' else o}; guards {sorted(t for t, v in lits if v)}",
                          message=f"safe wrapper returns {norm_text(node.ast.value)} which is not the validated result of the plain conversion (guards: {sorted(lits)})")
        chk.floor(f"returns in {fi.short}", n_ret, 2)
        # the whole body is inside the try (so nothing escapes except from the fallback itself)
        body = [s for s in fi.node.body if not (isinstance(s, ast.Expr) and isinstance(s.value, ast.Constant))]
        chk.check(len(body) == 1 and isinstance(body[0], ast.Try) and any(h.type is None or norm_text(h.type) in ("Exception", "BaseException") for h in body[0].handlers), "K5", fi.short, "try/except Exception around the whole body",
                  project.loc(fi.module, fi.node), "the whole body is one try with a catch-all handler", how="statement census", message="part of the safe wrapper is outside its catch-all try")
