"""C10 -- OKLCH conversion matches the OKLab definition."""
from __future__ import annotations

import ast

from sa.cfg import build_cfg, node_exprs
from sa.formula import Policy, extract_function, Extractor, Unsupported, show, Dag
from sa.guards import guard_states, common_literals
from sa.intervals import interval, within
from sa.loader import AnalysisError, norm_text
from sa.resolve import Scope, own_nodes
from sa.wire import Origins
from checks._fs_common import audit

LEVEL = "other"
EXPLANATION = (
    "Formula-shape and constant audit of rgb_to_oklch / oklch_to_rgb / linear_to_srgb against Ottosson's OKLab definition (both 3x3 "
    "matrices and both inverses, cube root with sign handling, polar conversion with pi/180, atan2 hue with +360 on negatives, the sRGB "
    "transfer functions, the clamps L in [0,1] and channel in [0,255] after rounding); constant arithmetic on the literals found in the "
    "code showing the forward and inverse matrices are mutually inverse; interval analysis of the fallback values of the 'safe' wrappers; "
    "and a path rule that every return of a safe wrapper is the validated plain result or the clamped grey fallback. Losslessness of the "
    "2^24 round trip is numeric and not decided."
)
TRUSTED = ["stdlib ast", "reference formulas in checks/C10.py transcribe Bjorn Ottosson's OKLab (2020, matrices as updated 2021-01-25) and IEC 61966-2-1"]

REF = '''
def lin(c):
    if c <= 0.04045:
        return c / 12.92
    else:
        return ((c + 0.055) / 1.055) ** 2.4

def gamma(c):
    if c <= 0.0031308:
        return 12.92 * c
    else:
        return 1.055 * c ** (1.0 / 2.4) - 0.055

def cbrt(x):
    if x >= 0:
        return x ** (1 / 3)
    else:
        return -((-x) ** (1 / 3))

def valid_oklch(oklch):
    if not (0 <= oklch[0] <= 1):
        return False
    if oklch[1] < 0:
        return False
    if not (0 <= oklch[2] <= 360):
        return False
    return True

def valid_rgb(rgb):
    return all(0 <= value <= 255 for value in rgb)

def cube(x):
    if x >= 0:
        return x * x * x
    else:
        return -((-x) * (-x) * (-x))

def hue(a, b):
    if a == 0 and b == 0:
        return 0
    h = math.atan2(b, a) * 180 / math.pi
    return h + 360 if h < 0 else h

def forward(rgb):
    r = lin(rgb[0] / 255)
    g = lin(rgb[1] / 255)
    b = lin(rgb[2] / 255)
    l = cbrt(0.4122214708 * r + 0.5363325363 * g + 0.0514459929 * b)
    m = cbrt(0.2119034982 * r + 0.6806995451 * g + 0.1073969566 * b)
    s = cbrt(0.0883024619 * r + 0.2817188376 * g + 0.6299787005 * b)
    L = 0.2104542553 * l + 0.7936177850 * m - 0.0040720468 * s
    A = 1.9779984951 * l - 2.4285922050 * m + 0.4505937099 * s
    B = 0.0259040371 * l + 0.7827717662 * m - 0.8086757660 * s
    C = math.sqrt(A * A + B * B)
    if C < 1e-10:
        H = 0.0
    else:
        H = hue(A, B)
    return (max(0.0, min(1.0, L)), C, H)

def inverse(oklch):
    L = oklch[0]
    C = oklch[1]
    H = oklch[2]
    a = C * math.cos(H * math.pi / 180.0)
    b = C * math.sin(H * math.pi / 180.0)
    l = cube(L + 0.3963377774 * a + 0.2158037573 * b)
    m = cube(L - 0.1055613458 * a - 0.0638541728 * b)
    s = cube(L - 0.0894841775 * a - 1.2914855480 * b)
    r = gamma(max(0.0, min(1.0, 4.0767416621 * l - 3.3077115913 * m + 0.2309699292 * s)))
    g = gamma(max(0.0, min(1.0, -1.2684380046 * l + 2.6097574011 * m - 0.3413193965 * s)))
    bb = gamma(max(0.0, min(1.0, -0.0041960863 * l - 0.7034186147 * m + 1.7076147010 * s)))
    return (max(0, min(255, round(r * 255))), max(0, min(255, round(g * 255))), max(0, min(255, round(bb * 255))))
'''

V = "cm_colors.core.conversions"


def pol(**kw):
    return Policy(rel=1e-6, classes={0.04045: (10 / 255, 11 / 255, True, False)}, alternates={1e-10: [1e-12, 1e-9, 1e-8, 1e-6]}, **kw)


def matmul(a, b):
    return [[sum(a[i][k] * b[k][j] for k in range(3)) for j in range(3)] for i in range(3)]


def coeffs(expr, basis):
    """Coefficients of a linear form op+(c1*x1, c2*x2, c3*x3) over the given basis expressions."""
    out = [0.0, 0.0, 0.0]
    terms = list(expr[2]) if expr[0] == "op" and expr[1] == "+" else [expr]
    for t in terms:
        sign = 1.0
        if t[0] == "neg":
            sign, t = -1.0, t[1]
        c, x = 1.0, t
        if t[0] == "op" and t[1] == "*":
            nums = [y for y in t[2] if y[0] == "num"]
            rest = [y for y in t[2] if y[0] != "num"]
            for y in nums:
                c *= float(y[1])
            x = rest[0] if len(rest) == 1 else ("op", "*", tuple(rest))
        if x not in basis:
            raise Unsupported(f"term {show(x)[:40]} is not one of the basis expressions")
        out[basis.index(x)] += sign * c
    return out


def run(project, chk):
    chk.rule("K1", "rgb_to_oklch: sRGB -> linear -> LMS (matrix M1) -> cube root (sign-preserving) -> OKLab (matrix M2) -> chroma sqrt(a^2+b^2), hue atan2 in degrees [0,360), L clamped to [0,1]")
    chk.rule("K2", "oklch_to_rgb: polar -> OKLab (H*pi/180, cos/sin) -> LMS' (M2^-1) -> cube -> linear sRGB (M1^-1) -> clamp [0,1] -> gamma -> round -> clamp [0,255]")
    chk.rule("K3", "linear_to_srgb is the inverse sRGB transfer function (12.92 c below 0.0031308, 1.055 c^(1/2.4) - 0.055 above)")
    chk.rule("K4", "the forward and inverse matrices written in the code are mutually inverse (constant arithmetic on the literals): |M * M^-1 - I| < 1e-6")
    chk.rule("K5", "safe wrappers: every return is the plain conversion's result under its validity test, or the grey fallback; the fallback's components are provably inside the valid range (interval analysis)")
    chk.not_decided += ["losslessness of the RGB -> OKLCH -> RGB round trip on all 2^24 colours", "H < 360 strictly (float -eps + 360)", "the exact grey / black / white special values beyond what the clamps imply"]
    audit(project, chk, "K1", f"{V}.rgb_to_oklch", REF, "forward", pol(), "sRGB -> OKLCH (Ottosson)")
    audit(project, chk, "K2", f"{V}.oklch_to_rgb", REF, "inverse", pol(), "OKLCH -> sRGB (Ottosson)")
    audit(project, chk, "K3", f"{V}.linear_to_srgb", REF, "gamma", pol(var_map={"c": "channel"}), "the inverse sRGB transfer function")
    # the validators the safe wrappers rely on: the documented closed ranges, inclusive (H = 360 and L = 1 are valid input)
    audit(project, chk, "K5", f"{V}.is_valid_oklch", REF, "valid_oklch", Policy(), "the validity range of an OKLCH triple (L in [0,1], C >= 0, H in [0,360], inclusive)", inline=False)
    audit(project, chk, "K5", f"{V}.is_valid_rgb", REF, "valid_rgb", Policy(), "the validity range of an 8-bit triple (0..255 inclusive)", inline=False)

    # ---------------------------------------------------------------- K4 from the code's own literals
    try:
        f_ex, f_env, _ = extract_function(project, project.func(f"{V}.rgb_to_oklch"))
        i_ex, i_env, _ = extract_function(project, project.func(f"{V}.oklch_to_rgb"))
        fb = [f_env["r_linear"], f_env["g_linear"], f_env["b_linear"]]
        M1 = [coeffs(f_env[n], fb) for n in ("l_cone", "m_cone", "s_cone")]
        # M2: rows of L, a, b over (l', m', s'): take the unclamped L
        lb = [f_env["l_prime"], f_env["m_prime"], f_env["s_prime"]]
        Lexpr = f_env["L"]
        while Lexpr[0] == "op" and Lexpr[1] in ("max", "min"):
            Lexpr = [x for x in Lexpr[2] if x[0] != "num"][0]
        M2 = [coeffs(Lexpr, lb), coeffs(f_env["a"], lb), coeffs(f_env["b"], lb)]
        ib = [("var", "L") if False else i_env["L"], i_env["a"], i_env["b"]]
        M2i = [coeffs(i_env[n], ib) for n in ("l_prime", "m_prime", "s_prime")]
        cb = [i_env["l_cone"], i_env["m_cone"], i_env["s_cone"]]

        def unclamp(e):
            while e[0] == "op" and e[1] in ("max", "min"):
                e = [x for x in e[2] if x[0] != "num"][0]
            return e
        # r_linear etc. are reassigned (clamped): recover the linear forms from the clamp's operand
        M1i = [coeffs(unclamp(i_env[n]), cb) for n in ("r_linear", "g_linear", "b_linear")]
    except (Unsupported, KeyError) as e:
        raise AnalysisError(f"ANALYSIS-INCONCLUSIVE conversions: cannot read the matrices as linear forms over the named intermediates ({e})")
    fi = project.func(f"{V}.oklch_to_rgb")
    for name, A, B in (("M1 (linear sRGB -> LMS) x M1^-1", M1, M1i), ("M2 (LMS' -> OKLab) x M2^-1", M2, M2i)):
        P = matmul(A, B)
        err = max(abs(P[i][j] - (1.0 if i == j else 0.0)) for i in range(3) for j in range(3))
        chk.check(err < 1e-6, "K4", fi.short, name, project.loc(fi.module, fi.node), f"{name} = I to 1e-6 (max deviation {err:.2e})",
                  how="product of the 3x3 literals found in rgb_to_oklch and oklch_to_rgb", message=f"{name} deviates from the identity by {err:.3e}: a coefficient of the forward or inverse matrix is wrong")
    chk.extra["matrices"] = {"M1": M1, "M1_inv": M1i, "M2": M2, "M2_inv": M2i}

    # ---------------------------------------------------------------- K5 safe wrappers
    for q, plain, validator, rng in ((f"{V}.rgb_to_oklch_safe", f"{V}.rgb_to_oklch", f"{V}.is_valid_oklch", [(0.0, 1.0), (0.0, float("inf")), (0.0, 360.0)]),
                                     (f"{V}.oklch_to_rgb_safe", f"{V}.oklch_to_rgb", f"{V}.is_valid_rgb", [(0, 255)] * 3)):
        fi = project.func(q)
        cfg = build_cfg(fi.node)
        chk.saw_function(fi, cfg)
        org = Origins(project, fi, cfg)
        G = guard_states(cfg)
        handler_nodes = set()
        for tr in cfg.tries:
            for h in tr["handlers"]:
                handler_nodes |= cfg.reachable(h)
        n_ret = 0
        param = fi.params()[0]
        for node in cfg.nodes:
            if node.kind != "return":
                continue
            n_ret += 1
            loc = project.loc(fi.module, node.ast)
            if node.id in handler_nodes and not any(node.id in cfg.reachable(tr["enter"]) - handler_nodes for tr in cfg.tries if False):
                # fallback: interval analysis of each component, parameters unconstrained
                ex = Extractor(project, fi, fi.node, Scope(project, fi))
                # evaluate the handler body symbolically
                hbody = None
                for tr in cfg.tries:
                    for hnode in tr["stmt"].handlers:
                        if any(node.ast is x for x in ast.walk(hnode)):
                            hbody = hnode.body
                try:
                    env, ret = ex.block(hbody, {p: ("var", p) for p in fi.params()})
                except Unsupported as e:
                    raise AnalysisError(f"ANALYSIS-INCONCLUSIVE {fi.short}: fallback not readable ({e})")
                comps = list(ret[1]) if ret is not None and ret[0] == "tuple" else None
                if comps is None or len(comps) != 3:
                    chk.fail("K5", fi.short, norm_text(node.ast), loc, "fallback does not return a 3-tuple")
                    continue
                for k, (c, (lo, hi)) in enumerate(zip(comps, rng)):
                    iv = interval(c, {})
                    chk.check(within(iv, lo, hi), "K5", fi.short, norm_text(node.ast), loc,
                              f"fallback component {k} = {show(c)[:70]} lies in [{lo}, {hi}] for any input",
                              how=f"interval {iv} with unconstrained inputs", message=f"fallback component {k} = {show(c)[:80]} has interval {iv}, not inside [{lo}, {hi}]: invalid input yields an invalid result")
            else:
                o = org.of(node.id, node.ast.value)
                lits = common_literals(G.get(node.id))
                is_plain = o[0] == "call" and o[1] == plain and o[2] == (("param", param),)
                validated = any(v and t.startswith(validator.rsplit(".", 1)[-1] + "(") for (t, v) in lits) or any((not v) and ("not " + validator.rsplit(".", 1)[-1]) in t for (t, v) in lits)
                chk.check(is_plain and validated, "K5", fi.short, norm_text(node.ast), loc,
                          f"the non-fallback return is {plain.rsplit('.', 1)[-1]}({param}) under {validator.rsplit('.', 1)[-1]}(...)",
                          how=f"value origin {o[1] if o[0] == 'call' else o}; guards {sorted(t for t, v in lits if v)}",
                          message=f"safe wrapper returns {norm_text(node.ast.value)} which is not the validated result of the plain conversion (guards: {sorted(lits)})")
        chk.floor(f"returns in {fi.short}", n_ret, 2)
        # the whole body is inside the try (so nothing escapes except from the fallback itself)
        body = [s for s in fi.node.body if not (isinstance(s, ast.Expr) and isinstance(s.value, ast.Constant))]
        chk.check(len(body) == 1 and isinstance(body[0], ast.Try) and any(h.type is None or norm_text(h.type) in ("Exception", "BaseException") for h in body[0].handlers), "K5", fi.short, "try/except Exception around the whole body",
                  project.loc(fi.module, fi.node), "the whole body is one try with a catch-all handler", how="statement census", message="part of the safe wrapper is outside its catch-all try")
