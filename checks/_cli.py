"""CLI options added after the pinned tree (shared by C09 / C18 / C08).

The CLI properties quantify over the settings the command has at the pinned tree (--mode, --premium, --default-bg, the path).
An option introduced later whose default leaves it switched off (None / False) opens behaviour *outside* that settings space:
code that runs only when such an option is given is not an effect of any invocation the properties speak of.
"""
from __future__ import annotations

import ast
import json
from typing import Set

from sa.guards import common_literals
from sa.normalize import BASELINE


def new_default_off_options(project, main_fi) -> Set[str]:
    try:
        with open(BASELINE) as fh:
            base = json.load(fh).get("params", {}).get(main_fi.qualname)
    except OSError:
        return set()
    if base is None:
        return set()
    out = set()
    new_params = [p for p in main_fi.params() if p not in base]
    if not new_params:
        return out
    defaults = {}
    for d in main_fi.node.decorator_list:
        if not (isinstance(d, ast.Call) and isinstance(d.func, ast.Attribute) and d.func.attr == "option"):
            continue
        names = [a.value for a in d.args if isinstance(a, ast.Constant) and isinstance(a.value, str)]
        explicit = [n for n in names if not n.startswith("-")]
        longs = [n for n in names if n.startswith("--")]
        pname = explicit[0] if explicit else (max(longs, key=len)[2:].replace("-", "_") if longs else None)
        if pname is None:
            continue
        kw = {k.arg: k.value for k in d.keywords}
        if "default" in kw:
            dv = kw["default"]
            off = isinstance(dv, ast.Constant) and (dv.value is None or dv.value is False)
        elif "is_flag" in kw and isinstance(kw["is_flag"], ast.Constant) and kw["is_flag"].value is True:
            off = True
        else:
            off = "required" not in kw      # no default: None
        defaults[pname] = off
    for p in new_params:
        if defaults.get(p) is True:
            out.add(p)
    return out


def runs_only_with_new_option(G, node_id: int, names: Set[str]):
    """The name of a new default-off option this node is control-dependent on (on all paths), or None."""
    if not names:
        return None
    lits = common_literals(G.get(node_id))
    for (t, v) in lits:
        for n in names:
            if (t == n and v) or (t == f"{n} is not None" and v) or (t == f"{n} is None" and not v) or (t == f"not {n}" and not v) or (t == f"{n} is True" and v):
                return n
    return None
