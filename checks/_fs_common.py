"""Shared helpers for the formula-shape checks (C05, C07, C10, C11, C13, C06)."""
from __future__ import annotations

from sa.formula import (Policy, Unsupported, compare, compare_lifted, extract_function, inline_calls, project_resolver, reference, show, nested)
from sa.loader import AnalysisError, norm_text

VIOLATION_KINDS = ("const", "operator", "binding", "structure")


def closed_form(project, chk, rule, qualnames, what):
    """The published conversions are closed-form expressions: a `while` loop (an iteration whose trip count depends on the
    data: bisection, gamut mapping, refinement) in one of them, or in a helper they reach inside the conversion modules, is a
    different algorithm -- it cannot agree with the formula bit for bit -- and is reported before the formula audit is tried."""
    import ast
    from sa.resolve import Scope, own_nodes
    seen = set()
    stack = list(qualnames)
    n = 0
    while stack:
        q = stack.pop()
        if q in seen or q not in project.funcs:
            continue
        seen.add(q)
        fi = project.funcs[q]
        if not fi.module.name.startswith("cm_colors.core.conv") and not fi.module.name.startswith("cm_colors.core.color_metrics") and not fi.module.name.startswith("cm_colors.core.contrast"):
            continue
        n += 1
        sc = Scope(project, fi)
        for x in own_nodes(fi.node):
            if isinstance(x, ast.While):
                chk.fail(rule, fi.short, norm_text(x.test)[:80], project.loc(fi.module, x), f"{what}: {fi.name} iterates (`while {norm_text(x.test)[:60]}`) where the definition is a closed-form expression: "
                                                                                              "a search / refinement replaces the published formula on part of the input space")
            if isinstance(x, ast.Call):
                cq = sc.resolve_call(x)
                if cq in project.funcs:
                    stack.append(cq)
    chk.ok(rule, f"conversions ({n} functions)", f"{what}: no data-dependent iteration in the {n} functions of the conversion call closure", "statement census (while loops) over the call closure inside the conversion modules") if not any(f.rule == rule and "iterates" in f.message for f in chk.findings) else None


def audit(project, chk, rule, qualname, ref_src, entry, policy, what, inline=True, exclude=(), call_map=None, code_expr=None, pick=None, alternatives=None):
    """Compare the closed form of a package function with the reference formula; record verdicts.
    Returns the number of constants / nodes compared (for floors)."""
    fi = project.func(qualname)
    chk.saw_function(fi)
    try:
        if code_expr is None:
            ex, env, ret = extract_function(project, fi)
            if ret is None:
                raise Unsupported("function has no return value")
            code = ret
        else:
            code = code_expr
        if pick is not None:
            code = pick(code)
        if inline:
            code = inline_calls(code, project_resolver(project, exclude=exclude))
        ref = reference(ref_src, entry, call_map=call_map)
    except Unsupported as e:
        raise AnalysisError(f"ANALYSIS-INCONCLUSIVE {fi.short}: formula not readable ({e})")
    ms, _c, _r = compare_lifted(code, ref, policy)
    for alt_entry in (alternatives or []):
        if not ms:
            break
        ref2 = reference(ref_src, alt_entry, call_map=call_map)
        ms2, _c, _r = compare_lifted(code, ref2, policy)
        if not ms2 or (not any(m.kind == "shape" for m in ms2) and (any(m.kind == "shape" for m in ms) or len(ms2) < len(ms))):
            ms, ref = ms2, ref2
    loc = project.loc(fi.module, fi.node)
    if any(m.kind == "shape" for m in ms) and chk.findings:
        chk.note(f"{fi.short}: not aligned with the definition of {what}; a violation in one of its helpers was already reported, so this composite is not judged")
        return 0, 0
    if any(m.kind == "shape" for m in ms):
        sh = [m for m in ms if m.kind == "shape"][0]
        raise AnalysisError(f"ANALYSIS-INCONCLUSIVE {loc} {fi.short}: the code's formula cannot be aligned with the definition of {what} "
                            f"(code: {sh.code[:100]} / definition: {sh.ref[:100]}); a refactor the audit cannot read is not reported as a violation")
    from sa.formula import Dag
    d = Dag()
    n_nodes = d.size(d.add(ref))
    n_consts = len({h for (h, _) in d.nodes if h[0] == "num"})
    if not ms:
        chk.ok(rule, f"{loc} {fi.short}", f"{fi.name} is the published formula for {what}: every constant, operator and operand binding agrees",
               how=f"closed form (helpers inlined) aligned with the reference: {len(d.nodes)} distinct sub-expressions, {n_consts} distinct constants")
        for (h, _) in d.nodes:
            if h[0] == "num":
                chk.ok(rule, f"{loc} {fi.short}", f"{what}: the definition's constant {h[1]!r} appears at its aligned position in {fi.name}", how="per-constant comparison after alignment")
    seen = set()
    for m in ms:
        key = (m.kind, m.code, m.ref)
        if key in seen:
            continue
        seen.add(key)
        chk.fail(rule, fi.short, f"{m.code[:100]}", loc,
                 f"{what}: {m.kind} differs from the definition: code has {m.code[:120]} where the definition has {m.ref[:120]} {m.note}",
                 text=f"{fi.name} agrees with the published formula for {what}")
    return len(d.nodes), n_consts
