"""C16 -- asking for less never fails: mode 2 covers mode 1, readable covers very readable."""
from __future__ import annotations

import ast

from sa import contracts as C
from sa.gf import ITEM, K, K_TRUE, P, norm_colour, show
from sa.loader import AnalysisError, norm_text
from sa.resolve import Scope, own_nodes, bind_args
from sa.verify import cases_for, returns_of
from checks._gf_common import run_all, report, TRUSTED as _T

LEVEL = "other"
TRUSTED = _T
EXPLANATION = (
    "Guard-fact verification + wiring + use-kind census: (R1) _strategy_relaxed satisfies, at every return, 'if _strategy_recursive on the "
    "function's own five arguments succeeds, the result is exactly (its colour, True)' -- the first strategy call is the recursive one on the "
    "same arguments, its success edge returns it, every other return lies behind the false edge; (R2) check_and_fix_contrast returns, past the "
    "already-passes shortcut, exactly the result of _strategy_relaxed for mode 2 and of _strategy_recursive for the default arm, called with "
    "identical arguments (same colours, same target, same minimum) -- so whenever mode 1 succeeds mode 2 returns the identical colour with "
    "success; (R3) per text size target(very_readable) == target(plain) and min(very_readable) >= min(plain); (R4) in optimisation.py the "
    "minimum is only ever the right operand of `>=` against a contrast, forwarded, or default-filled -- never computed with and never used to "
    "build the target. R3+R4 are the structural preconditions of 'readable covers very readable'; the trajectory argument itself is not decided."
)

MIN = "min_contrast"


def run(project, chk):
    chk.rule("R1", "relaxed: truthy(recursive(text,bg,large,target,min)[1]) => result == (recursive(...)[0], True), at every return")
    chk.rule("R2", "dispatch: mode 2 -> relaxed, default arm -> recursive, mode 0 -> strict; same argument tuple at both; the strategy's colour and flag are returned unchanged")
    chk.rule("R3", "table: for each text size, target(very_readable) == target(plain) and min(very_readable) >= min(plain)")
    chk.rule("R4", "use-kind census: min_contrast is only compared (`contrast >= min_contrast`), forwarded as min_contrast, None-tested or default-filled")
    chk.not_decided += ["the trajectory argument 'the weaker request stops earlier, on a passing colour' (search dynamics); R3 and R4 are its structural preconditions"]
    chk.assumptions += ["the strategies are deterministic functions of their arguments (C15)"]
    contracts, out = run_all(project)
    n = report(project, chk, "C16", lambda r: "R1", out)
    chk.floor("recursive-first obligations in _strategy_relaxed", n, 5)

    # ---------------------------------------------------------------- R2 dispatch
    res, ans = out[C.CAF]
    fi = project.func(C.CAF)
    expected = {"mode=0": C.STRICT, "mode=2": C.RELAXED, "mode=other": C.RECURSIVE}
    args_by_cfg = {}
    n_r2 = 0
    for an, case in zip(ans, cases_for(C.CAF)):
        label = case[0]
        mlabel = label.split(", ")[-1]
        cfgkey = ", ".join(label.split(", ")[:2])
        want = expected[mlabel]
        strat_terms = [t for nid, ts in an.call_terms.items() if nid in an.IN for t in ts if t[1] in (C.STRICT, C.RECURSIVE, C.RELAXED)]
        # reachable strategy calls: those whose node has a feasible out-edge
        reach_terms = []
        for nid, ts in an.call_terms.items():
            if nid in an.IN and any((nid, d, lab) in an.OUT for (d, lab) in an.cfg.succ[nid]):
                reach_terms += [t for t in ts if t[1] in (C.STRICT, C.RECURSIVE, C.RELAXED)]
        node_ast = fi.node
        ok = len(reach_terms) == 1 and reach_terms[0][1] == want
        chk.check(ok, "R2", fi.short, f"dispatch for {mlabel}", project.loc(fi.module, fi.node),
                  f"[{label}] the only strategy reached is {want.rsplit('.', 1)[-1]}", how=f"feasible strategy calls: {[show(t)[:90] for t in reach_terms]}",
                  message=f"[{label}] dispatches to {[t[1].rsplit('.', 1)[-1] for t in reach_terms]} instead of {want.rsplit('.', 1)[-1]}")
        n_r2 += 1
        if not reach_terms:
            continue
        T = reach_terms[0]
        nargs = tuple(norm_colour(a) for a in T[2])
        args_by_cfg.setdefault(cfgkey, {})[mlabel] = nargs
        okargs = nargs[0] == P("text") and nargs[1] == P("bg") and nargs[2] == P("large")
        chk.check(okargs, "R2", fi.short, f"strategy arguments for {mlabel}", project.loc(fi.module, fi.node),
                  f"[{label}] the strategy is called on the pair's own colours and size", how=f"arguments: {[show(a) for a in nargs]}",
                  message=f"[{label}] strategy called with {[show(a) for a in nargs[:3]]} instead of (text, bg, large)")
        for node, ret, st in returns_of(an):
            pr = st.prover()
            early = pr.entails(("ge", ("cr", *sorted([P("bg"), P("text")], key=repr)), nargs[4])) if nargs[4][0] == "const" else False
            if ret == ("tuple", (P("text"), K_TRUE)) and early:
                continue
            a1 = ("samecolour", ITEM(ret, 0), ITEM(T, 0))
            a2 = ("eq", ITEM(ret, 1), ITEM(T, 1))
            ok = pr.entails(a1) and pr.entails(a2)
            n_r2 += 1
            chk.check(ok, "R2", fi.short, norm_text(node.ast), project.loc(fi.module, node.ast),
                      f"[{label}] `{norm_text(node.ast)}` hands back the strategy's colour and flag unchanged",
                      how=f"returned {show(ret)[:120]}", message=f"[{label}] the value returned is not the strategy's (colour, flag): {show(ret)[:160]}")
    for cfgkey, d in sorted(args_by_cfg.items()):
        if "mode=2" in d and "mode=other" in d:
            chk.check(d["mode=2"] == d["mode=other"], "R2", fi.short, f"arguments of relaxed vs recursive [{cfgkey}]", project.loc(fi.module, fi.node),
                      f"[{cfgkey}] relaxed (mode 2) and recursive (mode 1) receive identical arguments", how=f"{[show(a) for a in d['mode=2']]}",
                      message=f"[{cfgkey}] mode 2 passes {[show(a) for a in d['mode=2']]} but mode 1 passes {[show(a) for a in d['mode=other']]}")
    chk.floor("dispatch obligations", n_r2, 20)

    # ---------------------------------------------------------------- R3 table relations
    tbl = {}
    for cfgkey, d in args_by_cfg.items():
        prem = "premium=True" in cfgkey
        large = "large=True" in cfgkey
        a = d.get("mode=other") or next(iter(d.values()))
        tbl[(prem, large)] = (a[3], a[4])
    for large in (False, True):
        if (True, large) in tbl and (False, large) in tbl:
            (tp, mp), (tn, mn) = tbl[(True, large)], tbl[(False, large)]
            consts = all(x[0] == "const" for x in (tp, mp, tn, mn))
            chk.check(consts and tp[1] == tn[1], "R3", fi.short, f"target_contrast (large={large})", project.loc(fi.module, fi.node),
                      f"large={large}: the search target is the same with and without very_readable ({show(tn)})", how=f"very_readable: {show(tp)}, plain: {show(tn)}",
                      message=f"large={large}: very_readable changes the search target ({show(tp)} vs {show(tn)}): the weaker request follows a different trajectory")
            chk.check(consts and mp[1] >= mn[1], "R3", fi.short, f"min_contrast (large={large})", project.loc(fi.module, fi.node),
                      f"large={large}: min(very_readable)={show(mp)} >= min(plain)={show(mn)}", how="constant-propagated table",
                      message=f"large={large}: very_readable lowers the minimum ({show(mp)} < {show(mn)})")
    chk.extra["table"] = {f"premium={k[0]},large={k[1]}": {"target": show(v[0]), "min": show(v[1])} for k, v in sorted(tbl.items())}

    # ---------------------------------------------------------------- R4 use census of min_contrast
    m = project.module("cm_colors.core.optimisation")
    n_uses = 0
    for q, f in sorted(m.funcs.items()):
        if f.qualname in project.outside_surface:
            continue        # a function added after the pinned tree that no pinned function calls: not on any path from make_readable
        aliases = {MIN}
        for n in own_nodes(f.node):     # simple aliases: x = min_contrast
            if isinstance(n, ast.Assign) and isinstance(n.value, ast.Name) and n.value.id in aliases and len(n.targets) == 1 and isinstance(n.targets[0], ast.Name):
                aliases.add(n.targets[0].id)
        parents = {}
        for n in ast.walk(f.node):
            for ch in ast.iter_child_nodes(n):
                parents[ch] = n
        sc = Scope(project, f)
        for n in own_nodes(f.node):
            if not (isinstance(n, ast.Name) and n.id in aliases and isinstance(n.ctx, ast.Load)):
                continue
            n_uses += 1
            par = parents.get(n)
            kind = None
            if isinstance(par, ast.Compare) and len(par.ops) == 1:
                op = par.ops[0]
                if isinstance(op, ast.GtE) and par.comparators[0] is n:
                    kind = "right operand of >="
                elif isinstance(op, ast.LtE) and par.left is n:
                    kind = "left operand of <="
                elif isinstance(op, ast.Lt) and par.comparators[0] is n:
                    kind = "right operand of < (negated verdict)"
                elif isinstance(op, ast.Gt) and par.left is n:
                    kind = "left operand of > (negated verdict)"
                elif isinstance(op, (ast.Is, ast.IsNot)):
                    kind = "None test"
            elif isinstance(par, ast.keyword) and par.arg == MIN:
                kind = "forwarded as min_contrast"
            elif isinstance(par, ast.Call) and n in par.args:
                cq = sc.resolve_call(par)
                cands = [cq] if cq in project.funcs else []
                if not cands and isinstance(par.func, ast.Name):
                    # a function-valued local (`strategy = _strategy_strict ... strategy(...)`): every function it can hold
                    vals = [a2.value for a2 in own_nodes(f.node) if isinstance(a2, ast.Assign) and len(a2.targets) == 1 and isinstance(a2.targets[0], ast.Name) and a2.targets[0].id == par.func.id]
                    def leaves(v):
                        return leaves(v.body) + leaves(v.orelse) if isinstance(v, ast.IfExp) else [v]
                    vals = [x for v in vals for x in leaves(v)]
                    res = [sc.resolve(v) for v in vals]
                    if vals and all(r in project.funcs for r in res):
                        cands = res
                try:
                    if cands and all(any(v is n and k == MIN for k, v in bind_args(project.funcs[c2], par).items()) for c2 in cands):
                        kind = "forwarded as min_contrast"
                except ValueError:
                    pass
            elif isinstance(par, ast.Dict) and any(v is n and isinstance(k, ast.Constant) and k.value == MIN for k, v in zip(par.keys, par.values)):
                kind = "carried under its own key in an options mapping"
            elif isinstance(par, ast.Assign) and par.value is n and len(par.targets) == 1 and isinstance(par.targets[0], ast.Name) and par.targets[0].id in aliases:
                kind = "alias"
            chk.check(kind is not None, "R4", f.short, norm_text(par if par is not None else n)[:120], project.loc(m, n),
                      f"use of {n.id} is a comparison / forwarding / None test", how=kind or "", nontrivial=False,
                      message=f"{n.id} is used in `{norm_text(par)[:80]}`: the minimum influences more than the verdict/stop tests (lowering it can change the trajectory)")
        # stores: only default fill-in (constant or conditional constants) under `is None`
        for n in own_nodes(f.node):
            if isinstance(n, ast.Name) and n.id == MIN and isinstance(n.ctx, ast.Store):
                par = parents.get(n)
                val = par.value if isinstance(par, ast.Assign) else None
                okv = isinstance(val, ast.Constant) or (isinstance(val, ast.IfExp) and isinstance(val.body, ast.Constant) and isinstance(val.orelse, ast.Constant)) \
                    or (isinstance(val, ast.Subscript) and isinstance(val.value, ast.Name) and isinstance(val.slice, ast.Constant) and val.slice.value == MIN)      # options["min_contrast"]: handed through
                chk.check(okv, "R4", f.short, norm_text(par if par is not None else n), project.loc(m, n), "min_contrast is only ever assigned literal defaults / table entries", how="value is a literal",
                          message="min_contrast is computed, not taken from the table", nontrivial=False)
        # target must not be built from min
        for n in own_nodes(f.node):
            if isinstance(n, ast.Assign) and any(isinstance(t, ast.Name) and t.id == "target_contrast" for t in n.targets):
                dep = [x for x in ast.walk(n.value) if isinstance(x, ast.Name) and x.id in aliases]
                chk.check(not dep, "R4", f.short, norm_text(n), project.loc(m, n), "target_contrast does not depend on min_contrast", how="no min_contrast in the assigned expression",
                          message="the search target is derived from the minimum: a weaker request searches differently", nontrivial=False)
    chk.floor("uses of min_contrast in optimisation.py", n_uses, 15)


_run_own16 = run


def run(project, chk):      # noqa: F811
    _run_own16(project, chk)
    # R5: the public entry runs the optimiser once, in the mode it was asked for
    chk.rule("R5", "ColorPair.make_readable calls check_and_fix_contrast exactly once, with its own mode and very_readable: no request is silently served by another mode")
    import ast as _ast
    from sa.wire import Origins as _Org, show as _show
    from sa.resolve import Scope as _Scope, own_nodes as _own, bind_args as _bind
    mk = project.funcs.get("cm_colors.core.colors.ColorPair.make_readable")
    caf = project.funcs.get("cm_colors.core.optimisation.check_and_fix_contrast")
    if mk is None or caf is None:
        return
    sc = _Scope(project, mk)
    org = _Org(project, mk)
    calls = [c for c in _own(mk.node) if isinstance(c, _ast.Call) and sc.resolve_call(c) == caf.qualname]
    chk.check(len(calls) == 1, "R5", mk.short, f"{len(calls)} optimiser call(s)", project.loc(mk.module, calls[1] if len(calls) > 1 else mk.node), "one optimiser run per request",
              how="call-site census", message=f"make_readable runs the optimiser {len(calls)} times: a second run (e.g. a retry in another mode) makes the outcome of mode 1 depend on what mode 2 can do")
    for c in calls:
        b = _bind(caf, c)
        for pname, want in (("mode", ("param", "mode")), ("premium", ("param", "very_readable"))):
            a = b.get(pname)
            o = org.at(a) if a is not None else None
            chk.check(o == want, "R5", mk.short, _ast.unparse(c)[:80], project.loc(mk.module, c), f"the optimiser's `{pname}` is the caller's {want[1]}", how=f"origin: {_show(o) if o else None}",
                      message=f"the optimiser is run with {pname} = {_show(o) if o else 'its default'} instead of the caller's {want[1]}")
