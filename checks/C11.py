"""C11 -- CIE Lab and CIEDE2000 agree with the CIE definitions."""
from __future__ import annotations

from sa.formula import Policy
from checks._fs_common import audit

LEVEL = "other"
EXPLANATION = (
    "Formula-shape and constant audit of the colour-difference pipeline: rgb_to_xyz (sRGB linearisation, the 3x3 sRGB->XYZ matrix, x100), "
    "xyz_to_lab (D65 white, the piecewise f(t) with its threshold / slope / offset, 116 f(y) - 16, 500 (f(x) - f(y)), 200 (f(y) - f(z))), "
    "rgb_to_lab as their composition, calculate_hue_angle, and CIEDE2000 end to end from two RGB triples: 25^7, G, a', the four-way "
    "branch of delta-h' and of the mean hue, delta-H', T with its four coefficients and phases, delta-theta, R_C, S_L, S_C, S_H, R_T and "
    "the final root, with every trigonometric argument converted by radians(), and the early 0.0 for identical inputs. Each is reduced "
    "to a closed form (helpers inlined) and aligned with the published definition; every constant, operator, operand binding and branch "
    "condition must agree. Numeric agreement within 0.05 on all pairs and symmetry under float rounding are not decided."
)
TRUSTED = ["stdlib ast", "reference formulas in checks/C11.py transcribe CIE 15 / Sharma-Wu-Dalal (2005) and IEC 61966-2-1",
           "math.sqrt / sin / cos / exp / atan2 / radians have their Python semantics"]

REF = '''
def lin(c):
    if c <= 0.04045:
        return c / 12.92
    else:
        return ((c + 0.055) / 1.055) ** 2.4

def xyz(rgb):
    r = lin(rgb[0] / 255)
    g = lin(rgb[1] / 255)
    b = lin(rgb[2] / 255)
    return ((r * 0.4124564 + g * 0.3575761 + b * 0.1804375) * 100,
            (r * 0.2126729 + g * 0.7151522 + b * 0.0721750) * 100,
            (r * 0.0193339 + g * 0.1191920 + b * 0.9503041) * 100)

def f(t):
    if t > 0.008856:
        return t ** (1 / 3)
    else:
        return 7.787 * t + 16 / 116

def lab_of_xyz(v):
    x = v[0] / 95.047
    y = v[1] / 100.0
    z = v[2] / 108.883
    return (max(0, min(100, 116 * f(y) - 16)), 500 * (f(x) - f(y)), 200 * (f(y) - f(z)))

def lab_of_xyz_unclamped(v):
    x = v[0] / 95.047
    y = v[1] / 100.0
    z = v[2] / 108.883
    return (116 * f(y) - 16, 500 * (f(x) - f(y)), 200 * (f(y) - f(z)))

def lab(rgb):
    return lab_of_xyz(xyz(rgb))

def lab_unclamped(rgb):
    return lab_of_xyz_unclamped(xyz(rgb))

def hue(a, b):
    if a == 0 and b == 0:
        return 0
    h = math.atan2(b, a) * 180 / math.pi
    return h + 360 if h < 0 else h

def de_lab(L1, a1, b1, L2, a2, b2):
    C1 = math.sqrt(a1 * a1 + b1 * b1)
    C2 = math.sqrt(a2 * a2 + b2 * b2)
    Cm = (C1 + C2) / 2
    G = 0.5 * (1 - math.sqrt(Cm ** 7 / (Cm ** 7 + 25 ** 7)))
    a1p = a1 * (1 + G)
    a2p = a2 * (1 + G)
    C1p = math.sqrt(a1p * a1p + b1 * b1)
    C2p = math.sqrt(a2p * a2p + b2 * b2)
    h1p = hue(a1p, b1)
    h2p = hue(a2p, b2)
    dL = L2 - L1
    dC = C2p - C1p
    if C1p == 0 or C2p == 0:
        dh = 0
    elif abs(h2p - h1p) <= 180:
        dh = h2p - h1p
    elif h2p - h1p > 180:
        dh = h2p - h1p - 360
    else:
        dh = h2p - h1p + 360
    dH = 2 * math.sqrt(C1p * C2p) * math.sin(math.radians(dh / 2))
    Lm = (L1 + L2) / 2
    Cmp = (C1p + C2p) / 2
    if C1p == 0 or C2p == 0:
        Hm = h1p + h2p
    elif abs(h1p - h2p) <= 180:
        Hm = (h1p + h2p) / 2
    elif abs(h1p - h2p) > 180 and h1p + h2p < 360:
        Hm = (h1p + h2p + 360) / 2
    else:
        Hm = (h1p + h2p - 360) / 2
    T = 1 - 0.17 * math.cos(math.radians(Hm - 30)) + 0.24 * math.cos(math.radians(2 * Hm)) + 0.32 * math.cos(math.radians(3 * Hm + 6)) - 0.20 * math.cos(math.radians(4 * Hm - 63))
    dTheta = 30 * math.exp(-(((Hm - 275) / 25) ** 2))
    RC = 2 * math.sqrt(Cmp ** 7 / (Cmp ** 7 + 25 ** 7))
    SL = 1 + 0.015 * (Lm - 50) ** 2 / math.sqrt(20 + (Lm - 50) ** 2)
    SC = 1 + 0.045 * Cmp
    SH = 1 + 0.015 * Cmp * T
    RT = -math.sin(math.radians(2 * dTheta)) * RC
    return math.sqrt((dL / SL) ** 2 + (dC / SC) ** 2 + (dH / SH) ** 2 + RT * (dC / SC) * (dH / SH))

def de(rgb1, rgb2):
    if rgb1 == rgb2:
        return 0.0
    return de_lab(lab(rgb1)[0], lab(rgb1)[1], lab(rgb1)[2], lab(rgb2)[0], lab(rgb2)[1], lab(rgb2)[2])

def de_unclamped(rgb1, rgb2):
    if rgb1 == rgb2:
        return 0.0
    return de_lab(lab_unclamped(rgb1)[0], lab_unclamped(rgb1)[1], lab_unclamped(rgb1)[2], lab_unclamped(rgb2)[0], lab_unclamped(rgb2)[1], lab_unclamped(rgb2)[2])
'''


def lab_policy(**kw):
    # sRGB->XYZ matrix and the Lab constants: relative 2e-4 (far below the 0.05 tolerance of the property), with the
    # CIE-exact spellings accepted: 216/24389, 841/108, 4/29; sRGB knee by 8-bit equivalence class
    p = Policy(rel=2e-4, classes={0.04045: (10 / 255, 11 / 255, True, False)},
               alternates={0.008856: [216 / 24389], 7.787: [841 / 108, 24389 / 27 / 116], 16 / 116: [4 / 29]}, **kw)
    return p


def run(project, chk):
    chk.rule("L1", "rgb_to_xyz: linearised channels times the sRGB->XYZ (D65) matrix, scaled by 100")
    chk.rule("L2", "xyz_to_lab / rgb_to_lab: D65 white point, f(t) piecewise (threshold, slope, offset), L = 116 f(y) - 16, a = 500 (f(x) - f(y)), b = 200 (f(y) - f(z))")
    chk.rule("L3", "calculate_hue_angle: atan2(b, a) in degrees, +360 when negative, 0 for the origin")
    chk.rule("L4", "calculate_delta_e_2000 is CIEDE2000 end to end (G, a', delta-h' and mean-hue branches, T, delta-theta, R_C, S_L, S_C, S_H, R_T, final root), 0.0 at once for identical inputs, all angles through radians()")
    chk.not_decided += ["numeric agreement within 0.05 with an independent implementation on all pairs / the 34 published pairs (float evaluation)",
                        "symmetry and non-negativity under float rounding; 'never raises' (sign of the radicand is numeric)"]
    chk.assumptions += ["kL = kC = kH = 1 (graphic-arts weighting is not used)"]
    V = "cm_colors.core.conversions"
    from checks._fs_common import closed_form
    closed_form(project, chk, "L1", [f"{V}.rgb_to_xyz", f"{V}.xyz_to_lab", f"{V}.rgb_to_lab", f"{V}.calculate_hue_angle", "cm_colors.core.color_metrics.calculate_delta_e_2000"], "Lab / CIEDE2000")
    audit(project, chk, "L1", f"{V}.rgb_to_xyz", REF, "xyz", lab_policy(), "sRGB -> CIE XYZ (D65)")
    audit(project, chk, "L2", f"{V}.xyz_to_lab", REF, "lab_of_xyz", lab_policy(var_map={"v": "xyz"}), "CIE XYZ -> L*a*b*", alternatives=["lab_of_xyz_unclamped"])
    audit(project, chk, "L2", f"{V}.rgb_to_lab", REF, "lab", lab_policy(), "sRGB -> L*a*b*", alternatives=["lab_unclamped"])
    audit(project, chk, "L3", f"{V}.calculate_hue_angle", REF, "hue", Policy(), "the hue angle h' in degrees")
    audit(project, chk, "L4", "cm_colors.core.color_metrics.calculate_delta_e_2000", REF, "de", lab_policy(), "CIEDE2000", alternatives=["de_unclamped"])
