"""C15 -- results are pure functions of the arguments (effect analysis, whole package)."""
from __future__ import annotations

import ast

from sa.effects import Effects, MUTABLE_CTORS, CACHE_DECORATORS, MUTATORS, is_containerish
from sa.loader import norm_text, AnalysisError
from sa.resolve import Scope, own_nodes

LEVEL = "other"
EXPLANATION = (
    "Static effect analysis over every function of the package (stdlib ast, nothing executed): no write to "
    "module/class/function-object state, no memoisation, no mutable default that is mutated or escapes, no write to "
    "self outside the constructors, no mutation of argument objects in the core, no ambient input (random/time/"
    "environment/hash order), CLI tables allocated per run / per file. With no shared mutable state and no ambient "
    "input, independence from history, bulk position and thread interleaving follows for all inputs at once; the "
    "test-suite can only sample single calls on fresh objects."
)
TRUSTED = ["stdlib ast parser of /venv/bin/python", "name resolution through the package's import tables (A2: no monkey-patching)",
           "third-party callees (tinycss2, click, rich, re, math, html, os.path) keep no result-relevant state"]

CORE_PREFIX = "cm_colors.core."
CTOR_WRITERS = {"cm_colors.core.colors.Color.__init__", "cm_colors.core.colors.Color._parse",
                "cm_colors.core.colors.ColorPair.__init__"}
OK_DECORATORS = {"builtins.property", "builtins.staticmethod", "builtins.classmethod"}
OK_DECORATOR_PREFIX = ("click.",)
IMMUTABLE_TOPLEVEL_CALLS = {"logging.getLogger", "re.compile", "builtins.frozenset", "builtins.tuple", "builtins.float", "builtins.int",
                            "builtins.str", "typing.TypeVar", "typing.NewType"}


def import_time_bad(sc, call) -> bool:
    """A call at import time that brings in ambient input, I/O or dynamic code (pure computation of constants is fine)."""
    from sa.effects import AMBIENT_PREFIXES, DYNAMIC, io_kind_of
    q = sc.resolve(call.func)
    if q is None:
        return False
    return q.startswith(AMBIENT_PREFIXES) or q in DYNAMIC or io_kind_of(q) is not None


def parent_map(tree):
    pm = {}
    for n in ast.walk(tree):
        for c in ast.iter_child_nodes(n):
            pm[c] = n
    return pm


def is_mutable_value(sc: Scope, v: ast.AST) -> bool:
    if isinstance(v, (ast.List, ast.Dict, ast.Set, ast.ListComp, ast.DictComp, ast.SetComp)):
        return True
    if isinstance(v, ast.Call):
        q = sc.resolve(v.func)
        return q in MUTABLE_CTORS
    return False


IMMUTABLE_RETURNS = ("Tuple[", "tuple[", "float", "int", "str", "bool", "Optional[Tuple[", "Optional[float]", "Optional[int]", "Optional[str]")


def transparent_memo_tables(project, eff):
    """{dotted: reason} for module-level dicts that can only ever act as a transparent cache: every write is `D[key] = value` with a key
    shown injective in all the value is computed from (sa/memo.py), the value is the result of a package function annotated to return an
    immutable type (nobody can alter a cached object in place), and D is mentioned nowhere else than in those stores and in
    `D.get(<the same key>)` / `D[<the same key>]` / `<the same key> in D` of the same function.  The result of a call is then the same
    whatever the table holds: no history or thread dependence (a racing duplicate computation stores the same value)."""
    from sa import memo as M
    writes = {}
    for q, s in eff.sum.items():
        for dotted, node in s.module_writes:
            writes.setdefault(dotted, []).append((s.fi, node))
    out = {}
    for dotted, ws in writes.items():
        short = dotted.rsplit(".", 1)[-1]
        good, keys, stores, why = True, {}, set(), ""
        for fi, node in ws:
            params = {a.arg for a in fi.node.args.posonlyargs + fi.node.args.args + fi.node.args.kwonlyargs}
            env, unpack = M._env(fi.node)
            tgt = next((t for t in getattr(node, "targets", []) if isinstance(t, ast.Subscript) and isinstance(t.value, ast.Name) and t.value.id == short), None) if isinstance(node, ast.Assign) else None
            if tgt is None:
                good = False
                break
            verdict, why = M.store_verdict(tgt.slice, node.value, env, unpack, params)
            val = M._expand(node.value, env, params)
            callee = Scope(project, fi).resolve_call(val) if isinstance(val, ast.Call) else None
            ret = project.funcs[callee].node.returns if callee in project.funcs else None
            if verdict != "ok" or ret is None or not ast.unparse(ret).startswith(IMMUTABLE_RETURNS):
                good = False
                break
            keys.setdefault(fi.qualname, set()).add(ast.dump(M._expand(tgt.slice, env, params)))
            stores.add(id(tgt.value))
        if not good:
            continue
        for fi in project.funcs.values():
            params = {a.arg for a in fi.node.args.posonlyargs + fi.node.args.args + fi.node.args.kwonlyargs}
            env, unpack = None, None
            parents = {}
            for n in ast.walk(fi.node):
                for c in ast.iter_child_nodes(n):
                    parents[id(c)] = n
            for n in ast.walk(fi.node):
                if not (isinstance(n, ast.Name) and n.id == short) and not (isinstance(n, ast.Attribute) and n.attr == short):
                    continue
                if id(n) in stores:
                    continue
                if env is None:
                    env, unpack = M._env(fi.node)
                par = parents.get(id(n))
                k = None
                if isinstance(par, ast.Attribute) and par.attr == "get" and isinstance(parents.get(id(par)), ast.Call) and len(parents[id(par)].args) == 1:
                    k = parents[id(par)].args[0]
                elif isinstance(par, ast.Subscript) and par.value is n and isinstance(par.ctx, ast.Load):
                    k = par.slice
                elif isinstance(par, ast.Compare) and len(par.ops) == 1 and isinstance(par.ops[0], (ast.In, ast.NotIn)) and par.comparators[0] is n:
                    k = par.left
                if k is None or ast.dump(M._expand(k, env, params)) not in keys.get(fi.qualname, ()):
                    good = False
        if good:
            out[dotted] = why
    return out


def run(project, chk):
    eff = Effects(project)
    chk.rule("P1", "no function rebinds (global) or mutates an object bound at module level or on a class; module-level mutable objects are never written")
    chk.rule("P2", "no mutable default argument that the body mutates, stores or returns")
    chk.rule("P3", "no memoisation: no functools cache decorators, no unknown decorators on library functions")
    chk.rule("P4", "only Color.__init__/_parse and ColorPair.__init__ write self.*; queries and make_readable write nothing on self; core functions never mutate their argument objects")
    chk.rule("P5", "no ambient input: random/time/datetime/environment/pid, hash(), id() other than as a dict key, iteration over a set")
    chk.rule("P6", "CLI: stats is allocated inside main per run, variables/rule_declarations_map inside the per-file loop body")
    chk.rule("P7", "importing any module only defines things: top-level statements are imports, defs, classes and constant assignments")
    chk.assumptions += [
        "A2: names resolve statically (no monkey-patching, importlib, exec/eval) -- dynamic constructs stop the analysis",
        "callees outside the package (math, re, html, tinycss2, rich, click) hold no state that feeds back into results",
    ]
    chk.not_decided += ["nothing numeric is involved; thread-safety is decided as 'no shared mutable state', not by exploring interleavings"]

    mutated = eff.mutated_params()

    # ---------------------------------------------------------------- P7 + module-level inventory
    module_mutables = {}   # dotted -> (module, node)
    for m in project.modules.values():
        chk.saw_module(m)
        sc = Scope(project, None, m)
        for st in m.tree.body:
            loc = project.loc(m, st)
            if isinstance(st, (ast.Import, ast.ImportFrom, ast.FunctionDef, ast.AsyncFunctionDef, ast.ClassDef)):
                continue
            if isinstance(st, ast.Expr) and isinstance(st.value, ast.Constant):
                continue  # docstring / stray string
            if isinstance(st, ast.If) and norm_text(st.test) in ("__name__ == '__main__'", '__name__ == "__main__"'):
                continue
            if isinstance(st, (ast.Assign, ast.AnnAssign)):
                v = st.value
                tgt = st.targets[0] if isinstance(st, ast.Assign) else st.target
                if v is None:
                    continue
                name = tgt.id if isinstance(tgt, ast.Name) else norm_text(tgt)
                if is_mutable_value(sc, v):
                    module_mutables[f"{m.name}.{name}"] = (m, st)
                    continue
                calls = [c for c in ast.walk(v) if isinstance(c, ast.Call)]
                bad = [c for c in calls if import_time_bad(sc, c)]
                chk.check(not bad, "P7", f"{m.name}:<module>", norm_text(st), loc,
                          f"top-level assignment {name} = ... evaluates no call other than immutable constructors",
                          how="value is a constant / typing expression / re.compile",
                          message=f"module-level statement calls {', '.join(norm_text(c.func) for c in bad)} at import time (hidden state or ambient input)")
                continue
            bad = [c for c in ast.walk(st) if isinstance(c, ast.Call) and import_time_bad(sc, c)]
            chk.check(not bad, "P7", f"{m.name}:<module>", norm_text(st).split(":")[0][:120], loc,
                      f"the top-level {type(st).__name__} statement only computes module constants (no I/O, ambient input or dynamic construct)", how="call census of the statement",
                      message=f"top-level {type(st).__name__} statement calls {', '.join(norm_text(c.func) for c in bad)} at import time")
        # class-level mutable attributes
        for cname, cdef in m.classes.items():
            for st in cdef.body:
                if isinstance(st, (ast.Assign, ast.AnnAssign)) and st.value is not None and is_mutable_value(sc, st.value):
                    tgt = st.targets[0] if isinstance(st, ast.Assign) else st.target
                    if isinstance(tgt, ast.Name):
                        module_mutables[f"{m.name}.{cname}.{tgt.id}"] = (m, st)

    # ---------------------------------------------------------------- per function
    writes_to = {}  # dotted module-level name -> [(fi, node)]
    transparent = transparent_memo_tables(project, eff)
    for q, s in sorted(eff.sum.items()):
        fi = s.fi
        m = fi.module
        chk.saw_function(fi)
        sc = s.facts.scope
        # P1
        for dotted, node in s.module_writes:
            writes_to.setdefault(dotted, []).append((fi, node))
        ok = not s.module_writes
        if ok:
            chk.ok("P1", f"{project.loc(m, fi.node)} {fi.short}", "writes no module-level / class-level object", "no global rebinding, no store or mutator call rooted at a module-level name")
        for dotted, node in s.module_writes:
            if dotted in transparent:
                chk.ok("P1", f"{project.loc(m, node)} {fi.short}", f"{dotted} is a transparent memo table: {transparent[dotted]}", "sa/memo.py: key injectivity, immutable value, lookup idiom only")
                continue
            chk.fail("P1", fi.short, norm_text(node), project.loc(m, node),
                     f"writes module-level state {dotted} (result may depend on call history / thread interleaving)")
        # class attributes written through self/cls/ClassName: self.X[...] = / self.X.append where X is class-level mutable
        for n in own_nodes(fi.node):
            tgt = None
            if isinstance(n, ast.Call) and isinstance(n.func, ast.Attribute) and n.func.attr in MUTATORS:
                tgt = n.func.value
            elif isinstance(n, (ast.Subscript, ast.Attribute)) and isinstance(n.ctx, (ast.Store, ast.Del)):
                tgt = n.value
            if isinstance(tgt, ast.Attribute) and isinstance(tgt.value, ast.Name) and tgt.value.id in ("self", "cls") and fi.cls:
                dotted = f"{m.name}.{fi.cls}.{tgt.attr}"
                if dotted in module_mutables:
                    chk.fail("P1", fi.short, norm_text(n), project.loc(m, n),
                             f"mutates class-level object {dotted} shared by all instances")
            # function attributes used as stores: f.attr = ...
            if isinstance(n, ast.Attribute) and isinstance(n.ctx, ast.Store):
                qv = sc.resolve(n.value)
                if qv and (qv in project.funcs or qv.rpartition('.')[2] in project.modules.get(qv.rpartition('.')[0], m).classes if qv.rpartition('.')[0] in project.modules else False):
                    chk.fail("P1", fi.short, norm_text(n), project.loc(m, n), f"stores state on function/class object {qv}")
        # P2
        sc_def = Scope(project, fi.parent) if fi.parent else Scope(project, None, m)
        for p, d in fi.defaults().items():
            if is_mutable_value(sc_def, d):
                sites = list(s.param_mut.get(p, []))
                escapes = []
                for n in own_nodes(fi.node):
                    if isinstance(n, ast.Return) and n.value is not None and any(isinstance(x, ast.Name) and x.id == p for x in ast.walk(n.value)):
                        escapes.append(n)
                    if isinstance(n, ast.Assign) and isinstance(n.value, ast.Name) and n.value.id == p and any(isinstance(t, ast.Attribute) for t in n.targets):
                        escapes.append(n)
                chk.check(not sites and not escapes, "P2", fi.short, f"{p}={norm_text(d)}", project.loc(m, d),
                          f"mutable default of parameter {p} is never mutated and never escapes",
                          how="no store / mutator call / return through the parameter",
                          message=f"mutable default argument {p}={norm_text(d)[:60]} is mutated or escapes at line(s) "
                                  f"{sorted({getattr(x, 'lineno', 0) for x in sites + escapes})}: state shared across calls")
        # P3
        for d in fi.node.decorator_list:
            target = d.func if isinstance(d, ast.Call) else d
            qd = sc_def.resolve(target)
            txt = norm_text(d)
            if qd in CACHE_DECORATORS or (qd is None and any(w in txt.lower() for w in ("cache", "memo"))) or (qd and any(w in qd.lower() for w in ("cache", "memo"))):
                chk.fail("P3", fi.short, "@" + txt, project.loc(m, d), f"memoisation decorator {qd or txt}: results would depend on hash-equal earlier arguments (1 == 1.0 == True) and on call history")
            elif qd in OK_DECORATORS or (qd and qd.startswith(OK_DECORATOR_PREFIX)) or (isinstance(target, ast.Attribute) and sc_def.resolve(target.value) and str(sc_def.resolve(target.value)).startswith(OK_DECORATOR_PREFIX)):
                chk.ok("P3", f"{project.loc(m, d)} {fi.short}", f"decorator @{txt} keeps no state", "property/click decorator", nontrivial=False)
            else:
                raise AnalysisError(f"{project.loc(m, d)} {fi.short}: unknown decorator @{txt}: cannot tell whether it keeps state")
        if not fi.node.decorator_list:
            chk.ok("P3", f"{project.loc(m, fi.node)} {fi.short}", "not wrapped by a caching decorator", "no decorators", nontrivial=False)
        # P4
        if fi.cls and q not in CTOR_WRITERS:
            chk.check(not s.self_writes and "self" not in mutated.get(q, ()), "P4", fi.short,
                      norm_text(s.self_writes[0]) if s.self_writes else "self mutated through a callee", project.loc(m, s.self_writes[0] if s.self_writes else fi.node),
                      f"{fi.short} writes nothing on self (directly or through callees)",
                      how="no attribute/subscript store rooted at self, no mutator call on self.*, callees' summaries empty for the receiver",
                      message="writes to the object it is called on outside the constructors: repeated calls on the same object can differ")
        if q.startswith(CORE_PREFIX):
            for p in sorted(mutated.get(q, ())):
                if p == "self":
                    continue
                sites = s.param_mut.get(p, [])
                node = sites[0] if sites else fi.node
                chk.fail("P4", fi.short, norm_text(node), project.loc(m, node),
                         f"mutates the contents of its argument {p} (caller-visible state; a later call sees a different object)")
            if not [p for p in mutated.get(q, ()) if p != "self"]:
                chk.ok("P4", f"{project.loc(m, fi.node)} {fi.short}", "mutates none of its argument objects", "param-rooted stores/mutators: none (closed over callees)")
        # P5
        for dotted, node in s.ambient:
            chk.fail("P5", fi.short, norm_text(node), project.loc(m, node), f"reads ambient input {dotted}")
        for dotted, node in s.dynamic:
            raise AnalysisError(f"{project.loc(m, node)} {fi.short}: dynamic construct {dotted}; names no longer resolve statically (A2)")
        pm = parent_map(fi.node)
        set_names = set()
        for n in own_nodes(fi.node):
            if isinstance(n, ast.Assign) and len(n.targets) == 1 and isinstance(n.targets[0], ast.Name) and is_set_expr(sc, n.value, set()):
                set_names.add(n.targets[0].id)
        for n in own_nodes(fi.node):
            if isinstance(n, ast.Call):
                qc = sc.resolve(n.func)
                if qc == "builtins.hash":
                    chk.fail("P5", fi.short, norm_text(n), project.loc(m, n), "hash() of a value: str hashes differ between interpreter processes")
                if qc == "builtins.id":
                    par = pm.get(n)

                    def as_key(x):
                        p2 = pm.get(x)
                        return (isinstance(p2, ast.Subscript) and p2.slice is x) or (isinstance(p2, ast.Compare) and p2.left is x and all(isinstance(o, (ast.In, ast.NotIn, ast.Eq, ast.NotEq)) for o in p2.ops)) \
                            or (isinstance(p2, ast.Call) and isinstance(p2.func, ast.Attribute) and p2.func.attr in ("get", "pop", "setdefault", "__contains__", "__getitem__") and p2.args and p2.args[0] is x)
                    fine = as_key(n)
                    if not fine and isinstance(par, ast.Assign) and len(par.targets) == 1 and isinstance(par.targets[0], ast.Name) and par.value is n:
                        # key = id(obj): fine when the local is itself only ever used as a key
                        kname = par.targets[0].id
                        reads = [x for x in own_nodes(fi.node) if isinstance(x, ast.Name) and x.id == kname and isinstance(x.ctx, ast.Load)]
                        fine = bool(reads) and all(as_key(x) for x in reads)
                    chk.check(fine, "P5", fi.short, norm_text(par if par is not None else n), project.loc(m, n),
                              "id() is used only as a dictionary key / membership test", how="parent is a subscript index or an `in` test",
                              message="id() of an object used as a value: depends on memory layout")
                if qc in ("builtins.list", "builtins.tuple", "builtins.iter", "builtins.enumerate", "builtins.zip", "builtins.next") or (isinstance(n.func, ast.Attribute) and n.func.attr in ("join",)):
                    for a in n.args:
                        if is_set_expr(sc, a, set_names):
                            chk.fail("P5", fi.short, norm_text(n), project.loc(m, n), "order of a set is observed: depends on the hash seed of the interpreter process")
                if qc in ("builtins.min", "builtins.max", "builtins.sorted") and any(k.arg == "key" for k in n.keywords):
                    # with a key function, ties are broken by the order in which the elements are produced
                    for a in n.args:
                        if is_set_expr(sc, a, set_names):
                            chk.fail("P5", fi.short, norm_text(n), project.loc(m, n), f"{qc.split('.')[1]}(<set>, key=...): elements with equal keys are taken in the set's iteration order, which depends on the hash seed of the interpreter process")
                if isinstance(n.func, ast.Attribute) and n.func.attr == "pop" and not n.args and is_set_expr(sc, n.func.value, set_names):
                    chk.fail("P5", fi.short, norm_text(n), project.loc(m, n), "set.pop(): which element comes out depends on the hash seed")
            iters = []
            if isinstance(n, ast.For):
                iters.append(n.iter)
            if isinstance(n, (ast.ListComp, ast.SetComp, ast.DictComp, ast.GeneratorExp)):
                iters += [g.iter for g in n.generators]
            for it in iters:
                if is_set_expr(sc, it, set_names):
                    chk.fail("P5", fi.short, norm_text(it), project.loc(m, it), "iteration over a set: order depends on the hash seed of the interpreter process")
        if not s.ambient:
            chk.ok("P5", f"{project.loc(m, fi.node)} {fi.short}", "reads no ambient input", "no call/attribute resolving to random/time/datetime/os.environ/...; no set-order or hash() dependence")

    # module-level mutable objects are never written by anyone
    for dotted, (m, st) in sorted(module_mutables.items()):
        ws = writes_to.get(dotted, [])
        if dotted in transparent:
            ws = []
        chk.check(not ws, "P1", f"{m.name}:<module>", norm_text(st)[:100], project.loc(m, st),
                  f"module/class-level mutable object {dotted} is written by no function in the package",
                  how="no function's module-write set names it", message=f"{dotted} is mutated by {[f.short for f, _ in ws]}")

    # ---------------------------------------------------------------- P6 CLI tables per run / per file
    main = project.func("cm_colors.cli.main.main")
    m = main.module
    floop = None
    for n in own_nodes(main.node):
        if isinstance(n, ast.For) and any(isinstance(c, ast.Call) and isinstance(c.func, ast.Name) and c.func.id == "open" for c in ast.walk(n)):
            floop = n
            break
    if floop is None:
        raise AnalysisError("cli.main.main: per-file loop (a for loop that opens files) not found")
    # what is passed as stats/variables to process_nodes_recursive
    pnr = project.func("cm_colors.cli.main.process_nodes_recursive")
    from sa.resolve import bind_args
    sc = Scope(project, main)
    calls = [c for c in own_nodes(main.node) if isinstance(c, ast.Call) and sc.resolve_call(c) == pnr.qualname]
    chk.floor("calls of process_nodes_recursive in main", len(calls), 1)
    for c in calls:
        chk.analysed["call_sites"] += 1
        b = bind_args(pnr, c)
        for pname, where in (("stats", "main"), ("variables", "loop")):
            a = b.get(pname)
            if not isinstance(a, ast.Name):
                chk.fail("P6", main.short, norm_text(c), project.loc(m, c), f"argument {pname} of process_nodes_recursive is not a local table of main")
                continue
            defs = [n for n in own_nodes(main.node) if isinstance(n, ast.Assign) and any(isinstance(t, ast.Name) and t.id == a.id for t in n.targets)]
            in_loop = [d for d in defs if any(d is x for x in ast.walk(floop))]
            fresh = [d for d in defs if isinstance(d.value, (ast.Dict, ast.List)) or (isinstance(d.value, ast.Call) and sc.resolve(d.value.func) in MUTABLE_CTORS)]
            if where == "main":
                chk.check(bool(defs) and len(fresh) == len(defs), "P6", main.short, f"{a.id} (stats table)", project.loc(m, defs[0] if defs else c),
                          f"{a.id} passed as stats is a fresh dict created inside main on every run",
                          how=f"{len(defs)} local definition(s), all fresh displays", message=f"{a.id} is not allocated per run inside main")
            else:
                chk.check(bool(defs) and len(in_loop) == len(defs) and len(fresh) == len(defs), "P6", main.short, f"{a.id} (custom-property table)", project.loc(m, defs[0] if defs else c),
                          f"{a.id} passed as variables is a fresh dict created inside the per-file loop body",
                          how=f"{len(in_loop)} definition(s), all inside `for {norm_text(floop.target)} in {norm_text(floop.iter)}`",
                          message=f"custom-property table {a.id} is allocated outside the per-file loop: definitions leak from one stylesheet into the next")
    # P8: position in a bulk list
    chk.rule("P8", "make_readable_bulk: an entry's result does not depend on its position: no value defined while processing one entry is read while processing a later one")
    from checks._loops import carried_definitions
    bulk = project.func("cm_colors.core.cm_colors.make_readable_bulk")
    chk.saw_function(bulk)
    car = carried_definitions(bulk)
    if car is None:
        raise AnalysisError("make_readable_bulk: loop over the pairs parameter not found")
    for node, name, d in car:
        chk.fail("P8", bulk.short, norm_text(d.ast if d.kind != "bind" else d.ast.target), project.loc(bulk.module, d.ast),
                 f"{name} defined at line {d.lineno} while processing one entry is read at line {node.lineno} while processing a later one: the result depends on the entry's position in the list")
    from checks._loops import leaked_definitions
    leak = leaked_definitions(bulk) or []
    for node, name, d in leak:
        chk.fail("P8", bulk.short, f"{name} read after the entry loop", project.loc(bulk.module, node.ast if node.ast is not None else bulk.node),
                 f"{name}, assigned per entry at line {d.lineno}, is read at line {node.lineno} after the entry loop has finished: there it holds the last entry's value, so an entry's result depends on which entry comes last")
    if not car and not leak:
        chk.ok("P8", f"{project.loc(bulk.module, bulk.node)} {bulk.short}", "no definition made for one entry reaches a read for a later entry", "reaching definitions tagged across the back edge of the entry loop")
    # mutable default table of process_nodes_recursive must be the None-sentinel idiom
    chk.floor("functions analysed", len(chk.analysed["functions"]), 60)


def is_set_expr(sc, e, set_names) -> bool:
    if isinstance(e, (ast.Set, ast.SetComp)):
        return True
    if isinstance(e, ast.Call):
        q = sc.resolve(e.func)
        if q in ("builtins.set", "builtins.frozenset"):
            return True
        if isinstance(e.func, ast.Attribute) and e.func.attr in ("union", "intersection", "difference", "symmetric_difference", "keys") and is_set_expr(sc, e.func.value, set_names) and e.func.attr != "keys":
            return True
    if isinstance(e, ast.Name) and e.id in set_names:
        return True
    if isinstance(e, ast.BinOp) and isinstance(e.op, (ast.BitOr, ast.BitAnd, ast.Sub, ast.BitXor)):
        return is_set_expr(sc, e.left, set_names) or is_set_expr(sc, e.right, set_names)
    return False


_run_own = run


def run(project, chk):      # noqa: F811
    from checks._borrow import borrow
    borrow(project, chk, "C12", {"B1"}, "P9", "'the same at any position in a bulk list': every entry gets its result, the entry loop is never left early because of an earlier entry (C12's path rule)")
    _run_own(project, chk)
