"""C05 -- luminance, contrast ratio and readability labels are exactly WCAG 2."""
from __future__ import annotations

import ast

from sa.formula import Policy, extract_function, inline_calls, project_resolver, transform, rebuild_node, show, Unsupported
from sa.loader import AnalysisError, norm_text
from sa.resolve import Scope
from checks._fs_common import audit

LEVEL = "other"
EXPLANATION = (
    "Formula-shape and constant audit: each function is reduced to a closed-form expression over its inputs (temporaries and package "
    "helpers inlined, if/elif chains as conditionals, constant sub-expressions folded, commutative operands aligned) and compared with "
    "the WCAG 2 definition written out in the checker: sRGB linearisation (two-piece curve, knee compared by 8-bit equivalence class), "
    "luminance weights bound to the right channels, (max + 0.05) / (min + 0.05) -- hence symmetric and >= 1 by shape --, the level table "
    "with inclusive thresholds per text size, get_wcag_level as their composition, and the label mapping evaluated over the closed set "
    "of levels. A weight wrong in the fourth decimal, a permuted channel, a non-inclusive comparison or a swapped threshold is a "
    "mismatch at a named position; float rounding is not decided."
)
TRUSTED = ["stdlib ast", "reference formulas in checks/C05.py transcribe WCAG 2.x (relative luminance, contrast ratio, 1.4.3 / 1.4.6 thresholds)",
           "math.pow / ** / max / min have their Python semantics"]

REF = '''
def lin(c):
    if c <= 0.04045:
        return c / 12.92
    else:
        return ((c + 0.055) / 1.055) ** 2.4

def lum(rgb):
    return 0.2126 * lin(rgb[0] / 255) + 0.7152 * lin(rgb[1] / 255) + 0.0722 * lin(rgb[2] / 255)

def ratio(a, b):
    return (max(lum(a), lum(b)) + 0.05) / (min(lum(a), lum(b)) + 0.05)

def level(r, large):
    if large:
        if r >= 4.5:
            return "AAA"
        elif r >= 3.0:
            return "AA"
        else:
            return "FAIL"
    else:
        if r >= 7.0:
            return "AAA"
        elif r >= 4.5:
            return "AA"
        else:
            return "FAIL"

def wcag(a, b, large):
    return level(ratio(a, b), large)
'''

LABELS = {"AAA": "Very Readable", "AA": "Readable", "FAIL": "Not Readable"}
LABEL_REF = '''
def label(lvl):
    if lvl == "AAA":
        return "Very Readable"
    elif lvl == "AA":
        return "Readable"
    else:
        return "Not Readable"

def readable(self):
    return label(level(ratio(self.text.rgb, self.bg.rgb), self.large))
'''


def knee_policy(**kw):
    # any knee t with 10/255 <= t < 11/255 under <= (or 10/255 < t <= 11/255 under <) sends the same 8-bit inputs to the same branch:
    # WCAG's 0.03928 and IEC's 0.04045 are both accepted
    p = Policy(classes={0.04045: (10 / 255, 11 / 255, True, False)}, **kw)

    def cmp_equiv(code_op, ref_op, cv, rv):
        if rv == 0.04045 and ref_op == "<=" and code_op == "<":
            return 10 / 255 < cv <= 11 / 255
        return False
    p.cmp_equiv = cmp_equiv
    return p


def ratio_is_wcag(project, chk, r1="F1", r2="F2", r3="F3"):
    """The contrast function is the WCAG 2 ratio (also used by C01/C02 as their discharged assumption)."""
    C = "cm_colors.core.contrast"
    V = "cm_colors.core.conversions"
    audit(project, chk, r1, f"{V}.srgb_to_linear", REF, "lin", knee_policy(var_map={"c": "channel"}), "the sRGB transfer function")
    audit(project, chk, r2, f"{C}.calculate_relative_luminance", REF, "lum", knee_policy(), "WCAG relative luminance")
    audit(project, chk, r3, f"{C}.calculate_contrast_ratio", REF, "ratio", knee_policy(var_map={"a": "text_rgb", "b": "bg_rgb"}), "the WCAG contrast ratio")


def run(project, chk):
    chk.rule("F1", "srgb_to_linear is the sRGB two-piece curve: c/12.92 below the knee, ((c+0.055)/1.055)^2.4 above")
    chk.rule("F2", "calculate_relative_luminance = 0.2126 lin(R/255) + 0.7152 lin(G/255) + 0.0722 lin(B/255), each weight bound to its channel")
    chk.rule("F3", "calculate_contrast_ratio = (max(L1, L2) + 0.05) / (min(L1, L2) + 0.05): symmetric and >= 1 by shape")
    chk.rule("F4", "get_contrast_level: large: >=4.5 AAA, >=3.0 AA; normal: >=7.0 AAA, >=4.5 AA; else FAIL; all inclusive; get_wcag_level composes it with the ratio, forwarding large")
    chk.rule("F5", "ColorPair.is_readable maps AAA -> 'Very Readable', AA -> 'Readable', FAIL -> 'Not Readable' and judges (self.text.rgb, self.bg.rgb, self.large)")
    chk.assumptions += ["8-bit inputs: the knee of the transfer function is compared by the set of 8-bit values it sends to each branch"]
    chk.not_decided += ["bit-exact agreement of float results with another implementation on all 2^24 colours (evaluation order / rounding)",
                        "'21 only for black on white' (a numeric statement about the luminance range)"]
    C = "cm_colors.core.contrast"
    V = "cm_colors.core.conversions"
    ratio_is_wcag(project, chk, "F1", "F2", "F3")
    audit(project, chk, "F4", f"{C}.get_contrast_level", REF, "level", Policy(var_map={"r": "contrast_ratio"}), "the WCAG level thresholds", inline=False)
    audit(project, chk, "F4", f"{C}.get_wcag_level", REF, "wcag", knee_policy(var_map={"a": "text_rgb", "b": "bg_rgb"}), "level(ratio(text, bg), large)")

    # F5: is_readable == label(level(ratio(self.text.rgb, self.bg.rgb), self.large)) for a valid pair: the closed form (package
    # helpers and the class's own properties inlined, the ratio kept symbolic -- it is F3's subject) against the definition
    from sa.formula import inline_self_properties, specialise
    fi = project.func("cm_colors.core.colors.ColorPair.is_readable")
    chk.saw_function(fi)
    RATIO_Q = f"{C}.calculate_contrast_ratio"
    try:
        ex, env, ret = extract_function(project, fi)
        ret = inline_self_properties(ret, project, fi)
        code = inline_calls(ret, project_resolver(project, exclude=(RATIO_Q,)))
        code = inline_self_properties(code, project, fi)
    except Unsupported as e:
        raise AnalysisError(f"ANALYSIS-INCONCLUSIVE {fi.short}: not readable ({e})")

    def valid_pair(n):
        # the property speaks of valid pairs: every is_valid test is true, _rgb and rgb denote the same triple
        if n[0] == "attr" and n[2] == "is_valid":
            return ("lit", True)
        if n[0] == "attr" and n[2] == "_rgb":
            return ("attr", n[1], "rgb")
        return n
    code = specialise(code, valid_pair)
    audit(project, chk, "F5", "cm_colors.core.colors.ColorPair.is_readable", REF + LABEL_REF, "readable", Policy(), "the readability label of a valid pair",
          code_expr=code, inline=False, call_map={"ratio": RATIO_Q})

    # F6: the status strings of the bulk API are is_readable of the colour that is *returned* (C12's B3/B4, here as a discharged assumption)
    from checks._borrow import borrow
    borrow(project, chk, "C12", {"B3", "B4"}, "F6", "make_readable_bulk's status is is_readable.lower() of ColorPair(returned colour, the entry's background, the entry's size) (the status rule of C12, discharged here)",
           only=lambda f: "status" in f.message or "label" in f.message)
    # ... and of this entry's own size: a name handed to ColorPair(...) must not be carried over from an earlier entry (C12's B2)
    import ast as _ast
    fb = project.func("cm_colors.core.cm_colors.make_readable_bulk")
    pair_args = {x.id for c in _ast.walk(fb.node) if isinstance(c, _ast.Call) and isinstance(c.func, _ast.Name) and c.func.id == "ColorPair"
                 for a in list(c.args) + [k.value for k in c.keywords] for x in _ast.walk(a) if isinstance(x, _ast.Name)}
    borrow(project, chk, "C12", {"B2"}, "F7", "the size and colours a bulk entry is labelled with are its own: nothing handed to ColorPair(...) is carried over from an earlier entry (the loop-carried rule of C12, restricted to ColorPair's arguments)",
           only=lambda f: f.message.split(" ", 1)[0] in pair_args)
