"""C09 -- CLI: input files are never touched and the rest of the stylesheet is preserved (structural clauses)."""
from __future__ import annotations

import ast

from sa.cfg import build_cfg, node_exprs
from sa.guards import guard_states
from sa.effects import Effects, MUTATORS
from sa.loader import AnalysisError, norm_text
from sa.resolve import Scope, own_nodes, bind_args, call_sites
from sa.wire import Origins, show as oshow
from checks.C18 import find_file_loop, concat_parts, const_str, inline_locals

LEVEL = "other"
EXPLANATION = (
    "Effect and wiring rules over cli/main.py and cli/html_report.py: (Q1) the complete set of file-system effects reachable from the "
    "command is two open(..., 'w') -- the sibling <stem>_cm<suffix> (a name with a non-empty literal between stem and suffix, hence "
    "different from every input path) and the report, whose name is a constant that does not end in .css -- plus read-only opens of the "
    "inputs; no delete/rename/copy/mkdir primitive is reachable; (Q2) every tinycss2 parse whose result is re-serialised keeps "
    "whitespace and comments, and the lossy collect_variables stays unreachable; (Q3) the only store into a declaration is "
    "update_decl_value's `.value`, `.content` is only ever assigned parse_component_value_list(serialize(<the list parsed from that "
    "same node>)), nothing assigns prelude / names / at-keywords, and the parsed lists are serialised unfiltered and unreordered; "
    "(Q4) what is written to the output is serialize(<the rules parsed from this file's text>). That tinycss2's serialise-after-parse "
    "is the identity on untouched tokens is a property of the dependency and is not decided."
)
TRUSTED = ["stdlib ast", "I/O primitive table of sa/effects.py", "tinycss2: skip_whitespace=False/skip_comments=False keeps those tokens; serialize(parse(x)) preserves untouched tokens (A4)"]

CLI = "cm_colors.cli.main"
PARSERS = {"tinycss2.parse_stylesheet", "tinycss2.parse_declaration_list", "tinycss2.parse_rule_list", "tinycss2.parse_blocks_contents", "tinycss2.parse_stylesheet_bytes",
           "tinycss2.parser.parse_stylesheet", "tinycss2.parser.parse_declaration_list", "tinycss2.parser.parse_rule_list", "tinycss2.parser.parse_blocks_contents"}
PCVL = {"tinycss2.parse_component_value_list", "tinycss2.parser.parse_component_value_list"}
SERIALIZE = {"tinycss2.serialize", "tinycss2.serializer.serialize"}
FROZEN_ATTRS = {"prelude", "name", "lower_name", "at_keyword", "lower_at_keyword", "important", "type", "source_line", "source_column"}


def snapshot_fills_ok(project, fi) -> bool:
    """Every `map[id(x)] = V` in fi stores the lossless parse of x.content."""
    cfg = build_cfg(fi.node)
    org = Origins(project, fi, cfg)
    sc = Scope(project, fi)
    fills = []
    for n2 in cfg.nodes:
        b2 = n2.ast
        if n2.kind == "stmt" and isinstance(b2, ast.Assign) and isinstance(b2.targets[0], ast.Subscript) and isinstance(b2.targets[0].slice, ast.Call) and sc.resolve(b2.targets[0].slice.func) == "builtins.id":
            vo = org.of(n2.id, b2.value)
            ko = org.of(n2.id, b2.targets[0].slice.args[0])
            fills.append(vo[0] == "call" and vo[1] in PARSERS and bool(vo[2]) and vo[2][0] == ("attr", ko, "content"))
    return bool(fills) and all(fills)


def list_source_ok(project, fi, L, tgt, reach) -> bool:
    """L is the list parsed (losslessly) from tgt.content, directly or through an id()-keyed snapshot map."""
    if L[0] == "call" and L[1] in PARSERS and L[2] and L[2][0] == ("attr", tgt, "content"):
        return True
    # snapshot lookup by the identity of the same node: map[id(tgt)] / map.get(id(tgt))
    key = None
    holder = None
    if L[0] == "index" and L[2][0] == "call" and L[2][1] == "builtins.id" and L[2][2] == (tgt,):
        key, holder = L[2], L[1]
    elif L[0] == "call" and L[1] == ".get" and L[4] is not None and L[2] and L[2][0][0] == "call" and L[2][0][1] == "builtins.id" and L[2][0][2] == (tgt,):
        key, holder = L[2][0], L[4]
    if key is None:
        return False
    if holder[0] == "param":
        # the map is handed in: every reachable caller passes a map filled only with lossless parses (or forwards its own parameter)
        ok = True
        n = 0
        for (cfi, cm, call) in call_sites(project, fi.qualname):
            if cfi is None or cfi.qualname not in reach:
                continue
            try:
                b = bind_args(fi, call)
            except ValueError:
                return False
            a = b.get(holder[1])
            if a is None:
                continue       # omitted: None -> the lookup branch is not taken
            n += 1
            if cfi.qualname == fi.qualname and isinstance(a, ast.Name) and a.id == holder[1]:
                continue       # recursion forwards the same map
            ok = ok and isinstance(a, ast.Name) and snapshot_fills_ok(project, cfi)
        return ok and n > 0
    # a local map
    return snapshot_fills_ok(project, fi)


def flag_false(call, name):
    for kw in call.keywords:
        if kw.arg == name:
            return isinstance(kw.value, ast.Constant) and kw.value.value is False
    return False


def run(project, chk):
    chk.rule("Q1", "file effects reachable from the command: only open(<stem>_cm<suffix>, 'w'), open(<constant non-.css report name>, 'w') and read-only opens; nothing deletes, renames, copies or creates anything else")
    chk.rule("Q2", "every tinycss2 parse feeding re-serialisation has skip_whitespace=False and skip_comments=False; the comment-dropping helper is unreachable")
    chk.rule("Q3", "only update_decl_value stores into a declaration (.value); .content is only assigned parse_component_value_list(serialize(<list parsed from that node>)); prelude/name/at-keyword are never assigned; parsed lists are serialised unfiltered, unreordered")
    chk.rule("Q4", "the output file receives serialize(rules) where rules is the parse of this file's own text")
    chk.not_decided += ["that tinycss2's serialize(parse(x)) is the identity on untouched tokens (dependency behaviour at run time)", "byte-level equality of untouched regions; 'valid CSS' of the output"]
    eff = Effects(project)
    main = project.func(f"{CLI}.main")
    m = main.module
    reach = eff.reach(main.qualname)
    for q in sorted(reach):
        chk.saw_function(project.funcs[q])

    # ---------------------------------------------------------------- Q1
    # conditional I/O: a file write inside a callee whose enabling flag is constant False at every call chain
    # from the command (make_readable's save_report report) cannot happen and is not a file effect of the CLI
    from checks.C17 import CondIO
    cond = CondIO(project, eff)
    live = set()
    for (_n, kind, _c, what, alts) in cond.requirements(main.qualname):
        if kind == "file" and alts:
            chain = what.split(" -> ")
            live.add(chain[-2] if len(chain) > 1 else main.qualname)
    files = [(fq, s) for fq, s in eff.io_reach(main.qualname) if s.kind == "file" and fq in live]
    dead = [(fq, s) for fq, s in eff.io_reach(main.qualname) if s.kind == "file" and fq not in live]
    for fq, s in dead:
        f2 = project.funcs[fq]
        chk.ok("Q1", f"{project.loc(f2.module, s.node)} {f2.short}", f"{norm_text(s.node)[:60]} cannot execute from the command", "its enabling flag (save_report) is constant False on every call chain from main (conditional I/O summary)")
    writes, reads, others = [], [], []
    for fq, s in files:
        if s.what == "builtins.open":
            if s.mode is not None and set(s.mode) <= set("rbt") and "r" in s.mode:
                reads.append((fq, s))
            else:
                writes.append((fq, s))
        else:
            others.append((fq, s))
    for fq, s in others:
        f2 = project.funcs[fq]
        chk.fail("Q1", f2.short, norm_text(s.node), project.loc(f2.module, s.node), f"file-system effect {s.what} reachable from the command: something besides <name>_cm.css and the report is created, changed or removed")
    floop = find_file_loop(main)
    loop_var = floop.target.id
    sc = Scope(project, main)
    # options added after the pinned tree that are off by default: what runs only under them is outside the property's settings
    from checks._cli import new_default_off_options, runs_only_with_new_option
    from sa.wire import Origins as _Org
    new_opts = new_default_off_options(project, main)
    mcfg = build_cfg(main.node)
    mG = guard_states(mcfg)
    morg = _Org(project, main, mcfg)

    def main_node_of(a):
        try:
            return morg.node_for(a).id
        except KeyError:
            return None

    n_w = 0
    for fq, s in writes:
        f2 = project.funcs[fq]
        loc = project.loc(f2.module, s.node)
        if fq == main.qualname and new_opts:
            nid = main_node_of(s.node)
            opt = runs_only_with_new_option(mG, nid, new_opts) if nid is not None else None
            if opt is not None:
                chk.ok("Q1", f"{loc} {f2.short}", f"{norm_text(s.node)[:60]} runs only when the new option `{opt}` is given (off by default; not one of the settings the property quantifies over)", "control dependence on a parameter of main that the pinned command does not have")
                continue
        n_w += 1
        if s.mode is None or not set(s.mode) <= set("wbt+x") or "w" not in s.mode and "x" not in s.mode:
            chk.fail("Q1", f2.short, norm_text(s.node), loc, f"file opened with mode {s.mode!r}: existing files can be modified in place")
            continue
        target = s.node.args[0] if s.node.args else None
        if fq == main.qualname:
            t = inline_locals(target, main)
            ok = False
            why = norm_text(t)
            fname = None
            if isinstance(t, ast.BinOp) and isinstance(t.op, ast.Div) and norm_text(t.left) == f"{loop_var}.parent":
                fname = t.right
            elif isinstance(t, ast.Call) and isinstance(t.func, ast.Attribute) and t.func.attr == "with_name" and norm_text(t.func.value) == loop_var and t.args:
                fname = t.args[0]
            if fname is not None:
                parts = concat_parts(fname)
                ok = len(parts) == 3 and parts[0] == ("expr", f"{loop_var}.stem") and parts[1][0] == "const" and len(parts[1][1]) > 0 and parts[2] == ("expr", f"{loop_var}.suffix")
            chk.check(ok, "Q1", f2.short, norm_text(s.node), loc, "the stylesheet output goes to <input dir>/<stem><non-empty literal><suffix>: a sibling whose name differs from every input's",
                      how=f"target after inlining locals: {why}", message=f"the output is written to {why}: an input file can be overwritten (or the output is not the documented sibling)")
        else:
            # a report writer: the path is a parameter; every call site reachable from main passes a constant non-.css name (or the constant default)
            ok_all = True
            detail = []
            pname = target.id if isinstance(target, ast.Name) and target.id in f2.params() else None
            if pname is None:
                ok_all = False
                detail.append(f"target {norm_text(target)} is not a parameter")
            else:
                for (cfi, cm, call) in call_sites(project, fq):
                    if cfi is None or cfi.qualname not in reach:
                        continue
                    if cfi.qualname == main.qualname and new_opts:
                        nid = main_node_of(call)
                        opt = runs_only_with_new_option(mG, nid, new_opts) if nid is not None else None
                        if opt is not None:
                            detail.append(f"{cfi.short}: (only with the new option {opt})")
                            continue
                    b = bind_args(f2, call)
                    a = b.get(pname, f2.defaults().get(pname))
                    v = const_str(a) if a is not None else None
                    detail.append(f"{cfi.short}: {v!r}")
                    if v is None or v.lower().endswith(".css") or "/" in v or "\\\\" in v or ".." in v:
                        ok_all = False
            chk.check(ok_all, "Q1", f2.short, norm_text(s.node), loc, "the report goes to a constant, relative, non-.css file name (never an input file)", how=f"path argument at the reachable call sites: {detail}",
                      message=f"the report path is not a constant relative non-.css name: {detail}")
    if not chk.findings:
        chk.floor("read-only opens reachable from main", len(reads), 1)
        chk.floor("file writes reachable from main", n_w, 2)
    if n_w < 2 and not chk.findings:
        raise AnalysisError(f"{main.short}: only {n_w} of the command's two file writes (output stylesheet, report) is reachable through the resolved call graph "
                            "(a writer handed around as a value?); the file effects are not decided")
    chk.check(n_w <= 2, "Q1", main.short, "open(..., 'w') sites", project.loc(m, main.node), "exactly two files are written per invocation pattern: <name>_cm.css per input and the report", how=f"{n_w} write sites: {[project.funcs[fq].short for fq, _ in writes]}",
              message=f"{n_w} file-write sites are reachable from the command ({[norm_text(s.node)[:50] for _, s in writes]}): something else is created")

    # ---------------------------------------------------------------- Q2
    n_parse = 0
    for q in sorted(reach):
        f2 = project.funcs[q]
        if not f2.module.name.startswith("cm_colors.cli"):
            continue
        sc2 = Scope(project, f2)
        for c in own_nodes(f2.node):
            if isinstance(c, ast.Call) and sc2.resolve(c.func) in PARSERS:
                n_parse += 1
                ok = flag_false(c, "skip_whitespace") and flag_false(c, "skip_comments")
                chk.check(ok, "Q2", f2.short, norm_text(c)[:100], project.loc(f2.module, c), f"{norm_text(c.func)} keeps whitespace and comments", how="skip_whitespace=False, skip_comments=False",
                          message=f"{norm_text(c.func)} drops whitespace/comments and its result is re-serialised into the output")
    chk.floor("tinycss2 parse calls reachable from main", n_parse, 4)
    lossy = []
    for q, f2 in project.funcs.items():
        if not f2.module.name.startswith("cm_colors.cli"):
            continue
        sc2 = Scope(project, f2)
        for c in own_nodes(f2.node):
            if isinstance(c, ast.Call) and sc2.resolve(c.func) in PARSERS and not (flag_false(c, "skip_whitespace") and flag_false(c, "skip_comments")):
                lossy.append((f2, c))
    for f2, c in lossy:
        chk.check(f2.qualname not in reach, "Q2", f2.short, norm_text(c)[:100], project.loc(f2.module, c), f"the lossy parse in {f2.name} is unreachable from the command", how="not in main's call closure",
                  message=f"the comment/whitespace-dropping parse in {f2.name} is reachable from the command")

    # ---------------------------------------------------------------- Q3
    n_content = 0
    for q in sorted(reach):
        f2 = project.funcs[q]
        if not f2.module.name.startswith("cm_colors.cli"):
            continue
        cfg = build_cfg(f2.node)
        org = Origins(project, f2, cfg)
        sc2 = Scope(project, f2)
        for node in cfg.nodes:
            a = node.ast
            if node.kind != "stmt" or not isinstance(a, (ast.Assign, ast.AugAssign, ast.Delete)):
                continue
            targets = a.targets if isinstance(a, (ast.Assign, ast.Delete)) else [a.target]
            for t in targets:
                if not isinstance(t, ast.Attribute):
                    continue
                loc = project.loc(f2.module, a)
                if t.attr in FROZEN_ATTRS:
                    chk.fail("Q3", f2.short, norm_text(a), loc, f"assigns .{t.attr} of a parsed node: selectors / names / at-rules of the stylesheet are changed")
                elif t.attr == "value":
                    ok = q == f"{CLI}.update_decl_value" and isinstance(a, ast.Assign) and isinstance(a.value, ast.Call) and sc2.resolve(a.value.func) in PCVL
                    chk.check(ok, "Q3", f2.short, norm_text(a), loc, "a declaration's value is replaced only inside update_decl_value, by the parse of the new value text", how="store census of .value",
                              message="a declaration value is written outside update_decl_value (or not from parse_component_value_list)")
                elif t.attr == "content":
                    n_content += 1
                    o = org.of(node.id, a.value) if isinstance(a, ast.Assign) else ("expr", "?")
                    # pcvl(serialize(L)) with L = parse_*(X.content, ...) of the same X, possibly through a local / an id()-keyed map
                    good = False
                    why = oshow(o)[:200]
                    if o[0] == "call" and o[1] in PCVL and len(o[2]) == 1:
                        s1 = o[2][0]
                        if s1[0] == "call" and s1[1] in SERIALIZE and len(s1[2]) == 1:
                            L = s1[2][0]
                            tgt = org.of(node.id, t.value)
                            alts = [x for x in (list(L[1]) if L[0] == "phi" else [L]) if x != ("const", None)]
                            if alts and all(list_source_ok(project, f2, x, tgt, reach) for x in alts):
                                good = True
                    chk.check(good, "Q3", f2.short, norm_text(a), loc, ".content is re-built from the unfiltered list parsed from that same node",
                              how=f"value origin: {why[:160]}", message=f".content is assigned {why[:200]}: declarations/rules other than the adjusted value can be lost, reordered or replaced")
        # parsed lists must not be mutated / filtered in place
        for c in own_nodes(f2.node):
            if isinstance(c, ast.Call) and isinstance(c.func, ast.Attribute) and c.func.attr in MUTATORS and isinstance(c.func.value, ast.Name):
                o = None
                try:
                    o = org.at(c.func.value)
                except KeyError:
                    continue
                if o[0] == "call" and o[1] in PARSERS:
                    chk.fail("Q3", f2.short, norm_text(c), project.loc(f2.module, c), f"the parsed node list is mutated in place ({c.func.attr}): rules or declarations are added, dropped or reordered")
    chk.floor(".content write-backs", n_content, 3)
    # update_decl_value call sites
    ud = project.func(f"{CLI}.update_decl_value")
    sites = [(cfi, c) for (cfi, cm, c) in call_sites(project, ud.qualname)]
    chk.floor("update_decl_value call sites", len(sites), 2)
    for cfi, c in sites:
        chk.analysed["call_sites"] += 1
        ok = cfi is not None and cfi.qualname == f"{CLI}.process_nodes_recursive"
        chk.check(ok, "Q3", cfi.short if cfi else "<module>", norm_text(c), project.loc(m, c), "declaration values are only rewritten from the rule-processing function", how="call-site census",
                  message="update_decl_value is called from outside the rule-processing function")

    # ---------------------------------------------------------------- Q4
    cfg = build_cfg(main.node)
    org = Origins(project, main, cfg)
    n_out = 0
    for node in cfg.nodes:
        for e in node_exprs(node):
            for c in ast.walk(e):
                if isinstance(c, ast.Call) and isinstance(c.func, ast.Attribute) and c.func.attr == "write" and c.args:
                    recv = org.of(node.id, c.func.value)
                    if recv[0] == "with" and recv[1][0] == "call" and recv[1][1] == "builtins.open":
                        if new_opts and runs_only_with_new_option(guard_states(cfg), node.id, new_opts) is not None:
                            continue        # written only under an option the pinned command does not have (Q1 records it)
                        n_out += 1
                        o = org.of(node.id, c.args[0])
                        ok = False
                        if o[0] == "call" and o[1] in SERIALIZE and len(o[2]) == 1:
                            r = o[2][0]
                            if r[0] == "call" and r[1] in PARSERS and r[2]:
                                src = r[2][0]
                                ok = src[0] == "call" and src[1] == ".read" and src[4] is not None and src[4][0] == "with" and src[4][1][0] == "call" and src[4][1][1] == "builtins.open" and src[4][1][2] and src[4][1][2][0] == ("elem", org.of(cfg.loops[0]["iter"], floop.iter) if False else src[4][1][2][0][1]) and src[4][1][2][0][0] == "elem"
                                if not ok and src[0] == "call" and src[1] == ".read" and src[4] is not None and src[4][0] == "call" and src[4][1] == "builtins.open" and src[4][2] and src[4][2][0][0] == "elem" \
                                        and len(src[4][2]) > 1 and src[4][2][1][0] == "const" and isinstance(src[4][2][1][1], str) and set(src[4][2][1][1]) <= set("rbt"):
                                    ok = True       # open(<this input file>, "r").read()  (Path.read_text)
                        chk.check(ok, "Q4", main.short, norm_text(c), project.loc(m, c), "the output is serialize(parse_stylesheet(<text read from this input file>))", how=f"origin: {oshow(o)[:160]}",
                                  message=f"what is written is {oshow(o)[:200]}, not the serialisation of this file's own parsed rules")
    chk.floor("output write sites in main", n_out, 1)

    descent_and_discovery(project, chk)


GROUP_RULES = {"media", "supports", "layer", "container", "document", "-moz-document", "scope", "starting-style"}


def descent_and_discovery(project, chk):
    chk.rule("Q5", "an at-rule's block is re-parsed as a list of rules (and written back) only when the at-rule is one whose block *is* a list of rules "
                   "(@media / @supports ...): @font-face, @page, @keyframes and unknown at-rules pass through as parsed")
    pnr = project.func(f"{CLI}.process_nodes_recursive")
    cfg = build_cfg(pnr.node)
    G = guard_states(cfg)
    sc = Scope(project, pnr)
    from sa.guards import common_literals
    n = 0
    for node in cfg.nodes:
        for e in node_exprs(node):
            for c in ast.walk(e):
                if not (isinstance(c, ast.Call) and (sc.resolve_call(c) or "").endswith("parse_rule_list") and c.args):
                    continue
                a = c.args[0]
                if not (isinstance(a, ast.Attribute) and a.attr == "content"):
                    continue
                n += 1
                owner = norm_text(a.value)
                good = None
                lits = common_literals(G.get(node.id))
                for (t, v) in lits:
                    try:
                        te = ast.parse(t, mode="eval").body
                    except SyntaxError:
                        continue
                    if not (isinstance(te, ast.Compare) and len(te.ops) == 1):
                        continue
                    left = norm_text(te.left)
                    if not (left.startswith(owner + ".") and "at_keyword" in left):
                        continue
                    op, rhs = te.ops[0], te.comparators[0]
                    pos = (isinstance(op, (ast.In, ast.Eq)) and v) or (isinstance(op, (ast.NotIn, ast.NotEq)) and not v)
                    if not pos:
                        continue
                    vals = [rhs] if isinstance(rhs, ast.Constant) else list(getattr(rhs, "elts", []) or [])
                    if isinstance(rhs, ast.Name):
                        mv = pnr.module.top_assigns.get(rhs.id)
                        if isinstance(mv, ast.Call) and mv.args and not mv.keywords and norm_text(mv.func) in ("frozenset", "set", "tuple"):
                            mv = mv.args[0]
                        vals = list(getattr(mv, "elts", []) or []) if mv is not None else []
                    names = {x.value for x in vals if isinstance(x, ast.Constant) and isinstance(x.value, str)}
                    if names and len(names) == len(vals):
                        good = names
                ok = good is not None and good <= GROUP_RULES
                chk.check(ok, "Q5", pnr.short, norm_text(c), project.loc(pnr.module, c), f"{owner}.content is re-parsed as rules only under a test that {owner} is a conditional group rule",
                          how=f"guard on every path: at-keyword in {sorted(good) if good else None}",
                          message=(f"{owner}.content is parsed as a list of rules and written back for at-rules other than conditional group rules "
                                   f"({'guard admits ' + str(sorted(good - GROUP_RULES)) if good else 'no at-keyword test dominates the call'}): the declarations of @font-face / @page / @keyframes blocks are re-parsed as rules and rewritten"))
    chk.floor("re-parses of an at-rule's content as rules", n, 1)

    from checks._borrow import borrow
    borrow(project, chk, "C18", {"I3"}, "Q6", "directory discovery never yields the command's own outputs: otherwise a second run writes <name>_cm_cm.css next to the inputs (something besides <name>_cm.css is created)",
           only=lambda f: "own outputs" in f.message)
