"""C12 -- the bulk API is exactly a map of the single-pair API, in order."""
from __future__ import annotations

import ast

from sa.cfg import build_cfg, node_exprs
from sa.dataflow import solve
from sa.defuse import loads
from sa.effects import MUTATORS
from sa.guards import guard_states, node_stores, common_literals
from sa.loader import AnalysisError, norm_text
from sa.resolve import Scope, own_nodes
from sa.wire import Origins, show

LEVEL = "other"
EXPLANATION = (
    "Path, loop-carried-dependence and value-flow rules over make_readable_bulk: exactly one results.append on every path through "
    "an iteration (so one result per entry, in order; results is append-only); nothing the body reads is carried over from an "
    "earlier iteration; the pair is built from the entry's own (text, bg, large-or-False); make_readable is called on that pair "
    "with the bulk call's mode / very_readable unchanged and without show/save_report; the appended colour is the first component "
    "of that call and the status is is_readable.lower() of a new pair built from (that colour, the same bg, the same large); the "
    "invalid branch appends (text, constant non-readable status) and continues. These shapes make the bulk result the map of the "
    "single-pair result for every list, position and mix of entries."
)
TRUSTED = ["stdlib ast", "reaching-definition value flow (sa/wire.py)", "ColorPair.is_readable's label mapping is checked under C05; make_readable itself under C01/C06"]

BULK = "cm_colors.core.cm_colors.make_readable_bulk"
CP = "cm_colors.core.colors.ColorPair"
MR = "cm_colors.core.colors.ColorPair.make_readable"
READABLE = {"readable", "very readable"}


def run(project, chk):
    chk.rule("B1", "on every path through one iteration of the entry loop exactly one results.append executes; results is initialised empty, only ever appended to, and returned as is")
    chk.rule("B2", "no loop-carried dependence: nothing defined in one iteration is read in a later one; accumulators are never read in the body")
    chk.rule("B3", "value flow: ColorPair(entry[0], entry[1], entry[2] or False); make_readable(mode=mode, very_readable=very_readable) on that pair with no show/save_report; appended = (call[0], ColorPair(call[0], same bg, same large).is_readable.lower())")
    chk.rule("B4", "an append whose colour is not the tuned one is under `not pair.is_valid` (constant non-readable status, then continue) or under a falsy tuned colour")
    chk.not_decided += ["nothing numeric is involved; the correctness of make_readable / is_readable themselves is C01/C05/C06"]
    chk.assumptions += ["an entry is a 2- or 3-element sequence (the property's domain); len(item) == 3 selects the 3-unpack"]

    fi = project.func(BULK)
    m = fi.module
    cfg = build_cfg(fi.node)
    chk.saw_function(fi, cfg)
    sc = Scope(project, fi)
    org = Origins(project, fi, cfg)
    G = guard_states(cfg)

    # defaults: a bulk call without settings is the map of single calls without settings
    chk.rule("B5", "make_readable_bulk's defaults for mode / very_readable equal ColorPair.make_readable's")
    mfi = project.func(MR)
    for pn in ("mode", "very_readable"):
        a, b = fi.defaults().get(pn), mfi.defaults().get(pn)
        ok5 = isinstance(a, ast.Constant) and isinstance(b, ast.Constant) and a.value == b.value and type(a.value) is type(b.value)
        chk.check(ok5, "B5", fi.short, f"{pn}={norm_text(a) if a is not None else '?'}", project.loc(m, a if a is not None else fi.node), f"default {pn} is the same in the bulk and the single-pair API", how=f"{norm_text(a) if a is not None else None} == {norm_text(b) if b is not None else None}", nontrivial=False,
                  message=f"bulk default {pn}={norm_text(a) if a is not None else None} differs from make_readable's {norm_text(b) if b is not None else None}: a plain bulk call is not the map of plain single calls")

    # the results accumulator = what the function returns
    rets = [n for n in cfg.nodes if n.kind == "return"]
    if len(rets) != 1 or not isinstance(rets[0].ast.value, ast.Name):
        raise AnalysisError("make_readable_bulk: expected a single `return <name>`")
    acc = rets[0].ast.value.id
    # the entry loop: the for loop iterating (an enumeration of) the first parameter
    pairs_param = fi.params()[0]
    loop = None
    for lp in cfg.loops:
        if lp["kind"] == "for" and any(isinstance(n, ast.Name) and n.id == pairs_param for n in ast.walk(lp["stmt"].iter)):
            loop = lp
    if loop is None:
        raise AnalysisError("make_readable_bulk: loop over the pairs parameter not found")
    it = loop["stmt"].iter
    it_ok = (isinstance(it, ast.Name) and it.id == pairs_param) or (isinstance(it, ast.Call) and sc.resolve(it.func) == "builtins.enumerate" and 1 <= len(it.args) <= 2 and isinstance(it.args[0], ast.Name) and it.args[0].id == pairs_param
                                                                        and all(k.arg == "start" for k in it.keywords))      # a start offset renumbers the entries, it does not reorder them
    chk.check(it_ok, "B1", fi.short, norm_text(it), project.loc(m, it), "the loop visits the entries of pairs once each, in order",
              how=f"iterable is {norm_text(it)}", message=f"the entry loop iterates {norm_text(it)}: entries are reordered, skipped or repeated")
    body_ids = set(loop["body"])

    def is_append(call):
        return isinstance(call, ast.Call) and isinstance(call.func, ast.Attribute) and isinstance(call.func.value, ast.Name) and call.func.value.id == acc and call.func.attr == "append"

    append_nodes = {}
    for node in cfg.nodes:
        for e in node_exprs(node):
            for c in ast.walk(e):
                if is_append(c):
                    append_nodes.setdefault(node.id, []).append(c)
    chk.floor("results.append sites", sum(len(v) for v in append_nodes.values()), 2)

    # ---------------------------------------------------------------- B1 counting
    def transfer(node, state):
        k = len(append_nodes.get(node.id, ()))
        if node.id == loop["bind"]:
            return frozenset({0})
        if k:
            return frozenset(min(c + k, 3) for c in state)
        return state

    IN, _ = solve(cfg, frozenset({0}), transfer, lambda n, l, s: None if l == "exc" else s,
                  lambda n, inc: frozenset().union(*[s for _, _, s in inc]))
    at_next = IN.get(loop["next"])
    chk.check(at_next == frozenset({1}), "B1", fi.short, f"for ... in {norm_text(it)}: ... {acc}.append(...)", project.loc(m, loop["stmt"]),
              f"every path through one iteration appends to {acc} exactly once", how=f"may-set of append counts at the loop's back edge: {sorted(at_next or [])}",
              message=f"some path through an iteration appends {sorted(at_next or [])} times to {acc}: entries are dropped or duplicated, results shift position")
    leaves = []
    for nid in sorted(body_ids):
        for (d, lab) in cfg.succ[nid]:
            if lab == "exc":
                continue
            if d not in body_ids and not (nid == loop["next"] and lab == "exhausted"):
                leaves.append(cfg.nodes[nid])
    chk.check(not leaves, "B1", fi.short, norm_text(leaves[0].ast) if leaves else "", project.loc(m, leaves[0].ast) if leaves else project.loc(m, loop["stmt"]),
              "the entry loop is left only by exhausting the entries (no break/return inside)", how="no CFG edge from a body node to outside the loop except the exhausted edge",
              message="the entry loop can be left early: later entries get no result")
    outside = [nid for nid in append_nodes if nid not in body_ids]
    chk.check(not outside, "B1", fi.short, norm_text(append_nodes[outside[0]][0]) if outside else "", project.loc(m, cfg.nodes[outside[0]].ast) if outside else project.loc(m, fi.node),
              f"{acc} is appended to only inside the entry loop", how="all append sites are loop-body nodes", message=f"{acc} receives an element outside the entry loop")
    # uses of the accumulator
    bad = []
    init_ok = False
    for n in own_nodes(fi.node):
        if isinstance(n, ast.Name) and n.id == acc:
            par = None
            for cand in own_nodes(fi.node):
                if any(ch is n for ch in ast.iter_child_nodes(cand)):
                    par = cand
            if isinstance(n.ctx, ast.Store):
                if isinstance(par, ast.Assign) and isinstance(par.value, ast.List) and not par.value.elts and not any(par is x for x in ast.walk(loop["stmt"])):
                    init_ok = True
                else:
                    bad.append(par or n)
            elif isinstance(par, ast.Attribute) and par.attr == "append":
                continue
            elif isinstance(par, ast.Return):
                continue
            else:
                bad.append(par or n)
    chk.check(init_ok and not bad, "B1", fi.short, norm_text(bad[0]) if bad else f"{acc} = []", project.loc(m, bad[0]) if bad else project.loc(m, fi.node),
              f"{acc} starts empty, is only appended to, and is returned unchanged (no insert/sort/reverse/pop/slice/rebinding)",
              how="use census of the accumulator", message=f"{acc} is used other than by append/return: order or length of the result list can change")

    # ---------------------------------------------------------------- B2 loop-carried
    def rd_tagged():
        init = frozenset((p, -1) for p in fi.params())

        def tr(node, state):
            st = node_stores(node)
            if not st:
                return state
            return frozenset({d for d in state if d[0] not in st} | {(x, node.id) for x in st})

        def ed(node, label, state):
            if node.id == loop["next"] and label == "next":
                return frozenset((x, ("carried", d)) if (not isinstance(d, tuple) and d in body_ids) else (x, d) for (x, d) in state)
            return state

        IN2, _ = solve(cfg, init, tr, ed, lambda n, inc: frozenset().union(*[s for _, _, s in inc]))
        return IN2

    full = rd_tagged()
    carried = []
    for nid in sorted(body_ids):
        node = cfg.nodes[nid]
        used = loads(node)
        for (name, d) in sorted(full.get(nid) or (), key=str):
            if isinstance(d, tuple) and name in used:
                carried.append((node, name, cfg.nodes[d[1]]))
    if carried:
        for node, name, d in carried:
            chk.fail("B2", fi.short, norm_text(d.ast if d.kind != "bind" else d.ast.target), project.loc(m, d.ast),
                     f"{name} defined at line {d.lineno} in one iteration is read at line {node.lineno} of a later one: an entry's result depends on the entries before it")
    else:
        chk.ok("B2", f"{project.loc(m, loop['stmt'])} {fi.short}", f"no definition in the loop body ({len(body_ids)} CFG nodes) reaches a use in a later iteration", "reaching definitions tagged across the back edge")
    # accumulators (objects defined outside, mutated inside) are write-only in the body
    outside_defs = set()
    for node in cfg.nodes:
        if node.id not in body_ids:
            outside_defs |= node_stores(node)
    accs = set()
    for nid in body_ids:
        for e in node_exprs(cfg.nodes[nid]):
            for c in ast.walk(e):
                if isinstance(c, ast.Call) and isinstance(c.func, ast.Attribute) and c.func.attr in MUTATORS and isinstance(c.func.value, ast.Name) and c.func.value.id in (outside_defs | set(fi.params())):
                    accs.add(c.func.value.id)
                    if c.func.attr != "append":
                        chk.fail("B2", fi.short, norm_text(c), project.loc(m, c), f"{c.func.value.id}.{c.func.attr}(...) inside the entry loop: not an append-only accumulator")
                    if c.func.value.id in fi.params():
                        chk.fail("B2", fi.short, norm_text(c), project.loc(m, c), f"the argument {c.func.value.id} is mutated while it is being mapped")
    reads = []
    for nid in body_ids:
        node = cfg.nodes[nid]
        for e in node_exprs(node):
            for n in ast.walk(e):
                if isinstance(n, ast.Name) and n.id in accs and isinstance(n.ctx, ast.Load):
                    # allowed only as receiver of .append
                    ok = any(isinstance(c, ast.Call) and isinstance(c.func, ast.Attribute) and c.func.value is n and c.func.attr == "append" for c in ast.walk(e))
                    if not ok:
                        reads.append((node, n))
    chk.check(not reads, "B2", fi.short, norm_text(reads[0][0].ast) if reads else "", project.loc(m, reads[0][0].ast) if reads else project.loc(m, fi.node),
              f"accumulators {sorted(accs)} are never read inside the loop body", how="every Load is the receiver of .append",
              message="an accumulator is read inside the loop: a later entry's result depends on earlier entries")

    # ---------------------------------------------------------------- B3/B4 value flow at each append
    entry = None   # origin of the loop element
    n_main = 0
    for nid, calls in sorted(append_nodes.items()):
        node = cfg.nodes[nid]
        lits = common_literals(G.get(nid))
        for c in calls:
            chk.analysed["call_sites"] += 1
            if len(c.args) != 1:
                chk.fail("B3", fi.short, norm_text(c), project.loc(m, c), "append with other than one argument")
                continue
            val = org.of(nid, c.args[0])
            loc = project.loc(m, c)
            if val[0] != "tuple" or len(val[1]) != 2:
                chk.fail("B3", fi.short, norm_text(c), loc, f"appended value is not a (colour, status) pair: {show(val)}")
                continue
            colour, status = val[1]
            main = colour[0] == "item" and colour[2] == 0 and colour[1][0] == "call" and colour[1][1] == MR
            if main:
                n_main += 1
                call = colour[1]
                recv = call[4]
                kws = dict(call[3])
                # (a) receiver = ColorPair(entry[0], entry[1], entry[2] | False)
                okp = recv is not None and recv[0] == "call" and recv[1] == CP and len(recv[2]) == 3 and not recv[3]
                if okp:
                    t, b, l = recv[2]
                    elem = t[1] if t[0] == "item" else None
                    okp = (t[0] == "item" and t[2] == 0 and b == ("item", elem, 1) and elem is not None and elem[0] == "elem" and elem[1] == ("param", pairs_param)
                           and l in (("phi", frozenset({("const", False), ("item", elem, 2)})), ("item", elem, 2)))
                chk.check(okp, "B3", fi.short, norm_text(c), loc, "the pair is ColorPair(entry[0], entry[1], entry[2] if present else False) of this iteration's entry",
                          how=f"receiver origin: {show(recv)}", message=f"make_readable is called on {show(recv)}, not on the pair built from this entry's own (text, bg, large)")
                # (b) settings forwarded unchanged
                okm = (not call[2] and kws.get("mode") == ("param", "mode") and kws.get("very_readable") == ("param", "very_readable")
                       and all(k in ("mode", "very_readable") or v == ("const", False) for k, v in kws.items()))
                if call[2]:  # positional form
                    pos = list(call[2]) + [None] * 4
                    okm = pos[0] == ("param", "mode") and pos[1] == ("param", "very_readable") and all(x in (None, ("const", False)) for x in pos[2:4]) and all(v == ("const", False) for k, v in kws.items())
                chk.check(okm, "B3", fi.short, norm_text(c), loc, "make_readable receives the bulk call's mode and very_readable unchanged and no show/save_report",
                          how=f"call origin: {show(call)}", message=f"settings are not forwarded unchanged: {show(('call', 'make_readable', call[2], call[3], None))}")
                # (c) status = ColorPair(colour, same bg, same large).is_readable.lower()
                oks = False
                why = show(status)
                if status[0] == "call" and status[1] == ".lower" and not status[2] and status[4] is not None and status[4][0] == "attr" and status[4][2] == "is_readable":
                    np_ = status[4][1]
                    if okp and np_[0] == "call" and np_[1] == CP and len(np_[2]) == 3 and not np_[3]:
                        oks = np_[2][0] == colour and np_[2][1] == recv[2][1] and np_[2][2] == recv[2][2]
                chk.check(oks, "B3", fi.short, norm_text(c), loc, "the status is is_readable.lower() of ColorPair(returned colour, the entry's bg, the entry's large)",
                          how=f"status origin: {why[:200]}", message=f"the status is not the label of the returned colour against this entry's background at this entry's size: {why[:240]}")
                # guard: must not depend on success
                dep = [t for (t, v) in lits if "success" in t.split()]
                chk.check(not dep, "B3", fi.short, norm_text(c), loc, "the append of the tuned colour does not depend on the success flag", how=f"guards: {sorted(lits)}",
                          message="the tuned colour is only recorded when the fix succeeded")
            else:
                # B4: colour must be the entry's own text; allowed guards
                is_text = colour[0] == "item" and colour[2] == 0 and colour[1][0] == "elem" and colour[1][1] == ("param", pairs_param)
                inv_guard = any((not v) and t.endswith(".is_valid") for (t, v) in lits)
                falsy_tuned = False
                for (t, v) in lits:
                    if not v:
                        try:
                            e = ast.parse(t, mode="eval").body
                        except SyntaxError:
                            continue
                        if isinstance(e, ast.Name):
                            # the tested name must be the tuned colour
                            for cn in cfg.nodes:
                                if cn.kind == "cond" and norm_text(cn.ast) == t:
                                    o = org.of(cn.id, cn.ast)
                                    if o[0] == "item" and o[2] == 0 and o[1][0] == "call" and o[1][1] == MR:
                                        falsy_tuned = True
                if inv_guard:
                    const = status[0] == "const" and isinstance(status[1], str) and status[1].lower() not in READABLE
                    chk.check(is_text and const, "B4", fi.short, norm_text(c), loc, "an invalid entry is returned unchanged with a constant status that never claims readability",
                              how=f"under `not pair.is_valid`: appends ({show(colour)}, {show(status)})",
                              message=f"invalid entry yields ({show(colour)}, {show(status)}): not (entry text, non-readable constant)")
                    # followed by continue: covered by B1 (exactly one append per path)
                elif falsy_tuned:
                    ok = is_text and not (status[0] == "const" and str(status[1]).lower() in READABLE)
                    chk.check(ok, "B4", fi.short, norm_text(c), loc, "when make_readable returned nothing, the original entry is returned with its own status", how=f"under falsy tuned colour: ({show(colour)}, {show(status)[:120]})",
                              message=f"fallback append yields ({show(colour)}, {show(status)[:120]})")
                else:
                    chk.fail("B4", fi.short, norm_text(c), loc, f"appends ({show(colour)[:100]}, ...) which is not the colour make_readable returned, outside the invalid-entry / empty-result branches (guards: {sorted(lits)})")
    if n_main == 0 and not chk.findings:
        chk.fail("B3", fi.short, f"{acc}.append(...)", project.loc(m, loop["stmt"]), "no append records the first component of this entry's make_readable call")
    # the invalid test must come before any use of make_readable: pair.is_valid guard dominates the call
    for node in cfg.nodes:
        for e in node_exprs(node):
            for c in ast.walk(e):
                if isinstance(c, ast.Call) and sc.resolve_call(c) == MR:
                    lits = common_literals(G.get(node.id))
                    ok = any(v and t.endswith(".is_valid") for (t, v) in lits)
                    chk.check(ok, "B4", fi.short, norm_text(c), project.loc(m, c), "make_readable is only called on a pair known to be valid", how=f"guards: {sorted(t for t, v in lits if v)}",
                              message="make_readable is reached for invalid entries (returns (None, False); the entry is not reported as invalid)")


_run_own = run


def run(project, chk):      # noqa: F811  (borrowed rules first: an established violation outlives a later inconclusive rule)
    from checks._borrow import borrow
    borrow(project, chk, "C05", {"F5"}, "B7", "the status label is the WCAG label of the pair at the entry's own text size (is_readable passes self.large; C05's label rule)")
    _run_own(project, chk)
