"""Loop-carried dependence of the entry loop of a mapping function (shared by C12 B2 and C15 P8)."""
from __future__ import annotations

import ast

from sa.cfg import build_cfg
from sa.dataflow import solve
from sa.defuse import loads
from sa.guards import node_stores


def entry_loop(fi, cfg):
    """The for loop that iterates (an enumeration of) the function's first parameter."""
    pairs_param = fi.params()[0]
    loop = None
    for lp in cfg.loops:
        if lp["kind"] == "for" and any(isinstance(n, ast.Name) and n.id == pairs_param for n in ast.walk(lp["stmt"].iter)):
            loop = lp
    return loop


def carried_definitions(fi, cfg=None, loop=None):
    """[(reading node, name, defining node)]: a definition made in one iteration of the entry loop that reaches a read in a
    later iteration (reaching definitions tagged across the back edge)."""
    cfg = cfg or build_cfg(fi.node)
    loop = loop or entry_loop(fi, cfg)
    if loop is None:
        return None
    body_ids = set(loop["body"])
    init = frozenset((p, -1) for p in fi.params())

    def tr(node, state):
        st = node_stores(node)
        if not st:
            return state
        return frozenset({d for d in state if d[0] not in st} | {(x, node.id) for x in st})

    def ed(node, label, state):
        if node.id == loop["next"] and label == "next":
            return frozenset((x, ("carried", d)) if (not isinstance(d, tuple) and d in body_ids) else (x, d) for (x, d) in state)
        return state

    full, _ = solve(cfg, init, tr, ed, lambda n, inc: frozenset().union(*[s for _, _, s in inc]))
    carried = []
    for nid in sorted(body_ids):
        node = cfg.nodes[nid]
        used = loads(node)
        for (name, d) in sorted(full.get(nid) or (), key=str):
            if isinstance(d, tuple) and name in used:
                carried.append((node, name, cfg.nodes[d[1]]))
    return carried



def leaked_definitions(fi, cfg=None, loop=None):
    """[(reading node, name, defining node)]: a value assigned while processing an entry (inside the entry loop) that is read
    after the loop -- there it is the *last* entry's value, whatever entry is being dealt with."""
    from sa.defuse import reaching_defs
    cfg = cfg or build_cfg(fi.node)
    loop = loop or entry_loop(fi, cfg)
    if loop is None:
        return None
    body_ids = set(loop["body"]) | {loop["bind"]}
    RD = reaching_defs(cfg, fi.params())
    out = []
    for node in cfg.nodes:
        if node.id in body_ids or node.id in (loop.get("iter"), loop.get("first"), loop.get("next")):
            continue
        used = loads(node)
        for (name, d) in sorted(RD.get(node.id) or (), key=str):
            if name in used and isinstance(d, int) and d in body_ids:
                out.append((node, name, cfg.nodes[d]))
    return out
