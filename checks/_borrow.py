"""A property that rests on a mechanism another property's check already decides re-uses those rules instead of re-stating them.

`borrow(project, chk, "C13", {"W1", "W2"}, "H6", text)` runs the sibling check on the same project into a private collector and
copies its *new* findings of the named rules (findings the sibling lists as known are the sibling's business) under the
borrower's rule id; an inconclusive sibling leaves the borrowed rule undecided (noted), never failed."""
from __future__ import annotations

import importlib

from sa.loader import AnalysisError
from sa.report import Check


def borrow(project, chk, pid: str, rules, as_rule: str, text: str, only=None) -> int:
    chk.rule(as_rule, text)
    key = ("_borrowed", pid, chk.tier)
    cache = project.__dict__.setdefault("_borrow_cache", {})
    active = project.__dict__.setdefault("_borrow_active", set())
    if pid in active or pid == chk.pid:
        return 0        # the sibling is itself being run on behalf of this property: nothing to add
    if key not in cache:
        active.add(chk.pid)
        active.add(pid)
        sub = Check(pid, chk.tier, quiet=True)
        err = None
        try:
            importlib.import_module(f"checks.{pid}").run(project, sub)
        except AnalysisError as e:
            err = str(e)
        except Exception as e:      # noqa: BLE001  a crash of the sibling is the sibling's problem
            err = f"{type(e).__name__}: {e}"
        active.discard(pid)
        active.discard(chk.pid)
        cache[key] = (sub, err)
    sub, err = cache[key]
    new, _listed = sub.split_findings()
    hits = [f for f in new if f.rule in rules and (only is None or only(f))]
    for f in hits:
        chk.fail(as_rule, f.function, f.construct, f.loc, f"{f.message} [{pid} {f.rule}]")
    if not hits:
        n = sum(1 for o in sub.obligations if o["rule"] in rules and o["discharged"])
        if err is not None and not n:
            chk.not_decided.append(f"{as_rule}: {pid}'s rules {sorted(rules)} were inconclusive here ({err[:120]})")
        else:
            chk.ok(as_rule, f"{pid} {'/'.join(sorted(rules))}", text, f"{n} obligation(s) of {pid} discharged on this tree")
    return len(hits)
