"""Shared driver for the four GF-based checks (C01, C02, C04, C16)."""
from __future__ import annotations

from typing import Dict, List

from sa import contracts as C
from sa.gf import show
from sa.loader import AnalysisError, norm_text
from sa.verify import verify_function, Result

FUNCS = [C.BSL, C.GD, C.GAC, C.STRICT, C.RECURSIVE, C.RELAXED, C.CAF, C.MAKE]
# instance floors confirmed by reading the pinned tree: reachable return statements per function
RETURN_FLOORS = {C.BSL: 2, C.GD: 3, C.GAC: 5, C.STRICT: 1, C.RECURSIVE: 4, C.RELAXED: 5, C.CAF: 2, C.MAKE: 1}

TRUSTED = ["stdlib ast", "soundness of the GF inference rules (each is a one-line fact about a total order / equality / implication, listed in sa/gf.py)",
           "contracts in sa/contracts.py are transcriptions of the property statements",
           "calculate_contrast_ratio is the WCAG ratio (C05) and the format wrappers denote the same colour (C06): both uninterpreted here",
           "A1: contrast ratios are never NaN (floats form a total order)"]

_cache = {}


def run_all(project):
    key = id(project)
    if key in _cache:
        return _cache[key]
    contracts = C.build_contracts(project)
    out: Dict[str, tuple] = {}
    for q in FUNCS:
        res, ans = verify_function(project, q, contracts)
        out[q] = (res, ans)
    _cache.clear()
    _cache[key] = (contracts, out)
    return _cache[key]


def report(project, chk, tag: str, rule_of, out) -> int:
    """Record every obligation with the given property tag. rule_of(Result) -> rule id."""
    n = 0
    for q in FUNCS:
        res, ans = out[q]
        fi = project.func(q)
        chk.saw_function(fi, ans[0].cfg)
        seen = {}
        for r in res:
            if r.tag != tag:
                continue
            n += 1
            rule = rule_of(r)
            loc = project.loc(fi.module, r.node.ast)
            construct = norm_text(r.node.origin if r.node.origin is not None else r.node.ast)
            text = f"{norm_text(r.node.ast)} [{r.case}]: {show(r.atom)}"
            if r.ok:
                chk.ok(rule, f"{loc} {fi.short}", text, how=f"entailed by the {len(r.facts.facts)} facts available on all paths reaching this return (clause '{r.clause}')")
            else:
                # one finding per (rule, return statement): several cases / atoms failing at the same return are one construct
                k = (rule, construct)
                msg = f"cannot establish {show(r.atom)[:300]} for `{norm_text(r.node.ast)}` in case [{r.case}]"
                if k in seen:
                    chk.obligations.append({"rule": rule, "where": f"{loc} {fi.short}", "obligation": text, "discharged": False, "how": msg, "nontrivial": True})
                    continue
                seen[k] = True
                chk.fail(rule, fi.short, construct, loc, msg, text=text,
                         extra={"case": r.case, "returned": show(r.ret)[:300],
                                "facts_available": sorted(show(f)[:200] for f in r.facts.facts)[:40]})
    if not chk.findings:
        for q in FUNCS:
            res, ans = out[q]
            reach = max(getattr(a, "n_returns", 0) for a in ans)
            chk.floor(f"reachable return statements analysed in {project.func(q).short}", reach, RETURN_FLOORS[q])
    return n
