"""Shared driver for the four GF-based checks (C01, C02, C04, C16)."""
from __future__ import annotations

from typing import Dict, List

from sa import contracts as C
from sa.gf import show
from sa.loader import AnalysisError, norm_text
from sa.verify import verify_function, Result

FUNCS = [C.BSL, C.GD, C.GAC, C.STRICT, C.RECURSIVE, C.RELAXED, C.CAF, C.MAKE]
# instance floors confirmed by reading the pinned tree: reachable return statements per function
RETURN_FLOORS = {C.BSL: 2, C.GD: 3, C.GAC: 5, C.STRICT: 1, C.RECURSIVE: 4, C.RELAXED: 5, C.CAF: 2, C.MAKE: 1}

TRUSTED = ["stdlib ast", "soundness of the GF inference rules (each is a one-line fact about a total order / equality / implication, listed in sa/gf.py)",
           "contracts in sa/contracts.py are transcriptions of the property statements",
           "calculate_contrast_ratio is the WCAG ratio (C05) and the format wrappers denote the same colour (C06): both uninterpreted here",
           "A1: contrast ratios are never NaN (floats form a total order)"]

_cache = {}


def run_all(project):
    key = id(project)
    if key in _cache:
        return _cache[key]
    contracts = C.build_contracts(project)
    template = contracts.pop("$strategy_template")
    out: Dict[str, tuple] = {}
    adopted, unadopted = adopt_helpers(project, contracts, template, out)
    for q in FUNCS:
        try:
            res, ans = verify_function(project, q, contracts)
        except AnalysisError:
            raise
        out[q] = (res, ans)
    project.gf_adopted, project.gf_unadopted = adopted, unadopted
    _cache.clear()
    _cache[key] = (contracts, out)
    return _cache[key]


def adopt_helpers(project, contracts, template, out):
    """A search helper introduced after the pinned tree (extract-function refactoring of a strategy) that could not be
    inlined is *offered* the strategies' own contract: if every clause is proved for it, its callers may rely on it
    (guess and check: nothing is assumed that was not verified); otherwise calls of it stay opaque."""
    import json
    import os
    from sa import verify as V
    from sa.normalize import BASELINE
    from sa.resolve import Scope, own_nodes
    import ast
    try:
        with open(BASELINE) as fh:
            base = set(json.load(fh)["functions"])
    except OSError:
        return [], []
    mod = project.modules.get(C.OPT)
    V.ADOPTED.clear()
    adopted, unadopted = [], []
    if mod is None:
        return adopted, unadopted
    called = set()
    for fi in mod.funcs.values():
        sc = Scope(project, fi)
        for n in own_nodes(fi.node):
            if isinstance(n, ast.Call):
                q = sc.resolve_call(n)
                if q and q.startswith(C.OPT + ".") and q not in base and q in project.funcs and q not in project.transparent:
                    called.add(q)
    for q in sorted(called):
        fi = project.funcs[q]
        params = fi.params()
        if not {"text_rgb", "bg_rgb", "min_contrast"} <= set(params) or fi.parent is not None:
            unadopted.append(q)
            continue
        contracts[q] = template(q, params)
        V.ADOPTED.add(q)
        try:
            res, ans = verify_function(project, q, contracts)
        except AnalysisError:
            res, ans = None, None
        keep = set()
        if res:
            n_posts = len(template(q, params).clauses[0].posts(("ret",), {p: ("param", p) for p in params})) - 0
            # results come per return statement in the order of the postconditions (chainstep labels are skipped: none here)
            per_ret = {}
            for r in res:
                per_ret.setdefault((r.case, r.node.id), []).append(r)
            if all(len(v) == n_posts for v in per_ret.values()):
                keep = {i for i in range(n_posts) if all(v[i].ok for v in per_ret.values())}
        if keep:
            # the helper is given exactly the postconditions proved at every one of its returns
            contracts[q] = template(q, params, keep)
            adopted.append(q)
            out[q] = ([r for r in res if r.ok], ans)
        else:
            del contracts[q]
            V.ADOPTED.discard(q)
            unadopted.append(q)
    return adopted, unadopted


def report(project, chk, tag: str, rule_of, out) -> int:
    """Record every obligation with the given property tag. rule_of(Result) -> rule id."""
    n = 0
    funcs = list(getattr(project, "gf_adopted", [])) + FUNCS
    opaque = list(getattr(project, "gf_unadopted", []))
    for q in funcs:
        res, ans = out[q]
        fi = project.func(q)
        chk.saw_function(fi, ans[0].cfg)
        seen = {}
        for r in res:
            if r.tag != tag:
                continue
            n += 1
            rule = rule_of(r)
            loc = project.loc(fi.module, r.node.ast)
            construct = norm_text(r.node.origin if r.node.origin is not None else r.node.ast)
            text = f"{norm_text(r.node.ast)} [{r.case}]: {show(r.atom)}"
            if r.ok:
                chk.ok(rule, f"{loc} {fi.short}", text, how=f"entailed by the {len(r.facts.facts)} facts available on all paths reaching this return (clause '{r.clause}')")
            else:
                # one finding per (rule, return statement): several cases / atoms failing at the same return are one construct
                k = (rule, construct)
                msg = f"cannot establish {show(r.atom)[:300]} for `{norm_text(r.node.ast)}` in case [{r.case}]"
                if k in seen:
                    chk.obligations.append({"rule": rule, "where": f"{loc} {fi.short}", "obligation": text, "discharged": False, "how": msg, "nontrivial": True})
                    continue
                seen[k] = True
                if opaque:
                    raise AnalysisError(f"ANALYSIS-INCONCLUSIVE {loc} {fi.short}: {msg}; the function relies on helper(s) {[o.rsplit('.', 1)[-1] for o in opaque]} introduced after the pinned tree "
                                        "that could neither be inlined nor verified against the strategies' contract: not judged")
                chk.fail(rule, fi.short, construct, loc, msg, text=text,
                         extra={"case": r.case, "returned": show(r.ret)[:300],
                                "facts_available": sorted(show(f)[:200] for f in r.facts.facts)[:40]})
    if not chk.findings:
        for q in FUNCS:
            res, ans = out[q]
            reach = max(getattr(a, "n_returns", 0) for a in ans)
            chk.floor(f"reachable return statements analysed in {project.func(q).short}", reach, RETURN_FLOORS[q])
    return n
