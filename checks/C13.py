"""C13 -- translucent text is judged as it will be seen over its own background."""
from __future__ import annotations

import ast

from sa.cfg import build_cfg, node_exprs
from sa.formula import Policy, Unsupported, extract_function, inline_calls, project_resolver, show, transform, RAISE
from sa.guards import guard_states, common_literals, implied
from sa.loader import AnalysisError, norm_text
from sa.resolve import Scope, own_nodes, bind_args
from sa.wire import Origins, show as oshow
from checks._fs_common import audit
from checks.C07 import final_value

LEVEL = "other"
EXPLANATION = (
    "Wiring and formula-shape rules: ColorPair.__init__ builds the background first, without context, and hands it to the text colour as "
    "compositing context; Color._parse forwards that context's rgb (when valid) as `background`; inside parse_color_to_rgb every "
    "compositing call (rgba_to_rgb x2, hsla_to_rgb x2) receives a value derived from the `background` parameter on every path where it "
    "is not None, and white only under `background is None`; rgba_to_rgb is per-channel source-over fg*a + bg*(1-a) rounded to int with "
    "matching channel indices; hsla_to_rgb is the same blend of the HSL colour (truncated), with alpha >= 1 returning the colour itself. "
    "The 1.5-unit numeric bound is not decided."
)
TRUSTED = ["stdlib ast", "source-over compositing: out = fg * alpha + bg * (1 - alpha) per channel (CSS Compositing)"]

COLORS = "cm_colors.core.colors"
PAR = "cm_colors.core.color_parser"
CONV = "cm_colors.core.conversions"

REF = '''
def over(rgba, background):
    return (int(round(rgba[0] * rgba[3] + background[0] * (1 - rgba[3]))),
            int(round(rgba[1] * rgba[3] + background[1] * (1 - rgba[3]))),
            int(round(rgba[2] * rgba[3] + background[2] * (1 - rgba[3]))))

def over_trunc(a, rgb, bg):
    return (int(a * rgb[0] + (1 - a) * bg[0]), int(a * rgb[1] + (1 - a) * bg[1]), int(a * rgb[2] + (1 - a) * bg[2]))

def over_round(a, rgb, bg):
    return (int(round(a * rgb[0] + (1 - a) * bg[0])), int(round(a * rgb[1] + (1 - a) * bg[1])), int(round(a * rgb[2] + (1 - a) * bg[2])))
'''


def rooted_at(o, param: str) -> bool:
    """Origin is the parameter itself, tuple(param), or parse_color_to_rgb(param)."""
    if o == ("param", param):
        return True
    if o[0] == "call" and o[1] in ("builtins.tuple", "builtins.list", f"{PAR}.parse_color_to_rgb") and o[2] and not o[3]:
        return rooted_at(o[2][0], param)
    if o[0] == "call" and o[1] == f"{PAR}.parse_color_to_rgb" and not o[2] and len(o[3]) == 1 and o[3][0][0] == "color":
        return rooted_at(o[3][0][1], param)      # parse_color_to_rgb(color=background)
    return False


def re_opaque(text: str) -> bool:
    """Guard text of an 'alpha is 1 (or more)' test: `a >= 1`, `alpha >= 1.0`, `a == 1.0`."""
    import re
    return re.fullmatch(r"[A-Za-z_][\w.]* (>=|==) 1(\.0)?", text) is not None


def alternatives(o):
    if o[0] == "phi":
        return [a for x in o[1] for a in alternatives(x)]
    if o[0] == "ifexp":
        return alternatives(o[2]) + alternatives(o[3])
    return [o]


def run(project, chk):
    chk.rule("W1", "ColorPair.__init__: the background is constructed first, without context; the text colour is constructed with background_context = that background")
    chk.rule("W2", "Color.__init__/_parse: the context's rgb (when valid) is forwarded as `background` to the parser; the text is never used as context for the background")
    chk.rule("W3", "parse_color_to_rgb / hsla_to_rgb: every compositing call gets a background derived from the `background` parameter; the literal white only under `background is None`")
    chk.rule("W4", "rgba_to_rgb: channel k = int(round(fg[k]*a + bg[k]*(1-a))); hsla_to_rgb: same blend of the HSL colour; alpha >= 1 returns the colour itself")
    chk.not_decided += ["the 1.5-unit numeric bound (rounding of the HSL->RGB step precedes the blend)", "alpha exactly 0 gives exactly the background (follows from the formula; float rounding not examined)"]

    # ---------------------------------------------------------------- W1
    fi = project.func(f"{COLORS}.ColorPair.__init__")
    chk.saw_function(fi)
    sc = Scope(project, fi)
    stores = []
    for st in fi.node.body:
        if isinstance(st, ast.Assign) and len(st.targets) == 1 and isinstance(st.targets[0], ast.Attribute) and isinstance(st.targets[0].value, ast.Name) and st.targets[0].value.id == "self":
            stores.append((st.targets[0].attr, st))
    names = [n for n, _ in stores]
    loc = project.loc(fi.module, fi.node)
    if "bg" not in names or "text" not in names:
        raise AnalysisError(f"{fi.short}: expected top-level assignments to self.bg and self.text")
    bg_st = [s for n, s in stores if n == "bg"]
    tx_st = [s for n, s in stores if n == "text"]
    params = fi.params()   # self, text_color, bg_color, large_text
    ok_bg = len(bg_st) == 1 and isinstance(bg_st[0].value, ast.Call) and sc.resolve_call(bg_st[0].value) == f"{COLORS}.Color"
    if ok_bg:
        b = bind_args(project.func(f"{COLORS}.Color.__init__"), bg_st[0].value, skip_self=True)
        ok_bg = isinstance(b.get("color_input"), ast.Name) and b["color_input"].id == params[2] and ("background_context" not in b or (isinstance(b["background_context"], ast.Constant) and b["background_context"].value is None))
    chk.check(ok_bg, "W1", fi.short, norm_text(bg_st[0]) if bg_st else "self.bg", project.loc(fi.module, bg_st[0]) if bg_st else loc,
              "self.bg = Color(bg_color) with no compositing context (a translucent background is composited over white)", how="single store; argument is the bg_color parameter; no background_context",
              message="the background colour is not built from bg_color alone (it has a compositing context or another source)")
    ok_tx = len(tx_st) == 1 and isinstance(tx_st[0].value, ast.Call) and sc.resolve_call(tx_st[0].value) == f"{COLORS}.Color"
    ctx_ok = False
    if ok_tx:
        b = bind_args(project.func(f"{COLORS}.Color.__init__"), tx_st[0].value, skip_self=True)
        ok_tx = isinstance(b.get("color_input"), ast.Name) and b["color_input"].id == params[1]
        c = b.get("background_context")
        ctx_ok = c is not None and norm_text(c) == "self.bg"
    order_ok = ok_bg and ok_tx and bg_st[0].lineno < tx_st[0].lineno
    chk.check(ok_tx and ctx_ok and order_ok, "W1", fi.short, norm_text(tx_st[0]) if tx_st else "self.text", project.loc(fi.module, tx_st[0]) if tx_st else loc,
              "self.text = Color(text_color, background_context=self.bg), after self.bg has been built", how="store order and argument binding",
              message="the text colour is not parsed with the pair's own, already constructed, background as compositing context: translucent text is composited over white (or something else)")

    # ---------------------------------------------------------------- W2
    init = project.func(f"{COLORS}.Color.__init__")
    parse = project.func(f"{COLORS}.Color._parse")
    chk.saw_function(parse)
    st_ctx = [n for n in own_nodes(init.node) if isinstance(n, ast.Assign) and any(isinstance(t, ast.Attribute) and t.attr == "background_context" for t in n.targets)]
    ok = len(st_ctx) == 1 and isinstance(st_ctx[0].value, ast.Name) and st_ctx[0].value.id == "background_context"
    chk.check(ok, "W2", init.short, norm_text(st_ctx[0]) if st_ctx else "self.background_context", project.loc(init.module, st_ctx[0] if st_ctx else init.node),
              "Color stores the context it was given", how="self.background_context = background_context", message="the compositing context handed to Color is not stored unchanged")
    org = Origins(project, parse)
    psc = Scope(project, parse)
    calls = [c for c in own_nodes(parse.node) if isinstance(c, ast.Call) and psc.resolve_call(c) == f"{PAR}.parse_color_to_rgb"]
    chk.floor("parse_color_to_rgb calls in Color._parse", len(calls), 1)
    for c in calls:
        b = bind_args(project.func(f"{PAR}.parse_color_to_rgb"), c)
        bgarg = b.get("background")
        o = org.at(bgarg) if bgarg is not None else ("const", None)
        alts = alternatives(o)
        want = ("attr", ("attr", ("param", "self"), "background_context"), "rgb")
        good = all(a == ("const", None) or a == want or a == ("attr", want[1], "_rgb") for a in alts) and any(a != ("const", None) for a in alts)
        chk.check(good, "W2", parse.short, norm_text(c), project.loc(parse.module, c), "the parser's background is the context's rgb (or None when there is no valid context)", how=f"origin: {oshow(o)}",
                  message=f"the parser's background argument is {oshow(o)}: the pair's background does not reach the compositor")
        colour = b.get("color")
        chk.check(colour is not None and org.at(colour) == ("attr", ("param", "self"), "original"), "W2", parse.short, norm_text(c), project.loc(parse.module, c), "the colour parsed is the constructor's input", how="first argument is self.original",
                  message="the colour parsed is not the constructor's input")

    # W2 (cont.): the context is used whenever it is there and valid -- no further condition decides whether it reaches the parser
    pcfg = build_cfg(parse.node)
    pG = guard_states(pcfg)
    n_ctx = 0
    from sa.resolve import local_aliases as _la, unalias as _ua
    p_aliases = _la(parse.node)
    for pn in pcfg.nodes:
        for e in node_exprs(pn):
            for x in ast.walk(e):
                if isinstance(x, ast.Attribute) and x.attr in ("rgb", "_rgb") and isinstance(x.ctx, ast.Load) and norm_text(_ua(x.value, p_aliases)) == "self.background_context":
                    n_ctx += 1
                    lits = common_literals(pG.get(pn.id))
                    own = {a for a, tgt in p_aliases.items() if norm_text(tgt) == "self.background_context"} if isinstance(p_aliases, dict) else set()
                    # flags that only record the context's presence / validity: present = bool(context), ok = context.is_valid
                    for st0 in own_nodes(parse.node):
                        if isinstance(st0, ast.Assign) and len(st0.targets) == 1 and isinstance(st0.targets[0], ast.Name):
                            v0 = st0.value
                            if isinstance(v0, ast.Call) and isinstance(v0.func, ast.Name) and v0.func.id == "bool" and len(v0.args) == 1:
                                v0 = v0.args[0]
                            t0 = norm_text(_ua(v0, p_aliases)) if isinstance(v0, (ast.Name, ast.Attribute)) else ""
                            if t0.startswith("self.background_context") and sum(1 for x in own_nodes(parse.node) if isinstance(x, ast.Name) and x.id == st0.targets[0].id and isinstance(x.ctx, ast.Store)) == 1:
                                own.add(st0.targets[0].id)
                    extra = sorted(t for (t, v) in lits if not (t.startswith("self.background_context") or t in ("self._parsed", "self._parsed is True", "self._parsed is False")
                                                                 or any(t == a or t.startswith(a + ".") or t.startswith(a + " ") for a in own)))
                    chk.check(not extra, "W2", parse.short, norm_text(x), project.loc(parse.module, x), "the context's rgb is taken whenever a valid context was given",
                              how=f"guards: {sorted(lits)}",
                              message=f"the context's rgb is only taken when `{extra[0] if extra else ''}` also holds: other translucent spellings (RGBA tuples, `rgb(r g b / a)`, four bare numbers) are composited over white instead of the pair's own background")
    chk.floor("reads of the compositing context's rgb in Color._parse", n_ctx, 1)

    # ---------------------------------------------------------------- W5: the composite is what the optimiser is given
    chk.rule("W5", "ColorPair.make_readable hands the optimiser the composited colours (self.text.rgb / ._rgb and self.bg.rgb / ._rgb), not the raw inputs (which would be re-composited over white)")
    mr = project.func(f"{COLORS}.ColorPair.make_readable")
    chk.saw_function(mr)
    morg = Origins(project, mr)
    msc = Scope(project, mr)
    CAFQ = "cm_colors.core.optimisation.check_and_fix_contrast"
    caf_calls = [c for c in own_nodes(mr.node) if isinstance(c, ast.Call) and msc.resolve_call(c) == CAFQ]
    chk.floor("optimiser calls in make_readable", len(caf_calls), 1)
    for c in caf_calls:
        b = bind_args(project.func(CAFQ), c)
        for pname, side in (("text", "text"), ("bg", "bg")):
            a = b.get(pname)
            o = morg.at(a) if a is not None else ("const", None)
            ok = o[0] == "attr" and o[2] in ("rgb", "_rgb") and o[1] == ("attr", ("param", "self"), side)
            chk.check(ok, "W5", mr.short, norm_text(c)[:100], project.loc(mr.module, c), f"the optimiser's `{pname}` is self.{side}.rgb: the colour as composited over this pair's background",
                      how=f"origin: {oshow(o)[:80]}", message=f"the optimiser is given {oshow(o)[:80]} as `{pname}` instead of self.{side}.rgb: translucent text is re-composited over white for the fix while the verdict uses the pair's background")

    # ---------------------------------------------------------------- W6: compositing has no memory
    chk.rule("W6", "parse_color_to_rgb and everything it calls keep no module-level state (a parse cache that forgets the background hands one pair's composite to the next)")
    from sa.effects import Effects as _Eff
    _eff = _Eff(project)
    pentry = f"{PAR}.parse_color_to_rgb"
    pclosure = _eff.reach(pentry) | {pentry}
    from checks.C15 import transparent_memo_tables as _tmt
    _transparent = _tmt(project, _eff)      # a table keyed injectively by everything the cached value is computed from (background included) has no memory
    dirty = [(q, d, n) for q in sorted(pclosure) if q in _eff.sum for (d, n) in _eff.sum[q].module_writes if d not in _transparent]
    for q, d, n in dirty:
        f2 = project.funcs[q]
        chk.fail("W6", f2.short, norm_text(n), project.loc(f2.module, n), f"the parser's call closure writes module-level state {d}: the composite of a translucent colour can come from an earlier call with another background")
    if not dirty:
        chk.ok("W6", f"{project.loc(project.func(pentry).module, project.func(pentry).node)} core.color_parser.parse_color_to_rgb", f"the {len(pclosure)} functions in the parser's call closure write no module-level state", "effect summaries closed over the call graph")

    # ---------------------------------------------------------------- W7: a parsed alpha always reaches the compositor
    chk.rule("W7", "parse_color_to_rgb: on a path where an alpha component was read, what is returned is the compositor's result (alpha 0 is a value, not 'no alpha'): the uncomposited colour is returned only where no alpha was read")
    pfi7 = project.func(f"{PAR}.parse_color_to_rgb")
    cfg7 = build_cfg(pfi7.node)
    org7 = Origins(project, pfi7, cfg7)
    sc7 = Scope(project, pfi7)
    PNT7 = f"{PAR}._parse_number_token"
    from sa.dataflow import solve as _solve7

    def reads_alpha(node):
        for e in node_exprs(node):
            for c in ast.walk(e):
                if isinstance(c, ast.Call) and sc7.resolve_call(c) == PNT7:
                    comp = next((k.value for k in c.keywords if k.arg == "component"), c.args[1] if len(c.args) > 1 else None)
                    if isinstance(comp, ast.Constant) and comp.value is False:
                        return True
        return False
    IN7, _ = _solve7(cfg7, frozenset({False}), lambda n, st: frozenset({True}) if reads_alpha(n) else st,
                     lambda n, l, st: None if l == "exc" else st, lambda n, inc: frozenset().union(*[x for _, _, x in inc]))
    n7 = 0
    for node in cfg7.nodes:
        if node.kind != "return" or node.ast.value is None or True not in (IN7.get(node.id) or ()):
            continue
        n7 += 1
        o = org7.of(node.id, node.ast.value)
        alts = alternatives(o)
        comp_ok = all(a[0] == "call" and a[1] in (f"{CONV}.rgba_to_rgb", f"{CONV}.hsla_to_rgb") for a in alts)
        opaque = any(v and re_opaque(t) for (t, v) in common_literals(guard_states(cfg7).get(node.id)))
        chk.check(comp_ok or opaque, "W7", pfi7.short, norm_text(node.ast), project.loc(pfi7.module, node.ast), "after an alpha component was read the function returns the compositor's result",
                  how=f"returned: {oshow(o)[:100]}", message=f"`{norm_text(node.ast)[:60]}` can return the uncomposited colour on a path where an alpha component was read (e.g. alpha 0 tested for truthiness): fully transparent text is judged as opaque")
    chk.floor("returns after an alpha component was read", n7, 1)

    # ---------------------------------------------------------------- W3
    n_sites = 0
    for q, bgparam, targets in ((f"{PAR}.parse_color_to_rgb", "background", {f"{CONV}.rgba_to_rgb": "background", f"{CONV}.hsla_to_rgb": "background"}),):
        fi = project.func(q)
        cfg = build_cfg(fi.node)
        chk.saw_function(fi, cfg)
        org = Origins(project, fi, cfg)
        G = guard_states(cfg)
        sc2 = Scope(project, fi)
        for node in cfg.nodes:
            for e in node_exprs(node):
                for c in ast.walk(e):
                    if isinstance(c, ast.Call) and sc2.resolve_call(c) in targets:
                        n_sites += 1
                        callee = project.func(sc2.resolve_call(c))
                        b = bind_args(callee, c)
                        a = b.get(targets[sc2.resolve_call(c)])
                        o = org.of(node.id, a) if a is not None else ("const", None)
                        alts = alternatives(o)
                        consts = [x for x in alts if x[0] in ("const", "tuple")]
                        derived = [x for x in alts if x not in consts]
                        white = ("tuple", (("const", 255), ("const", 255), ("const", 255)))
                        okc = all(x == ("const", None) or x == white for x in consts)
                        okd = bool(derived) and all(rooted_at(x, bgparam) for x in derived)
                        chk.check(okc and okd, "W3", fi.short, norm_text(c), project.loc(fi.module, c),
                                  f"{callee.name} composites over a value derived from the `{bgparam}` parameter (white / None only as the no-background default)",
                                  how=f"origin of its background argument: {oshow(o)[:140]}",
                                  message=f"{callee.name} is given {oshow(o)[:140]} as background: the supplied background does not reach it (or something else does)")
        # path-sensitive: on paths where a background WAS supplied the compositor must not receive the default,
        # and the default (None / white) may only flow in on paths where `background is None`
        from sa.dataflow import solve as _solve
        from sa.guards import node_stores as _stores
        argvars = set()
        sites = []
        for node in cfg.nodes:
            for e in node_exprs(node):
                for c in ast.walk(e):
                    if isinstance(c, ast.Call) and sc2.resolve_call(c) in targets:
                        callee = project.func(sc2.resolve_call(c))
                        a = bind_args(callee, c).get(targets[sc2.resolve_call(c)])
                        if isinstance(a, ast.Name):
                            argvars.add(a.id)
                            sites.append((node, c, a.id, callee))

        def _tr(node, state):
            st = _stores(node)
            if not st:
                return state
            pols = {p for (_, _, p) in state} or {None}
            a = node.ast
            kept = {x for x in state if x[0] not in st}
            if node.kind == "stmt" and isinstance(a, ast.Assign) and len(a.targets) == 1 and isinstance(a.targets[0], ast.Name) and isinstance(a.value, ast.Name):
                # a copy: x = y carries y's defining statements (per path) over to x
                src = {(a.targets[0].id, d, p) for (v, d, p) in state if v == a.value.id}
                if src:
                    return frozenset(kept | src)
            return frozenset(kept | {(v, node.id, pol) for v in st for pol in pols})

        def _edge(node, label, state):
            if label == "exc":
                return None
            if node.kind == "cond" and label in ("T", "F"):
                t = norm_text(node.ast)
                pol = None
                if t == f"{bgparam} is None":
                    pol = "none" if label == "T" else "given"
                elif t == f"{bgparam} is not None":
                    pol = "given" if label == "T" else "none"
                if pol is not None:
                    return frozenset((v, d, pol) for (v, d, _p) in state) or frozenset({("$", -1, pol)})
            return state

        IN3, _ = _solve(cfg, frozenset({("$", -1, None)}), _tr, _edge, lambda n, inc: frozenset().union(*[s3 for _, _, s3 in inc]))
        white = ("tuple", (("const", 255), ("const", 255), ("const", 255)))
        for node, c, var, callee in sites:
            bad = []
            for (v, d, pol) in IN3.get(node.id, ()):
                if v != var or d < 0:
                    continue
                dn = cfg.nodes[d]
                val = org.of(d, dn.ast.value) if dn.kind == "stmt" and isinstance(dn.ast, ast.Assign) else ("expr", "?")
                is_default = val == ("const", None) or val == white
                if pol == "given" and is_default:
                    bad.append(f"the default {oshow(val)} (line {dn.lineno}) reaches the call on a path where a background was supplied")
                if pol != "none" and is_default and pol != "given":
                    bad.append(f"the default {oshow(val)} (line {dn.lineno}) reaches the call without a `{bgparam} is None` test")
                if pol == "none" and not is_default and not rooted_at(val, bgparam):
                    bad.append(f"{oshow(val)[:60]} is used when no background was supplied")
            chk.check(not bad, "W3", fi.short, norm_text(c), project.loc(fi.module, c), f"{callee.name}: on every path where a background was supplied it is that background which is composited over",
                      how="definitions of the background argument tracked together with the outcome of the `background is None` test", message="; ".join(sorted(set(bad)))[:300])
        # the white / None defaults are assigned only where the background is known to be None
        for node in cfg.nodes:
            a = node.ast
            if node.kind == "stmt" and isinstance(a, ast.Assign) and isinstance(a.value, ast.Tuple) and len(a.value.elts) == 3 and all(isinstance(x, ast.Constant) and isinstance(x.value, int) for x in a.value.elts):
                vals = [x.value for x in a.value.elts]
                lits = common_literals(G.get(node.id))
                ok = (f"{bgparam} is None", True) in lits or (f"{bgparam} is not None", False) in lits
                chk.check(ok and vals == [255, 255, 255], "W3", fi.short, norm_text(a), project.loc(fi.module, a), "the constant compositing background is white and is used only when no background was supplied", how=f"value {vals}; guards: {sorted(t for t, v in lits if v)[:4]}",
                          message=f"constant compositing background {tuple(vals)} {'is not white' if vals != [255, 255, 255] else 'is used even when a background was supplied'}")
    chk.floor("compositing call sites in parse_color_to_rgb", n_sites, 4)
    # hsla_to_rgb's own default
    fi = project.func(f"{CONV}.hsla_to_rgb")
    cfg = build_cfg(fi.node)
    chk.saw_function(fi, cfg)
    G = guard_states(cfg)
    org = Origins(project, fi, cfg)
    n_w = 0
    for node in cfg.nodes:
        a = node.ast
        if node.kind == "stmt" and isinstance(a, ast.Assign) and isinstance(a.value, ast.Tuple) and len(a.value.elts) == 3 and all(isinstance(x, ast.Constant) and isinstance(x.value, int) for x in a.value.elts):
            n_w += 1
            vals = [x.value for x in a.value.elts]
            lits = common_literals(G.get(node.id))
            ok = ("background is None", True) in lits
            chk.check(ok and vals == [255, 255, 255], "W3", fi.short, norm_text(a), project.loc(fi.module, a), "hsla_to_rgb falls back to white, and only when background is None", how=f"value {vals}; guards: {sorted(t for t, v in lits if v)[:4]}",
                      message=f"hsla_to_rgb's constant background {tuple(vals)} {'is not white' if vals != [255, 255, 255] else 'is used even when a background was supplied'}")
    chk.floor("white default in hsla_to_rgb", n_w, 1)

    # ---------------------------------------------------------------- W4 formulas
    fi = project.func(f"{CONV}.rgba_to_rgb")
    try:
        ex, env, ret = extract_function(project, fi)
    except Unsupported as e:
        raise AnalysisError(f"ANALYSIS-INCONCLUSIVE {fi.short}: {e}")
    audit(project, chk, "W4", f"{CONV}.rgba_to_rgb", REF, "over", Policy(), "source-over compositing (RGBA)", code_expr=final_value(ret), inline=False)
    fi = project.func(f"{CONV}.hsla_to_rgb")
    try:
        ex, env, ret = extract_function(project, fi)
        memo = {id(env[v]): (env[v], ("var", v)) for v in ("a", "rgb", "bg_rgb") if v in env}
        core = final_value(transform(ret, lambda n: n, memo))
    except (Unsupported, KeyError) as e:
        raise AnalysisError(f"ANALYSIS-INCONCLUSIVE {fi.short}: {e}")
    loc = project.loc(fi.module, fi.node)
    # alpha >= 1 short-circuit returns the HSL colour itself
    sc_ok = core[0] == "ite" and core[1] in (("cmp", ">=", ("var", "a"), ("num", 1.0)), ("cmp", ">=", ("var", "a"), ("num", 1)), ("cmp", "==", ("var", "a"), ("num", 1.0)), ("cmp", "==", ("var", "a"), ("num", 1))) and core[2] == ("var", "rgb")
    chk.check(sc_ok, "W4", fi.short, show(core[1]) if core[0] == "ite" else show(core)[:60], loc, "alpha 1 returns the colour itself", how="`if a >= 1.0: return rgb`", message=f"alpha = 1 does not return the colour itself: {show(core)[:120]}")
    blend = core[3] if core[0] == "ite" else core
    blend = final_value(blend)
    audit(project, chk, "W4", f"{CONV}.hsla_to_rgb", REF, "over_trunc", Policy(var_map={"bg": "bg_rgb"}), "source-over compositing (HSLA)", code_expr=blend, inline=False, alternatives=["over_round"])
    # the colour blended is the HSL colour of the same (h, s, l)
    rgb_o = env.get("rgb")
    ok = rgb_o is not None and rgb_o[0] == "call" and str(rgb_o[1]).endswith("hsl_to_rgb") and len(rgb_o[2]) == 1 and rgb_o[2][0][0] == "tuple" and len(rgb_o[2][0][1]) == 3 and list(rgb_o[2][0][1]) == [env.get("h"), env.get("s"), env.get("l")]
    chk.check(ok, "W4", fi.short, "rgb = hsl_to_rgb((h, s, l))", loc, "the foreground blended is hsl_to_rgb((h, s, l)) of the parsed components", how="value of rgb", message="the foreground that is blended is not the HSL colour of the parsed (h, s, l)")


def component_order(project, chk):
    """W9: the colour handed to the compositor is (component 0, component 1, component 2, alpha = component 3) of the input."""
    chk.rule("W9", "every rgba_to_rgb call of the parser gets (R, G, B, alpha) built from components 0, 1, 2, 3 of the input in that order; channels are read as components, alpha as alpha")
    fi = project.funcs.get(f"{PAR}.parse_color_to_rgb")
    if fi is None:
        return
    org = Origins(project, fi)
    sc = Scope(project, fi)

    def indices(o, out):
        if isinstance(o, frozenset):
            for x in o:
                indices(x, out)
            return out
        if not isinstance(o, tuple) or not o:
            return out
        if o[0] == "item" and type(o[2]) is int:
            out.add(o[2])
        for x in o:
            if isinstance(x, (tuple, frozenset)):
                indices(x, out)
        return out

    def flags(o, out):
        if isinstance(o, tuple) and o:
            if o[0] == "call" and str(o[1]).endswith("_parse_number_token"):
                kw = dict(o[3])
                v = kw.get("component") or (o[2][1] if len(o[2]) > 1 else ("const", True))
                out.add(v[1] if v[0] == "const" else None)
            for x in o:
                if isinstance(x, tuple):
                    flags(x, out)
        return out
    n = 0
    for c in own_nodes(fi.node):
        if not (isinstance(c, ast.Call) and sc.resolve_call(c) == f"{CONV}.rgba_to_rgb" and c.args):
            continue
        o = org.at(c.args[0])
        if o[0] != "tuple" or len(o[1]) != 4:
            chk.not_decided.append(f"W9: {project.loc(fi.module, c)} the compositor's colour is not a 4-element display ({oshow(o)[:60]})")
            continue
        n += 1
        got = [sorted(indices(e, set())) for e in o[1]]
        if any(len(g) != 1 for g in got):
            chk.not_decided.append(f"W9: {project.loc(fi.module, c)} the components' positions are not all readable ({got})")
            n += 1
            continue
        ok = all(g in ([k], [k - 4]) for k, g in enumerate(got))
        chk.check(ok, "W9", fi.short, norm_text(c), project.loc(fi.module, c), "the compositor's (R, G, B, alpha) are components 0, 1, 2, 3 of the input, in that order",
                  how=f"component indices per position: {got}", message=f"the colour handed to the compositor takes its (R, G, B, alpha) from components {got} of the input: channels are swapped or reused")
        fl = [sorted(flags(e, set()), key=str) for e in o[1]]
        if all(fl):
            okf = all(f == [True] for f in fl[:3]) and fl[3] == [False]
            chk.check(okf, "W9", fi.short, norm_text(c) + " scales", project.loc(fi.module, c), "channels are scaled as 0..255 components, the fourth value as an alpha in 0..1",
                      how=f"component= flags per position: {fl}", message=f"component= flags per position are {fl}: a channel is read on the alpha scale or the alpha on the channel scale")
    chk.floor("rgba_to_rgb calls of the parser with a readable colour", n, 2)


_run_own = run


def run(project, chk):      # noqa: F811  (borrowed rules first: an established violation outlives a later inconclusive rule)
    from checks._borrow import borrow
    borrow(project, chk, "C07", {"N8"}, "W8", "the alpha of an rgba() string is read from the token the author wrote: the number tokeniser recognises `.5`-style decimals (C07's token-language rule)")
    _run_own(project, chk)
    component_order(project, chk)
