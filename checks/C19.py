"""C19 -- reports are injection-safe: user text appears only HTML-escaped."""
from __future__ import annotations

import ast

from sa.cfg import node_exprs
from sa.effects import Effects
from sa.loader import AnalysisError, norm_text
from sa.resolve import Scope, own_nodes
from sa.taint import Taint

LEVEL = "other"
EXPLANATION = (
    "Taint analysis of the report generators: every value written to a report file must be built only from checked template "
    "fragments (f-strings), constants and template builders; each fragment's constant text is scanned with an HTML context machine "
    "so every hole is classified as element text / quoted attribute / other; each hole's expression is abstracted by reaching "
    "definitions, call returns, parameters followed up to all call sites, dict displays, .get defaults and list appends to "
    "CONST(set) / ESCAPED (html.escape, quotes included) / MARKUP / TAINTED. A hole is safe iff its class is allowed in its context. "
    "This covers every string a user can supply in every slot, which no finite set of payloads does."
)
TRUSTED = ["stdlib ast", "html.escape(s, quote=True) neutralises & < > \" ' (Python documentation)",
           "callers outside the package do not call the internal builders with forged level strings (stated scope of the property: CLI and save_report)"]

BUILDER_MODULES = ("cm_colors.cli.html_report", "cm_colors.core.visualiser")
FLOORS = {"cli.html_report": 10, "core.visualiser": 13}     # template holes per builder module (helpers a builder delegates to count for their module)


def run(project, chk):
    chk.rule("T1", "every hole of every template fragment holds a value whose class is allowed in the hole's HTML context (text: CONST/ESCAPED/MARKUP; quoted attribute: CONST/ESCAPED with quotes escaped; anything else: CONST)")
    chk.rule("T2", "everything written to a report file is composed only of checked template fragments, constants and template builders' results")
    chk.rule("T3", "every template fragment starts and ends in element-text context (no hole context depends on another fragment)")
    chk.assumptions += ["scope: text reaching the reports through the CLI and through save_report (the property's scope); internal builders are not called by third parties with forged level strings",
                        "CSS-level injection inside a style value is out of scope (the property speaks of elements and attributes)"]
    chk.not_decided += ["that the escaped text is displayed verbatim by a browser (HTML entity semantics are trusted)"]
    eff = Effects(project)
    t = Taint(project)
    sinks = 0
    for mname in BUILDER_MODULES:
        m = project.module(mname)
        chk.saw_module(m)
        for q, fi in sorted(m.funcs.items()):
            fi = project.funcs[f"{mname}.{q}"]
            sc = Scope(project, fi)
            org = t.org(fi)
            # sinks: <handle>.write(X) where the handle comes from open(..., 'w')
            for node in org.cfg.nodes:
                for e in node_exprs(node):
                    for c in ast.walk(e):
                        if isinstance(c, ast.Call) and isinstance(c.func, ast.Attribute) and c.func.attr in ("write", "writelines") and c.args:
                            recv = org.of(node.id, c.func.value)
                            if recv[0] == "with" and recv[1][0] == "call" and recv[1][1] == "builtins.open":
                                sinks += 1
                                chk.saw_function(fi, org.cfg)
                                arg = c.args[0]
                                ok = t.value_is_markup(fi, node.id, arg)
                                bad = []
                                if isinstance(arg, ast.Name):
                                    ok, bad = t.markup_class(fi, arg.id)
                                chk.check(ok, "T2", fi.short, norm_text(bad[0][0])[:120] if bad else norm_text(c), project.loc(m, bad[0][0] if bad else c),
                                          f"what {norm_text(c)} writes is built only from template fragments, constants and template builders",
                                          how="every assignment / += to the written variable is an f-string or constant fragment or a builder call",
                                          message=bad[0][1] if bad else "written value is not a composition of checked template fragments")
    chk.floor("report file sinks (handle.write) in the builder modules", sinks, 2)
    # T1 verdicts
    per_fn = {}
    from sa.taint import unreadable as _unreadable
    unread = []
    for h in t.holes:
        fi = h["fi"]
        chk.saw_function(fi)
        per_fn[fi.short] = per_fn.get(fi.short, 0) + 1
        m = fi.module
        if not h["ok"] and h["cls"].kind == "tainted" and _unreadable(h["cls"].why):
            unread.append(h)        # not followed, rather than traced to a raw source: inconclusive unless something definite is found
            continue
        chk.check(h["ok"], "T1", fi.short, "{" + h["expr"] + "} in " + h["context"], project.loc(m, h["node"]),
                  f"hole {{{h['expr']}}} in {h['context']} holds {h['cls']!r}",
                  how=f"value origin: {h['origin']}", message=f"{{{h['expr']}}} in {h['context']}: {h['why']} -- value is {h['cls']!r}, origin {h['origin']}")
    if unread and not chk.findings:
        h = unread[0]
        raise AnalysisError(f"{project.loc(h['fi'].module, h['node'])} {h['fi'].short}: the value of {{{h['expr']}}} ({h['context']}) cannot be followed ({h['cls'].why}); "
                            f"{len(unread)} hole(s) are neither shown safe nor traced to a raw source")
    for h in unread:
        chk.note(f"T1: {{{h['expr']}}} in {h['fi'].short} not followed ({h['cls'].why})")
    for short, floor in FLOORS.items():
        if chk.findings:
            break   # a reported violation already explains a changed hole count
        chk.floor(f"template holes judged in {short}", sum(v for k, v in per_fn.items() if k.startswith(short + ".")), floor)
    for (fi, node, ctx) in t.fragment_errors:
        chk.fail("T3", fi.short, norm_text(node)[:80], project.loc(fi.module, node), f"template fragment ends in {ctx}: the context of later holes depends on run-time concatenation order")
    if not t.fragment_errors:
        chk.ok("T3", "all fragments", f"{len(t.fragments_seen)} template fragments each start and end in element-text context", "HTML context machine over the constant parts")
    chk.extra["holes_by_function"] = per_fn
    chk.extra["holes_by_class"] = {}
    for h in t.holes:
        k = h["cls"].kind
        chk.extra["holes_by_class"][k] = chk.extra["holes_by_class"].get(k, 0) + 1
