"""C17 -- no output or files unless asked; previews and reports never change the result."""
from __future__ import annotations

import ast

from sa.cfg import build_cfg, node_exprs
from sa.effects import Effects, io_kind_of, MUTATORS
from sa.defuse import reaching_defs, loads
from sa.guards import guard_states, implied, node_stores, common_literals
from sa.loader import AnalysisError, norm_text
from sa.resolve import Scope, own_nodes, bind_args, is_property

LEVEL = "other"
EXPLANATION = (
    "Effect analysis + control-dependence: the I/O primitives reachable from the public API are enumerated through the "
    "resolved call graph; every CFG node of make_readable / make_readable_bulk that reaches one must be control-dependent, "
    "on all paths, on the corresponding parameter (show / save_report); constructors and queries reach none; the guarded "
    "region assigns nothing the return statement reads; show/save_report are used only as branch conditions; report files "
    "are the documented relative constants, opened once, for writing. All pairs, spellings and outcomes are covered at once "
    "because the rule is about paths, not inputs."
)
TRUSTED = ["stdlib ast", "table of I/O primitives in sa/effects.py (print, open, click.echo, rich Console.print, logging, warnings, sys.std*, pathlib/os/shutil mutators)",
           "rich/click/html perform no file I/O of their own"]

COLORS = "cm_colors.core.colors"
ENTRY_SILENT = [f"{COLORS}.Color.__init__", f"{COLORS}.Color._parse", f"{COLORS}.Color.is_valid", f"{COLORS}.Color.rgb",
                f"{COLORS}.Color.error", f"{COLORS}.Color.to_hex", f"{COLORS}.ColorPair.__init__", f"{COLORS}.ColorPair.is_valid",
                f"{COLORS}.ColorPair.errors", f"{COLORS}.ColorPair.is_readable"]
MAKE = f"{COLORS}.ColorPair.make_readable"
BULK = "cm_colors.core.cm_colors.make_readable_bulk"
TO_HTML_BULK = "cm_colors.core.visualiser.to_html_bulk"
REPORT_NAMES = {MAKE: "cm_colors_quick_report.html", BULK: "cm_colors_bulk_report.html"}



class CondIO:
    """Conditional I/O summaries, closed over the call graph.

    For a function q: a list of (node, kind, ast, what, alts). ``alts`` says when the I/O at that
    CFG node can happen, in terms of q's own never-reassigned parameters: a list of alternatives
    (conj, inner) meaning "all parameters in conj are truthy and (inner is None or one of the
    parameters in inner is truthy)". An empty list = cannot happen at all.
    """

    def __init__(self, project, eff):
        self.project = project
        self.eff = eff
        self.memo = {}
        self.stack = set()
        self.derived = {}

    def list_guards(self, fi, cfg, G):
        """Lists initialised empty and only filled under a guard: truthiness of the list implies the guard."""
        derived = {}
        for name in {n.id for n in own_nodes(fi.node) if isinstance(n, ast.Name)}:
            inits = [n for n in own_nodes(fi.node) if isinstance(n, ast.Assign) and any(isinstance(t, ast.Name) and t.id == name for t in n.targets)]
            if not inits or not all(isinstance(i.value, ast.List) and not i.value.elts for i in inits):
                continue
            if any(isinstance(n, ast.AugAssign) and isinstance(n.target, ast.Name) and n.target.id == name for n in own_nodes(fi.node)):
                continue
            common = None
            for node in cfg.nodes:
                for e in node_exprs(node):
                    for c in ast.walk(e):
                        if isinstance(c, ast.Call) and isinstance(c.func, ast.Attribute) and isinstance(c.func.value, ast.Name) and c.func.value.id == name and c.func.attr in MUTATORS:
                            lits = common_literals(G.get(node.id))
                            common = lits if common is None else common & lits
            if common:
                derived[name] = {t for t, v in common if v}
        return derived

    def requirements(self, q):
        if q in self.memo:
            return self.memo[q]
        project, eff = self.project, self.eff
        if q in self.stack:     # recursion: unconditional transitive summary
            return [(None, k, None, q, [(frozenset(), None)]) for k in sorted(eff.io_kinds(q))]
        self.stack.add(q)
        fi = project.funcs[q]
        cfg = build_cfg(fi.node)
        sc = Scope(project, fi)
        G = guard_states(cfg)
        stored = set()
        for node in cfg.nodes:
            stored |= node_stores(node)
        stable = set(fi.params()) - stored
        derived = self.list_guards(fi, cfg, G)
        self.derived[q] = derived
        out = []
        for node in cfg.nodes:
            st = G.get(node.id)
            if st is None:
                continue
            own = []
            for alt in st:
                conj = set()
                for (t, v) in alt:
                    if v and t in stable:
                        conj.add(t)
                    if v and t in derived:
                        conj |= {d for d in derived[t] if d in stable}
                own.append(frozenset(conj))
            found = []   # (kind, ast, what, callee alts in caller terms)
            for e in node_exprs(node):
                for c in ast.walk(e):
                    if isinstance(c, ast.Call):
                        cq = sc.resolve_call(c)
                        k = io_kind_of(cq)
                        if k:
                            found.append((k, c, cq, [(frozenset(), None)]))
                        target = cq if cq in project.funcs else (cq + ".__init__" if cq and (cq + ".__init__") in project.funcs else None)
                        if target and eff.io_kinds(target):
                            cfi = project.funcs[target]
                            try:
                                b = bind_args(cfi, c, skip_self=bool(cfi.cls))
                            except ValueError:
                                b = None
                            for (_, kk, _, what, calts) in self.requirements(target):
                                found.append((kk, c, f"{target} -> {what}" if what != target else target, self.translate(calts, cfi, b, stable)))
                    elif isinstance(c, ast.Attribute) and isinstance(c.ctx, ast.Load):
                        pq = sc.resolve_member(c)
                        if pq and pq in project.funcs and is_property(project.funcs[pq]):
                            for kk in sorted(eff.io_kinds(pq)):
                                found.append((kk, c, pq, [(frozenset(), None)]))
            for site in eff.sum[q].io:
                if any(site.node is c for e in node_exprs(node) for c in ast.walk(e)) and not any(f[1] is site.node for f in found):
                    found.append((site.kind, site.node, site.what, [(frozenset(), None)]))
            for (k, c, what, calts) in found:
                alts = [(o | conj, inner) for o in own for (conj, inner) in calts]
                out.append((node, k, c, what, alts))
        self.stack.discard(q)
        self.memo[q] = out
        return out

    @staticmethod
    def translate(calts, cfi, b, stable):
        res = []
        defaults = cfi.defaults()
        for (conj, inner) in calts:
            if b is None:
                res.append((frozenset(), None))
                continue

            def actual(pn):
                return b.get(pn, defaults.get(pn))

            conj2 = set()
            impossible = False
            for pn in conj:
                a = actual(pn)
                if isinstance(a, ast.Constant):
                    if not a.value:
                        impossible = True
                elif isinstance(a, ast.Name) and a.id in stable:
                    conj2.add(a.id)
            inner2 = None
            if inner is not None:
                inner2 = set()
                for pn in inner:
                    a = actual(pn)
                    if isinstance(a, ast.Constant):
                        if a.value:
                            inner2 = None
                            break
                    elif isinstance(a, ast.Name) and a.id in stable:
                        inner2.add(a.id)
                    else:
                        inner2 = None
                        break
                if inner2 is not None and not inner2:
                    impossible = True
            if not impossible:
                res.append((frozenset(conj2), frozenset(inner2) if inner2 is not None else None))
        return res


def allowed_by(alts, allowed):
    """Every alternative requires a parameter in ``allowed`` to be truthy."""
    for (conj, inner) in alts:
        if conj & allowed:
            continue
        if inner is not None and inner and inner <= allowed:
            continue
        return False
    return True


def lits_true(alt, name):
    return (name, True) in alt


def run(project, chk):
    eff = Effects(project)
    cond = CondIO(project, eff)
    chk.rule("R1", "constructors and queries (Color/ColorPair __init__, is_valid, rgb, error(s), to_hex, is_readable) reach no I/O primitive through the call graph")
    chk.rule("R2", "in make_readable / make_readable_bulk every CFG node that reaches console output is control-dependent on show or save_report on all paths; every node that reaches a file write on save_report")
    chk.rule("R3", "show / save_report are never assigned and are used only as branch conditions (so the unguarded computation cannot depend on them)")
    chk.rule("R4", "inside the region guarded by show/save_report nothing that a return statement reads is assigned or mutated")
    chk.rule("R5", "report files: to_html_bulk opens exactly its output_path parameter, once, mode 'w'; both call sites pass the documented relative file name")
    chk.rule("R6", "importing the package performs no I/O: no module-level statement calls an I/O primitive")
    chk.assumptions += ["A4: rich's Console.print and click.echo are the only ways those libraries produce output here",
                        "the I/O primitive table is complete for what the package imports (checked: every imported third-party/stdlib module is in the reviewed list)"]
    chk.not_decided += ["'the preview never raises' in general: rich's colour parser is a run-time dependency; the one structural cause found (F-C06, unparseable hsl() output) is handled under C06",
                        "equality of the returned value with the plain call's is decided as 'the guarded region cannot influence it', not by comparing values"]

    # reviewed import list: a new import of an unreviewed module could hide I/O the table does not know
    reviewed = {"typing", "math", "re", "html", "os", "rich", "click", "tinycss2", "pathlib", "traceback", "cm_colors", "functools", "itertools", "collections", "dataclasses", "enum", "colorsys", "decimal", "fractions", "numbers", "string", "textwrap", "json", "operator", "copy", "abc", "sys", "warnings", "logging", "io", "shutil", "tempfile", "subprocess", "time", "random", "datetime",
                "types", "bisect", "heapq", "statistics", "struct", "contextlib", "unicodedata", "keyword", "__future__", "cmath", "difflib", "hashlib", "base64", "binascii", "array", "weakref", "typing_extensions"}
    for m in project.modules.values():
        chk.saw_module(m)
        for n in ast.walk(m.tree):
            mods = []
            if isinstance(n, ast.Import):
                mods = [a.name.split(".")[0] for a in n.names]
            elif isinstance(n, ast.ImportFrom) and n.level == 0 and n.module:
                mods = [n.module.split(".")[0]]
            for mod in mods:
                if mod not in reviewed:
                    raise AnalysisError(f"{project.loc(m, n)}: import of unreviewed module '{mod}': its I/O behaviour is not in the primitive table")

    # ---------------------------------------------------------------- R6
    for m in project.modules.values():
        sc = Scope(project, None, m)
        bad = []
        for st in m.tree.body:
            if isinstance(st, (ast.FunctionDef, ast.AsyncFunctionDef, ast.ClassDef)):
                continue
            if isinstance(st, ast.If) and "__name__" in norm_text(st.test):
                continue
            for c in ast.walk(st):
                if isinstance(c, ast.Call):
                    q = sc.resolve(c.func)
                    if io_kind_of(q) or (q and q in project.funcs and eff.io_kinds(q)):
                        bad.append((c, q))
        if not m.name.startswith("cm_colors.cli"):
            chk.check(not bad, "R6", f"{m.name}:<module>", norm_text(bad[0][0]) if bad else "", project.loc(m, bad[0][0]) if bad else m.relpath,
                      f"module {m.name} performs no I/O when imported", how="no top-level call resolves to an I/O primitive or to a function reaching one",
                      message=f"import-time I/O: {bad[0][1] if bad else ''}")

    # ---------------------------------------------------------------- R1
    for q in ENTRY_SILENT:
        fi = project.func(q)
        chk.saw_function(fi)
        sites = eff.io_reach(q)
        reach = eff.reach(q)
        for r in reach:
            chk.saw_function(project.funcs[r])
        if sites:
            for (fq, site) in sites:
                sfi = project.funcs[fq]
                chk.fail("R1", sfi.short, norm_text(site.node), project.loc(sfi.module, site.node),
                         f"{site.kind} I/O ({site.what}) reachable from {fi.short}, which takes no show/save_report: output or files without being asked")
        else:
            chk.ok("R1", f"{project.loc(fi.module, fi.node)} {fi.short}", f"reaches no I/O primitive ({len(reach)} functions in its call closure)",
                   "transitive closure over resolved calls and property loads")

    # ---------------------------------------------------------------- R7 defaults: nothing is requested unless the caller asks
    chk.rule("R7", "the show / save_report parameters default to False (previews and reports are opt-in)")
    for q7 in (MAKE, BULK):
        f7 = project.func(q7)
        for pn in ("show", "save_report"):
            if pn not in f7.params():
                continue
            d7 = f7.defaults().get(pn)
            ok7 = isinstance(d7, ast.Constant) and d7.value is False
            chk.check(ok7, "R7", f7.short, f"{pn}={norm_text(d7) if d7 is not None else '<required>'}", project.loc(f7.module, d7 if d7 is not None else f7.node), f"{f7.name}({pn}=False) by default", how="constant default False", nontrivial=False,
                      message=f"{pn} defaults to {norm_text(d7) if d7 is not None else 'no value'}: a plain call writes output / files without being asked")

    # ---------------------------------------------------------------- R8: what the console preview is painted with
    chk.rule("R8", "make_readable: once a hex rendering of the tuned colour has been computed on a path, that rendering (not the raw return value, which rich cannot parse for hsl()) is what to_console receives as a colour")
    from sa.dataflow import solve as _solve
    mk = project.func(MAKE)
    kcfg = build_cfg(mk.node)
    ksc = Scope(project, mk)
    TOC = "cm_colors.core.visualiser.to_console"

    def hex_kind(e) -> bool:
        if isinstance(e, ast.Call) and isinstance(e.func, ast.Attribute) and e.func.attr == "to_hex":
            return True
        if isinstance(e, ast.Call) and ksc.resolve_call(e) == "cm_colors.core.conversions.rgb_to_hex":
            return True
        if isinstance(e, ast.JoinedStr):
            specs = ["".join(x.value for x in v.format_spec.values if isinstance(x, ast.Constant)) for v in e.values if isinstance(v, ast.FormattedValue) and v.format_spec is not None]
            return len(specs) == 3 and all(sp.endswith("x") for sp in specs) and any(isinstance(v, ast.Constant) and str(v.value).startswith("#") for v in e.values)
        return False

    from sa.resolve import local_aliases as _la, unalias as _ua
    k_aliases = _la(mk.node)

    def of_own_pair(e) -> bool:      # self.text.to_hex() / self.bg.to_hex(): the pair's own colours, not the tuned one (also through text = self.text)
        return isinstance(e, ast.Call) and isinstance(e.func, ast.Attribute) and norm_text(_ua(e.func.value, k_aliases)) in ("self.text", "self.bg")
    n_prev = 0
    for knode in kcfg.nodes:
        for e in node_exprs(knode):
            for c in ast.walk(e):
                if not (isinstance(c, ast.Call) and ksc.resolve_call(c) == TOC):
                    continue
                b8 = bind_args(project.func(TOC), c)
                for pname in ("fg", "bg", "tuned_fg"):
                    a = b8.get(pname)
                    if not isinstance(a, ast.Name):
                        continue
                    n_prev += 1
                    var = a.id

                    def tr(node, state):
                        x = node.ast
                        hexes = [h for h in (ast.walk(x) if node.kind in ("stmt", "cond", "return") and x is not None else []) if isinstance(h, (ast.Call, ast.JoinedStr)) and hex_kind(h) and not of_own_pair(h)]
                        if hexes:
                            state = frozenset((v, k, d, True if k != "hex" else f) for (v, k, d, f) in state)
                        st = node_stores(node)
                        if not st:
                            return state
                        kept = {e4 for e4 in state if e4[0] not in st}
                        if node.kind == "stmt" and isinstance(x, ast.Assign) and len(x.targets) == 1 and isinstance(x.targets[0], ast.Name):
                            t = x.targets[0].id
                            if hex_kind(x.value):
                                return frozenset(kept | {(t, "hex", node.id, False)})
                            if isinstance(x.value, ast.Name):
                                src = {(t, k, d, f) for (v, k, d, f) in state if v == x.value.id}
                                if src:
                                    return frozenset(kept | src)        # a copy keeps the kind of what it copies
                        return frozenset(kept | {(v, "raw", node.id, False) for v in st})
                    IN8, _ = _solve(kcfg, frozenset((p0, "raw", -1, False) for p0 in mk.params()), tr, lambda n, l, st: None if l == "exc" else st, lambda n, inc: frozenset().union(*[s3 for _, _, s3 in inc]))
                    bad = sorted({d for (v, k, d, f) in (IN8.get(knode.id) or ()) if v == var and f and k != "hex"})
                    chk.check(not bad, "R8", mk.short, norm_text(c)[:100], project.loc(mk.module, c), f"to_console's `{pname}` is the hex rendering whenever one was computed on the path",
                              how="definitions of the argument tracked together with 'a hex rendering of the tuned colour has been computed since'",
                              message=f"to_console receives `{var}` as defined at line(s) {[kcfg.nodes[d].lineno if d >= 0 else 0 for d in bad]} although a hex rendering was computed after that definition: the preview is painted with the raw return value (an hsl() string makes rich raise ColorParseError, so show=True raises where the plain call returns)")
    chk.floor("colour arguments of the console preview", n_prev, 3)

    # ---------------------------------------------------------------- R12: the preview takes the returned value apart only after looking at it
    chk.rule("R12", "inside the show / save_report region of make_readable a destructuring `a, b, c = x` of a name is dominated by a test of that very name "
                    "(isinstance(x, tuple)) or sits in a catch-all try: the returned colour is a string for most spellings, and unpacking it raises where the plain call returns")
    import re as _re
    from sa.guards import guard_states as _gs12, common_literals as _cl12
    kG12 = _gs12(kcfg)
    catch_all = set()
    for t12 in ast.walk(mk.node):
        if isinstance(t12, ast.Try) and any(h.type is None or (isinstance(h.type, ast.Name) and h.type.id in ("Exception", "BaseException", "ValueError")) for h in t12.handlers):
            for b12 in t12.body:
                catch_all.update(id(x) for x in ast.walk(b12))
    for knode in kcfg.nodes:
        x = knode.ast
        if not (knode.kind == "stmt" and isinstance(x, ast.Assign) and len(x.targets) == 1 and isinstance(x.targets[0], (ast.Tuple, ast.List)) and isinstance(x.value, ast.Name)):
            continue
        lits = _cl12(kG12.get(knode.id))
        if not any(v and t in ("show", "save_report") for t, v in lits):
            continue
        name = x.value.id
        tested = [t for t, v in lits if _re.search(rf"\b{_re.escape(name)}\b", t)]
        chk.check(bool(tested) or id(x) in catch_all, "R12", mk.short, norm_text(x), project.loc(mk.module, x), f"`{norm_text(x)}` runs only under a test of {name}",
                  how=f"guards mentioning {name}: {sorted(tested)}",
                  message=f"`{norm_text(x)}` in the preview is not dominated by any test of {name} (guards: {sorted(t for t, v in lits)[:4]}): for inputs whose formatted result is a string (hex, rgba tuple, names) "
                          f"the unpack raises ValueError -- show=True raises where the plain call returns")

    # ---------------------------------------------------------------- R13: the raw return value never reaches the console preview unexamined
    chk.rule("R13", "make_readable's preview: between a definition of to_console's tuned colour as the raw return value and the call, every path renders a hex form or "
                    "re-reads the result (Color(<result>)): the raw value is an hsl() / rgb() string for those spellings, which rich cannot parse -- show=True would raise")
    for knode in kcfg.nodes:
        for e in node_exprs(knode):
            for c in ast.walk(e):
                if not (isinstance(c, ast.Call) and ksc.resolve_call(c) == TOC):
                    continue
                a13 = bind_args(project.func(TOC), c).get("tuned_fg")
                if not isinstance(a13, ast.Name):
                    continue
                var = a13.id

                def examines(n13):
                    if n13.kind == "cond" and n13.ast is not None and any(isinstance(h, ast.Attribute) and h.attr == "is_valid" and isinstance(h.value, ast.Name) and h.value.id != "self" for h in ast.walk(n13.ast)):
                        return True     # the validity of a re-read colour is tested here: on its false branch there is nothing better to show
                    for e13 in node_exprs(n13):
                        for h in ast.walk(e13):
                            if isinstance(h, (ast.Call, ast.JoinedStr)) and hex_kind(h) and not of_own_pair(h):
                                return True
                            if isinstance(h, ast.Call) and (ksc.resolve_call(h) or "").split(".__init__")[0].endswith("colors.Color"):
                                return True
                    return False
                S13 = {n13.id for n13 in kcfg.nodes if examines(n13)}
                defs13 = [n13 for n13 in kcfg.nodes if n13.kind == "stmt" and isinstance(n13.ast, ast.Assign) and var in node_stores(n13)]
                handler_nodes = set()
                for t13 in ast.walk(mk.node):
                    if isinstance(t13, ast.Try):
                        for h13 in t13.handlers:
                            handler_nodes.update(id(x) for b in h13.body for x in ast.walk(b))
                returned13 = {x.id for r13 in ast.walk(mk.node) if isinstance(r13, ast.Return) and r13.value is not None for x in ast.walk(r13.value) if isinstance(x, ast.Name)}

                for _i13 in range(3):       # ... and what the returned tuple is unpacked into / built from (`tuned, ok = result`, `result = (formatted, ok)`)
                    for a13_ in ast.walk(mk.node):
                        if isinstance(a13_, ast.Assign) and len(a13_.targets) == 1:
                            t13_, v13_ = a13_.targets[0], a13_.value
                            if isinstance(t13_, ast.Tuple) and isinstance(v13_, ast.Name) and v13_.id in returned13:
                                returned13 |= {x.id for x in t13_.elts if isinstance(x, ast.Name)}
                            if isinstance(t13_, ast.Name) and t13_.id in returned13 and isinstance(v13_, ast.Tuple):
                                returned13 |= {x.id for x in v13_.elts if isinstance(x, ast.Name)}

                def is_raw(v13):     # the returned colour itself (or its str()): anything else is not this rule's business
                    if isinstance(v13, ast.Call) and isinstance(v13.func, ast.Name) and v13.func.id == "str" and len(v13.args) == 1:
                        v13 = v13.args[0]
                    return isinstance(v13, ast.Name) and v13.id in returned13
                for d13 in defs13:
                    if d13.id in S13 or id(d13.ast) in handler_nodes or not is_raw(d13.ast.value):
                        continue
                    lits13 = _cl12(kG12.get(d13.id))
                    if any(t.endswith(".is_valid") and v is False for t, v in lits13):
                        continue        # the re-read result was looked at and is not a colour: nothing better to show
                    kills = {n13.id for n13 in defs13 if n13.id != d13.id}
                    seen13, stack13 = set(), [d for d, _l in kcfg.succ[d13.id]]
                    while stack13:
                        n_ = stack13.pop()
                        if n_ in seen13 or n_ in S13 or n_ in kills:
                            continue
                        seen13.add(n_)
                        stack13.extend(d for d, _l in kcfg.succ[n_])
                    chk.check(knode.id not in seen13, "R13", mk.short, norm_text(d13.ast), project.loc(mk.module, d13.ast),
                              f"`{norm_text(d13.ast)}` reaches to_console only through a hex rendering or a re-read of the result",
                              how=f"{len(S13)} examining node(s); reachability from the definition avoiding them and later definitions of {var}",
                              message=f"`{norm_text(d13.ast)}` reaches to_console's tuned colour along a path that neither renders a hex form nor re-reads the result: for hsl() (and other functional) "
                                      f"spellings the preview hands rich a string it cannot parse and show=True raises where the plain call returns")

    # ---------------------------------------------------------------- R9: the re-read colour is rendered when (and only when) it is valid
    chk.rule("R9", "make_readable's preview takes the hex rendering of the re-read result on the path where that colour is valid, never on the path where it is not "
                   "(to_hex() of an invalid colour is None; a valid hsl() result left unrendered makes rich raise)")
    from sa.guards import guard_states as _gs, common_literals as _cl
    kG = _gs(kcfg)
    for knode in kcfg.nodes:
        x = knode.ast
        if knode.kind == "stmt" and isinstance(x, ast.Assign) and isinstance(x.value, ast.Call) and isinstance(x.value.func, ast.Attribute) and x.value.func.attr == "to_hex" \
                and isinstance(x.value.func.value, ast.Name) and not of_own_pair(x.value):
            recv = x.value.func.value.id
            lits = _cl(kG.get(knode.id))
            inverted = (f"{recv}.is_valid", False) in lits
            chk.check(not inverted, "R9", mk.short, norm_text(x), project.loc(mk.module, x), f"{recv}.to_hex() is taken on the path where {recv} is valid",
                      how=f"guards: {sorted(t for t, v in lits if recv in t)}",
                      message=f"`{norm_text(x)}` executes only when {recv} is NOT valid: a valid re-read result (e.g. an hsl() string) reaches the preview unrendered and rich raises ColorParseError -- show=True raises where the plain call returns")

    # ---------------------------------------------------------------- R11: no result is chosen by the flags
    chk.rule("R11", "no return statement of make_readable / make_readable_bulk is reachable only under a particular value of show / save_report "
                    "(a fast path for 'nothing to draw' makes the plain call and the previewed call return different things)")
    for q11 in (MAKE, BULK):
        f11 = project.func(q11)
        c11 = build_cfg(f11.node)
        G11 = _gs(c11)
        from sa.wire import Origins as _O11
        o11 = _O11(project, f11, c11)
        ret_origins = {}
        for n11 in c11.nodes:
            if n11.kind == "return":
                ret_origins[n11.id] = o11.of(n11.id, n11.ast.value) if n11.ast.value is not None else ("const", None)
        for n11 in c11.nodes:
            if n11.kind != "return":
                continue
            lits = _cl(G11.get(n11.id))
            dep = sorted(t for (t, v) in lits if any(w in ("show", "save_report") for w in t.replace("(", " ").replace(")", " ").replace(",", " ").split()))
            if dep and any(k != n11.id and ret_origins[k] == ret_origins[n11.id] for k in ret_origins):
                dep = []        # an early `return result` when nothing is to be drawn: the very value the full path returns
            chk.check(not dep, "R11", f11.short, norm_text(n11.ast)[:80], project.loc(f11.module, n11.ast), "the return is reached whatever show / save_report are",
                      how=f"guards on every path: {sorted(t for t, v in lits)[:6]}",
                      message=f"`{norm_text(n11.ast)[:60]}` is reached only when `{dep[0] if dep else ''}` has a particular value: with show / save_report the call returns something else than without")

    # ---------------------------------------------------------------- R10: the bulk report formats parsed colours, not the caller's raw values
    chk.rule("R10", "inside the save_report region of make_readable_bulk a validating converter (core.conversions.*) is only ever given a parsed colour (a Color's rgb / the returned colour), "
                    "never the caller's raw entry: raw tuples in other accepted spellings (hsl tuples, strings) make it raise, so asking for the report would change the outcome")
    from sa.wire import Origins, show as oshow
    bk = project.func(BULK)
    bcfg = build_cfg(bk.node)
    borg = Origins(project, bk, bcfg)
    bsc = Scope(project, bk)
    pairs_param = bk.params()[0]

    def raw_entry(o) -> bool:
        if isinstance(o, frozenset):
            return any(raw_entry(z) for z in o)
        if not isinstance(o, tuple) or not o:
            return False
        if o[0] == "elem" and o[1] == ("param", pairs_param):
            return True
        if o[0] in ("item", "index", "elem"):
            return raw_entry(o[1])
        if o[0] == "phi":
            return any(raw_entry(z) for z in o[1])
        if o[0] == "ifexp":
            return raw_entry(o[2]) or raw_entry(o[3])
        if o[0] == "tuple":
            return any(raw_entry(z) for z in o[1])
        return False
    n_conv = 0
    for bnode in bcfg.nodes:
        for e in node_exprs(bnode):
            for c in ast.walk(e):
                if isinstance(c, ast.Call) and (bsc.resolve_call(c) or "").startswith("cm_colors.core.conversions.") and c.args:
                    n_conv += 1
                    o = borg.of(bnode.id, c.args[0])
                    chk.check(not raw_entry(o), "R10", bk.short, norm_text(c), project.loc(bk.module, c), "the converter is given a parsed colour",
                              how=f"origin: {oshow(o)[:80]}",
                              message=f"`{norm_text(c)}` formats the caller's raw entry ({oshow(o)[:60]}) with a validating converter: for accepted spellings that are not 0-255 integer triples "
                                      f"(hsl tuples, numeric strings) it raises inside the report code, so save_report=True raises where the plain call returns")
    chk.floor("converter calls in make_readable_bulk", n_conv, 2)

    # ---------------------------------------------------------------- R2..R4 per API function
    total_io_nodes = 0
    for q, file_param in ((MAKE, "save_report"), (BULK, "save_report")):
        fi = project.func(q)
        m = fi.module
        cfg = build_cfg(fi.node)
        chk.saw_function(fi, cfg)
        sc = Scope(project, fi)
        params = set(fi.params())
        have_show = "show" in params
        if file_param not in params:
            raise AnalysisError(f"{fi.short}: parameter {file_param} vanished")
        G = guard_states(cfg)
        cond.requirements(q)
        derived = cond.derived.get(q, {})

        def alt_has(alt, pname):
            if (pname, True) in alt:
                return True
            for (t, v) in alt:
                if v and t in derived and (pname, True) in derived[t]:
                    return True
            return False

        # R3: uses of the flags
        for pname in ("show", "save_report"):
            if pname not in params:
                continue
            cond_ids = {id(n.ast) for n in cfg.nodes if n.kind == "cond"}
            bad_uses = []
            for node in cfg.nodes:
                if pname in node_stores(node):
                    bad_uses.append((node, "assigned"))
                for e in node_exprs(node):
                    for nm in ast.walk(e):
                        if isinstance(nm, ast.Name) and nm.id == pname and isinstance(nm.ctx, ast.Load):
                            if node.kind == "cond" and (nm is node.ast or norm_text(node.ast) in (pname, f"{pname} is True", f"{pname} == True", f"bool({pname})", f"{pname} is not False")):
                                continue
                            bad_uses.append((node, "used outside a branch condition"))
            chk.check(not bad_uses, "R3", fi.short, norm_text(bad_uses[0][0].ast) if bad_uses else pname, project.loc(m, bad_uses[0][0].ast) if bad_uses else project.loc(m, fi.node),
                      f"parameter {pname} is only ever tested, never assigned, forwarded or computed with",
                      how="every Load of the name is the whole of an atomic branch condition",
                      message=f"{pname} is {bad_uses[0][1] if bad_uses else ''}: the result may depend on it")
        # R2
        reqs = cond.requirements(q)
        derived = cond.derived.get(q, {})
        io_nodes = [r for r in reqs if r[4]]
        total_io_nodes += len(io_nodes)
        for (node, kind, c, what, alts) in io_nodes:
            if kind == "console":
                allowed = {"show", "save_report"} & params
            else:
                allowed = {file_param}
            need = " or ".join(sorted(allowed))
            ok = allowed_by(alts, allowed)
            chk.check(ok, "R2", fi.short, norm_text(c), project.loc(m, c),
                      f"{kind} I/O via {what} can only execute when {need} is requested",
                      how=f"on every path alternative a never-reassigned flag among {{{need}}} is known truthy: {[(sorted(cj), sorted(inn) if inn is not None else None) for cj, inn in alts[:4]]}",
                      message=f"{kind} I/O via {what} can execute without {need} being requested (path alternatives: {[(sorted(cj), sorted(inn) if inn is not None else 'unconditional') for cj, inn in alts[:4]]})")
        # R4: guarded region does not touch what return reads
        ret_names = set()
        for node in cfg.nodes:
            if node.kind == "return" and node.ast.value is not None:
                ret_names |= {n.id for n in ast.walk(node.ast.value) if isinstance(n, ast.Name)}
        region = [node for node in cfg.nodes if node.id in G and node.kind not in ("entry", "exit", "raise_exit") and
                  implied(G[node.id], lambda alt: (have_show and alt_has(alt, "show")) or alt_has(alt, "save_report"))]
        touched = []
        for node in region:
            hit = node_stores(node) & ret_names
            if hit:
                touched.append((node, f"assigns {sorted(hit)}"))
            for e in node_exprs(node):
                for c in ast.walk(e):
                    if isinstance(c, ast.Call) and isinstance(c.func, ast.Attribute) and c.func.attr in MUTATORS:
                        r = c.func.value
                        while isinstance(r, (ast.Attribute, ast.Subscript)):
                            r = r.value
                        if isinstance(r, ast.Name) and r.id in ret_names:
                            touched.append((node, f"mutates {r.id}"))
                    if isinstance(c, (ast.Subscript, ast.Attribute)) and isinstance(c.ctx, (ast.Store, ast.Del)):
                        r = c.value
                        while isinstance(r, (ast.Attribute, ast.Subscript)):
                            r = r.value
                        if isinstance(r, ast.Name) and (r.id in ret_names or r.id == "self"):
                            touched.append((node, f"stores into {r.id}"))
            if node.kind == "return":
                touched.append((node, "returns from inside the preview/report region (a different value path than the plain call)"))
        # definitions made inside the region must not reach a use outside it
        RD = reaching_defs(cfg, fi.params())
        region_ids = {n.id for n in region}
        for node in cfg.nodes:
            if node.id in region_ids or node.id not in RD:
                continue
            used = loads(node)
            for (name, d) in RD[node.id]:
                if d in region_ids and name in used:
                    touched.append((cfg.nodes[d], f"defines {name}, which is read outside the region at line {node.lineno}"))
        chk.floor(f"nodes in the show/save_report region of {fi.short}", len(region), 3)
        if touched:
            for node, why in touched:
                chk.fail("R4", fi.short, norm_text(node.ast), project.loc(m, node.ast),
                         f"preview/report region {why}: the returned value differs from the plain call's")
        else:
            chk.ok("R4", f"{project.loc(m, fi.node)} {fi.short}", f"the {len(region)} CFG nodes guarded by show/save_report assign or mutate none of {sorted(ret_names)} and contain no return",
                   "store/mutator census over the guarded region")
        # R5: report file name at the call site
        calls = [c for c in own_nodes(fi.node) if isinstance(c, ast.Call) and sc.resolve_call(c) == TO_HTML_BULK]
        chk.floor(f"to_html_bulk call sites in {fi.short}", len(calls), 1)
        for c in calls:
            chk.analysed["call_sites"] += 1
            b = bind_args(project.func(TO_HTML_BULK), c)
            a = b.get("output_path")
            val = a.value if isinstance(a, ast.Constant) else None
            chk.check(val == REPORT_NAMES[q], "R5", fi.short, norm_text(c), project.loc(m, c),
                      f"report is written to the documented relative name {REPORT_NAMES[q]!r} in the working directory",
                      how=f"output_path argument is the constant {val!r}",
                      message=f"report path is {norm_text(a) if a is not None else 'the default'} instead of {REPORT_NAMES[q]!r}")
    chk.floor("CFG nodes that reach I/O in make_readable + make_readable_bulk", total_io_nodes, 5)

    # R5 inside to_html_bulk
    fi = project.func(TO_HTML_BULK)
    chk.saw_function(fi)
    files = [(fq, s) for fq, s in eff.io_reach(TO_HTML_BULK) if s.kind == "file"]
    good = len(files) == 1 and files[0][1].what == "builtins.open" and files[0][1].mode == "w" and files[0][1].node.args and isinstance(files[0][1].node.args[0], ast.Name) and files[0][1].node.args[0].id == "output_path"
    # output_path must not be reassigned
    reassigned = any(isinstance(n, ast.Name) and n.id == "output_path" and isinstance(n.ctx, ast.Store) for n in own_nodes(fi.node))
    chk.check(good and not reassigned, "R5", fi.short, norm_text(files[0][1].node) if files else "open(...)", project.loc(fi.module, files[0][1].node if files else fi.node),
              "to_html_bulk performs exactly one file write: open(output_path, 'w') on its unmodified parameter",
              how=f"{len(files)} file I/O site(s) in its call closure", message=f"report writer's file effects are not exactly open(output_path, 'w'): {[(f, s.what, s.mode) for f, s in files]}")
