"""C08 -- CLI: what cm-colors reports is what it wrote, and every rule is accounted for (structural clauses)."""
from __future__ import annotations

import ast

from sa import contracts as C
from sa.cfg import build_cfg, node_exprs
from sa.dataflow import solve
from sa.guards import guard_states, common_literals, implied
from sa.loader import AnalysisError, norm_text
from sa.resolve import Scope, own_nodes, bind_args
from sa.wire import Origins, show as oshow

LEVEL = "other"
EXPLANATION = (
    "Path and wiring rules over cli/main.py: (X1) along every normal path through the processing of one rule that has a text colour "
    "exactly one of the three counters is incremented (a rule without one touches none); with exception edges the handler adds exactly "
    "one when nothing was counted yet; (X2) the value written into the stylesheet and the value stored as 'tuned_text' in the report "
    "record are the same value, namely the first component of pair.make_readable(mode=mode, very_readable=premium) on the pair built "
    "from the resolved (text, background) of that rule -- the Python API on the same pair and settings -- and 'adjusted' is counted only "
    "under its success flag; 'already readable' only under contrast >= target; (X3) every path from the 'adjusted' counter to the "
    "report record passes through a write of that colour, and no write is reachable on the paths that count 'already readable' / "
    "'needs attention'; (X4) every write survives to the output: the list a declaration was updated in is the list serialised last "
    "into that rule's content; (X5) the CLI target (7.0 if --premium else 4.5, inclusive) equals the optimiser's minimum for normal "
    "text, and pairs are built with large_text defaulted; (X6) last color / background-color declaration wins, the background falls "
    "back to --default-bg (default white), variables are resolved before judging; (X7) nested @media/@supports recursion forwards all "
    "settings unchanged and writes the nested list back."
)
TRUSTED = ["stdlib ast", "tinycss2 node lists are mutable and shared by reference (a declaration updated in a list is serialised with that list)",
           "C01 (the success flag is the WCAG verdict) and C06 (format wrappers) for 'the reported colour meets the target'"]

CLI = "cm_colors.cli.main"
PNR = f"{CLI}.process_nodes_recursive"
UPD = f"{CLI}.update_decl_value"
MR = "cm_colors.core.colors.ColorPair.make_readable"
CP = "cm_colors.core.colors.ColorPair"
CR = "cm_colors.core.contrast.calculate_contrast_ratio"
COUNTERS = ("accessible", "tuned", "failed")
PARSE_DECLS = {"tinycss2.parse_declaration_list", "tinycss2.parser.parse_declaration_list", "tinycss2.parse_blocks_contents", "tinycss2.parser.parse_blocks_contents"}


def node_stores_of(node):
    from sa.guards import node_stores
    return node_stores(node)


def counter_of(node):
    a = node.ast
    if node.kind == "stmt" and isinstance(a, ast.AugAssign) and isinstance(a.op, ast.Add) and isinstance(a.target, ast.Subscript) \
            and isinstance(a.target.value, ast.Name) and isinstance(a.target.slice, ast.Constant) and a.target.slice.value in COUNTERS:
        return a.target.slice.value
    return None


def run(project, chk):
    chk.rule("X1", "exactly one of accessible/tuned/failed is incremented on every normal path through a rule with a text colour; none for a rule without; the exception handler adds exactly one when nothing was counted")
    chk.rule("X2", "written value == reported value == pair.make_readable(mode=mode, very_readable=premium)[0] for the rule's resolved pair; 'adjusted' only under the returned success flag; 'already readable' only under contrast(pair) >= target")
    chk.rule("X3", "every path from stats['tuned'] += 1 to the report record passes through a write of the tuned colour (update_decl_value / custom-property definition); no write on paths counted otherwise")
    chk.rule("X4", "every write survives to the output: the declaration list that was updated is the one serialised last into that rule's content")
    chk.rule("X5", "CLI target = 7.0 if premium else 4.5 (inclusive) = the optimiser's minimum for normal text; pairs are built with large_text defaulted to False")
    chk.rule("X6", "pair extraction: last color / background-color wins; background falls back to default_bg; variables resolved before judging; --default-bg defaults to white")
    chk.rule("X7", "nested @media/@supports: the recursion forwards default_bg, stats, file_path, variables, mode, premium unchanged and the nested list is written back")
    chk.not_decided += ["that updating a shared custom property keeps rules that were already counted readable (a history property of run-time values)",
                        "the HTML cards beyond injection safety (C19); the effect of exceptions raised after the 'adjusted' counter (F-C08c: reachable only through an unparseable tuned colour, see C06)"]
    chk.assumptions += ["C01: make_readable's success flag is the WCAG verdict for the minimum of (very_readable, large_text=False)"]

    fi = project.func(PNR)
    m = fi.module
    cfg = build_cfg(fi.node)
    chk.saw_function(fi, cfg)
    sc = Scope(project, fi)
    org = Origins(project, fi, cfg)
    G = guard_states(cfg)

    # ------------------------------------------------------------ locate the rule loop and the pieces
    loop = None
    for lp in cfg.loops:
        if lp["kind"] == "for" and isinstance(lp["stmt"].iter, ast.Name) and lp["stmt"].iter.id == fi.params()[0]:
            loop = lp
    if loop is None:
        raise AnalysisError("process_nodes_recursive: loop over the node list not found")
    body = set(loop["body"])
    counters = {n.id: counter_of(n) for n in cfg.nodes if counter_of(n)}
    upd_nodes = set()          # nodes that write the tuned colour into the stylesheet model
    upd_calls = []
    for node in cfg.nodes:
        for e in node_exprs(node):
            for c in ast.walk(e):
                if isinstance(c, ast.Call) and sc.resolve_call(c) == UPD:
                    upd_nodes.add(node.id)
                    upd_calls.append((node, c))
    chk.floor("update_decl_value call sites in process_nodes_recursive", len(upd_calls), 2)
    chk.floor("counter increments in process_nodes_recursive", len(counters), 4)
    append_nodes = []
    for node in cfg.nodes:
        for e in node_exprs(node):
            for c in ast.walk(e):
                if isinstance(c, ast.Call) and isinstance(c.func, ast.Attribute) and c.func.attr == "append" and isinstance(c.func.value, ast.Subscript) and isinstance(c.func.value.slice, ast.Constant) and c.func.value.slice.value == "fixed_details":
                    append_nodes.append((node, c))
    chk.floor("fixed_details.append sites", len(append_nodes), 1)
    # the condition that tells whether the rule has a text colour
    color_conds = [n for n in cfg.nodes if n.kind == "cond" and isinstance(n.ast, ast.Name) and n.id in body and org.of(n.id, n.ast)[0] in ("phi", "elem", "const")
                   and any(isinstance(x, ast.Name) and x.id == n.ast.id for x in ast.walk(loop["stmt"])) and "color" in n.ast.id and "bg" not in n.ast.id]
    if len(color_conds) != 1:
        raise AnalysisError(f"process_nodes_recursive: expected one `if <color declaration>:` test, found {len(color_conds)}")
    cc = color_conds[0]

    # ------------------------------------------------------------ X1
    for nid in counters:
        a = cfg.nodes[nid].ast
        chk.check(isinstance(a.value, ast.Constant) and a.value.value == 1, "X1", fi.short, norm_text(a), project.loc(m, a), "a counter is incremented by exactly one per rule", how="`+= 1`",
                  message=f"the counter is incremented by {norm_text(a.value)}, not by 1: the summary does not count rules")
    # X0: every local is assigned before it is read, on all paths (a rule shape the tests never exercise must not hit an unbound name)
    chk.rule("X0", "definite assignment: no path through the rule processing / main reads a local that was not assigned on that path")
    from sa.defuse import possibly_unbound
    for f0, c0 in ((fi, cfg),):
        pu = possibly_unbound(c0, f0.node, f0.params())
        for node0, name0 in pu:
            chk.fail("X0", f0.short, f"{name0} in {norm_text(node0.ast)[:60]}", project.loc(f0.module, node0.ast), f"`{name0}` can be read before it is assigned on some path (e.g. a rule without the declaration that sets it): the rule processing raises instead of classifying the rule")
        if not pu:
            chk.ok("X0", f"{project.loc(f0.module, f0.node)} {f0.short}", "every local is definitely assigned before use", "must-assigned dataflow over the CFG")

    def count_flow(with_exc: bool):
        def transfer(node, state):
            if node.id == loop["bind"]:
                return frozenset({(0, None)})
            if node.id in counters:
                return frozenset((min(c + 1, 3), f) for (c, f) in state)
            return state

        def edge(node, label, state):
            if label == "exc":
                return state if with_exc else None
            if node.id == cc.id and label in ("T", "F"):
                return frozenset((c, label == "T") for (c, f) in state)
            return state

        IN, _ = solve(cfg, frozenset({(0, None)}), transfer, edge, lambda n, inc: frozenset().union(*[s for _, _, s in inc]))
        return IN.get(loop["next"]) or frozenset()

    normal = count_flow(False)
    with_exc = count_flow(True)
    loc = project.loc(m, loop["stmt"])
    has_colour = sorted({c for (c, f) in normal if f is True})
    no_colour = sorted({c for (c, f) in normal if f is not True})
    chk.check(has_colour == [1], "X1", fi.short, "counters per rule with a text colour", loc, "a rule with a text colour increments exactly one counter on every normal path",
              how=f"may-set of increment counts at the end of an iteration: {has_colour}", message=f"a rule with a text colour is counted {has_colour} times on some path (must be exactly once): the three categories do not partition the rules")
    chk.check(no_colour in ([0], []), "X1", fi.short, "counters per rule without a text colour", loc, "a rule without a text colour touches no counter", how=f"counts: {no_colour}",
              message=f"a rule without a text colour is counted {no_colour} times")
    exc_colour = sorted({c for (c, f) in with_exc if f is True})
    chk.check(0 not in exc_colour, "X1", fi.short, "exception handler counter", loc, "a rule whose processing raises is still counted (the handler increments one counter)", how=f"counts including exception edges: {exc_colour}",
              message="a rule whose processing raises before any counter was incremented ends up in no category")
    if any(c > 1 for c in exc_colour):
        chk.note("X1 hazard (F-C08c): stats['tuned'] += 1 precedes calls inside the try whose handler also increments 'failed'; only reachable if a call after the increment raises (e.g. an unparseable tuned colour, excluded by C06)")

    # ------------------------------------------------------------ X2
    tuned_nodes = [nid for nid, k in counters.items() if k == "tuned"]
    acc_nodes = [nid for nid, k in counters.items() if k == "accessible"]
    chk.floor("'tuned' increments", len(tuned_nodes), 1)
    chk.floor("'accessible' increments", len(acc_nodes), 1)

    def is_api_colour(o):
        """item 0 of pair.make_readable(mode=mode, very_readable=premium) with pair = ColorPair(text, bg) [large defaulted]"""
        if not (o[0] == "item" and o[2] == 0 and o[1][0] == "call" and o[1][1] == MR):
            return False, "not the first component of ColorPair.make_readable"
        call = o[1]
        kws = dict(call[3])
        pos = list(call[2])
        mode = kws.get("mode", pos[0] if pos else None)
        very = kws.get("very_readable", pos[1] if len(pos) > 1 else None)
        if mode != ("param", "mode") or very != ("param", "premium"):
            return False, f"settings not forwarded: mode={oshow(mode) if mode else None}, very_readable={oshow(very) if very else None}"
        extra = [k for k in kws if k not in ("mode", "very_readable")]
        if extra or len(pos) > 2:
            return False, f"extra arguments {extra}"
        recv = call[4]
        if not (recv is not None and recv[0] == "call" and recv[1] == CP):
            return False, "receiver is not a ColorPair built here"
        if len(recv[2]) + len(recv[3]) != 2:
            return False, "ColorPair built with a large_text argument (the CLI target assumes normal text)"
        return True, oshow(o)[:160]

    written = []
    for node, c in upd_calls:
        b = bind_args(project.func(UPD), c)
        v = b.get("new_value_str")
        o = org.of(node.id, v)
        ok, why = is_api_colour(o)
        written.append(o)
        chk.check(ok, "X2", fi.short, norm_text(c), project.loc(m, c), "the value written is the Python API's colour for this rule's pair and the CLI's settings", how=why,
                  message=f"the value written into the stylesheet is {oshow(o)[:120]}: {why}")
    for node, c in append_nodes:
        d = c.args[0] if c.args else None
        o = org.of(node.id, d) if d is not None else ("expr", "?")
        rec = dict((k[1], v) for k, v in o[1] if k[0] == "const") if o[0] == "dict" else {}
        tt = rec.get("tuned_text")
        ok = tt is not None and all(tt == w for w in written) and bool(written)
        chk.check(ok, "X2", fi.short, norm_text(c)[:80], project.loc(m, c), "the colour reported as 'tuned_text' is the very value that was written", how=f"tuned_text origin == origin of every write ({oshow(tt)[:80] if tt else None})",
                  message=f"the report shows {oshow(tt)[:100] if tt else None} but the stylesheet receives {[oshow(w)[:80] for w in written]}")
        sel = rec.get("selector")
        chk.check(sel is not None and sel[0] == "call" and sel[1] == f"{CLI}.serialize_prelude", "X2", fi.short, "selector field", project.loc(m, c), "the report names the rule by its selector", how=oshow(sel)[:80] if sel else "",
                  message="the report record does not carry the rule's selector")
    for nid in tuned_nodes:
        lits = G.get(nid)
        node = cfg.nodes[nid]
        # guard: the success flag of the same make_readable call
        flag_ok = False
        for cn in cfg.nodes:
            if cn.kind == "cond" and (norm_text(cn.ast), True) in common_literals(lits):
                o = org.of(cn.id, cn.ast)
                if o[0] == "item" and o[2] == 1 and o[1][0] == "call" and o[1][1] == MR:
                    flag_ok = True
        chk.check(flag_ok, "X2", fi.short, norm_text(node.ast), project.loc(m, node.ast), "'adjusted' is counted only when make_readable reported success", how=f"guards: {sorted(t for t, v in common_literals(lits) if v)[-3:]}",
                  message="'adjusted' is counted without (or against) the success flag make_readable returned for this pair")
    for nid in acc_nodes:
        node = cfg.nodes[nid]
        good = False
        for (t, v) in common_literals(G.get(nid)):
            if not v:
                continue
            for cn in cfg.nodes:
                if cn.kind == "cond" and norm_text(cn.ast) == t:
                    o = org.of(cn.id, cn.ast)
                    if o[0] == "cmp" and o[1] == ">=" and o[2][0] == "call" and o[2][1] == CR:
                        a0, a1 = o[2][2][0], o[2][2][1]
                        pair_ok = a0[0] == "attr" and a0[2] in ("rgb", "_rgb") and a1[0] == "attr" and a1[2] in ("rgb", "_rgb") and a0[1][0] == "attr" and a1[1][0] == "attr" and {a0[1][2], a1[1][2]} == {"text", "bg"} and a0[1][1] == a1[1][1] and a0[1][1][0] == "call" and a0[1][1][1] == CP
                        tgt = o[3]
                        tgt_ok = tgt == ("ifexp", ("param", "premium"), ("const", C.WCAG_MIN[(True, False)]), ("const", C.WCAG_MIN[(False, False)]))
                        if not tgt_ok and isinstance(cn.ast, ast.Compare) and isinstance(cn.ast.comparators[0], ast.Name):
                            # conditional assignment of literals: each literal under the matching truth of `premium`
                            tname = cn.ast.comparators[0].id
                            seen_vals = {}
                            for d in org.defs(cn.id, tname):
                                dn = cfg.nodes[d] if d >= 0 else None
                                if dn is None or not (dn.kind == "stmt" and isinstance(dn.ast, ast.Assign) and isinstance(dn.ast.value, ast.Constant)):
                                    seen_vals = None
                                    break
                                lits2 = common_literals(G.get(d))
                                pol = True if ("premium", True) in lits2 else False if ("premium", False) in lits2 else None
                                seen_vals[pol] = dn.ast.value.value
                            tgt_ok = seen_vals == {True: C.WCAG_MIN[(True, False)], False: C.WCAG_MIN[(False, False)]}
                            if seen_vals is not None:
                                tgt = ("expr", f"{seen_vals.get(True)} if premium else {seen_vals.get(False)}")
                        chk.check(tgt_ok, "X5", fi.short, t, project.loc(m, cn.ast), f"the CLI target is {C.WCAG_MIN[(True, False)]} with --premium and {C.WCAG_MIN[(False, False)]} without, inclusive: the optimiser's minimum for normal text",
                                  how=f"target origin: {oshow(tgt)}", message=f"the CLI judges 'already readable' against {oshow(tgt)}, not 7.0 if premium else 4.5 (the optimiser's minimum for normal text)")
                        good = pair_ok
        chk.check(good, "X2", fi.short, norm_text(node.ast), project.loc(m, node.ast), "'already readable' is counted only under contrast(pair.text, pair.bg) >= target", how="guard literal is the >= comparison of the pair's own contrast",
                  message="'already readable' is counted without comparing this pair's contrast with the target (inclusive)")

    # ------------------------------------------------------------ X3 must-pass-through
    # local boolean flags (only ever assigned True/False): tracked so that `flag = True ... if flag:` is not a bypass
    # (also copies of such flags: `done = changed` -- what an inlined helper's result variable looks like)
    assigns = {}
    for n2 in own_nodes(fi.node):
        if isinstance(n2, ast.Assign) and len(n2.targets) == 1 and isinstance(n2.targets[0], ast.Name):
            assigns.setdefault(n2.targets[0].id, []).append(n2.value)
    stored_otherwise = set()
    for n2 in own_nodes(fi.node):
        if isinstance(n2, ast.Name) and isinstance(n2.ctx, ast.Store):
            par = next((p2 for p2 in own_nodes(fi.node) if isinstance(p2, ast.Assign) and len(p2.targets) == 1 and p2.targets[0] is n2), None)
            if par is None:
                stored_otherwise.add(n2.id)
    flag_vars = set(assigns) - stored_otherwise - set(fi.params())
    changed_f = True
    while changed_f:
        changed_f = False
        for v in list(flag_vars):
            if not all((isinstance(x, ast.Constant) and isinstance(x.value, bool)) or (isinstance(x, ast.Name) and x.id in flag_vars) for x in assigns[v]):
                flag_vars.discard(v)
                changed_f = True

    def reach_avoiding(start, avoid, stop_at_next=True):
        seen_nodes = set()
        seen = set()
        stack = [(start, frozenset())]
        while stack:
            n, fl = stack.pop()
            if (n, fl) in seen or n in avoid:
                continue
            seen.add((n, fl))
            seen_nodes.add(n)
            node = cfg.nodes[n]
            a = node.ast
            if node.kind == "stmt" and isinstance(a, ast.Assign) and len(a.targets) == 1 and isinstance(a.targets[0], ast.Name) and a.targets[0].id in flag_vars:
                cur = dict(fl)
                val = a.value.value if isinstance(a.value, ast.Constant) else cur.get(a.value.id)
                fl = frozenset({(k, v) for (k, v) in fl if k != a.targets[0].id} | ({(a.targets[0].id, val)} if val is not None else set()))
            known = dict(fl)
            for (d, lab) in cfg.succ[n]:
                if lab == "exc":
                    continue
                if node.kind == "cond" and isinstance(a, ast.Name) and a.id in known and lab in ("T", "F") and (lab == "T") != known[a.id]:
                    continue      # infeasible: the flag's value is known on this path
                if stop_at_next and d == loop["next"]:
                    seen_nodes.add(d)
                    continue
                stack.append((d, fl))
        return seen_nodes

    # the custom-property path also counts as a write: var_def["value"] = tuned together with update_decl_value on its decl
    write_nodes = set(upd_nodes)
    for an, ac in append_nodes:
        for nid in tuned_nodes:
            r = reach_avoiding(nid, write_nodes)
            if an.id in r:
                # enumerate the branch decisions of the bypassing paths
                paths = []

                def dfs(n, decisions, seen):
                    if n == an.id:
                        paths.append(tuple(decisions))
                        return
                    if n in seen or n in write_nodes or len(paths) > 20:
                        return
                    seen = seen | {n}
                    for (d, lab) in cfg.succ[n]:
                        if lab == "exc" or d == loop["next"]:
                            continue
                        dec = decisions + [f"{norm_text(cfg.nodes[n].ast)} is {'true' if lab == 'T' else 'false'}"] if cfg.nodes[n].kind == "cond" and lab in ("T", "F") else decisions
                        dfs(d, dec, seen)
                dfs(nid, [], frozenset())
                for p in sorted(set(paths)):
                    chk.fail("X3", fi.short, " ; ".join(p), project.loc(m, cfg.nodes[nid].ast),
                             f"a rule is counted and reported as adjusted but nothing is written on the path [{' ; '.join(p)}]: the output keeps the unreadable colour",
                             text="every path from stats['tuned'] += 1 to the report record writes the tuned colour")
            else:
                chk.ok("X3", f"{project.loc(m, cfg.nodes[nid].ast)} {fi.short}", "every path from stats['tuned'] += 1 to the report record passes through a write of the tuned colour", "the record is unreachable once the write nodes are removed from the CFG")
    for nid, k in counters.items():
        if k in ("accessible", "failed"):
            bad = [u for u in upd_nodes if nid in reach_avoiding(u, set())]
            node = cfg.nodes[nid]
            chk.check(not bad, "X3", fi.short, norm_text(node.ast), project.loc(m, node.ast), f"no write precedes a rule being counted '{k}' (rules not adjusted are left unchanged)", how="no normal path from a write node to this increment within the iteration",
                      message=f"a declaration can be rewritten on a path that then counts the rule as '{k}'")

    # ------------------------------------------------------------ X9: judging a rule does not depend on the rules judged before it
    chk.rule("X9", "no function the per-rule processing reaches keeps state between calls in a mutable default argument (e.g. a `visited` set shared by every var() resolution)")
    from sa.effects import Effects as _Eff, shared_default_state
    _eff = _Eff(project)
    _closure = _eff.reach(PNR) | {PNR}
    _shared = shared_default_state(project, _eff, _closure)
    for f2, pn, dn, sites in _shared:
        chk.fail("X9", f2.short, f"{pn}={norm_text(dn)}", project.loc(f2.module, dn),
                 f"{f2.name} mutates its mutable default argument {pn}={norm_text(dn)} (line(s) {sorted({getattr(x, 'lineno', 0) for x in sites})}): what a rule's colour resolves to depends on the rules processed before it, so rules are reported as readable / adjusted against the wrong colour")
    if not _shared:
        chk.ok("X9", f"{project.loc(fi.module, fi.node)} {fi.short}", f"none of the {len(_closure)} functions reachable from the rule-processing function mutates a mutable default argument", "default-argument census over the call closure with EFF's parameter-mutation summaries")

    # ------------------------------------------------------------ X8: rules needing attention are listed by selector
    chk.rule("X8", "every path that counts a rule as 'failed' appends a record with the rule's selector to failed_details")
    fail_appends = set()
    for node in cfg.nodes:
        for e in node_exprs(node):
            for c in ast.walk(e):
                if isinstance(c, ast.Call) and isinstance(c.func, ast.Attribute) and c.func.attr == "append" and isinstance(c.func.value, ast.Subscript) and isinstance(c.func.value.slice, ast.Constant) and c.func.value.slice.value == "failed_details":
                    o = org.of(node.id, c.args[0]) if c.args else ("expr", "?")
                    rec = dict((k[1], v) for k, v in o[1] if k[0] == "const") if o[0] == "dict" else {}
                    sel = rec.get("selector")
                    if sel is not None and sel[0] == "call" and sel[1] == f"{CLI}.serialize_prelude":
                        fail_appends.add(node.id)
    for nid, k in counters.items():
        if k == "failed":
            r = reach_avoiding(nid, fail_appends)
            node = cfg.nodes[nid]
            chk.check(loop["next"] not in r, "X8", fi.short, norm_text(node.ast), project.loc(m, node.ast), "a rule counted as needing attention is recorded with its selector", how="the end of the iteration is unreachable from this increment without passing a failed_details.append carrying the selector",
                      message="a rule can be counted as 'failed' without being listed (no failed_details record with its selector on some path)")

    # ------------------------------------------------------------ X4 write survival
    # (a) inside process_nodes_recursive: an updated declaration's list is serialised back into the node
    content_writes = [n for n in cfg.nodes if n.kind == "stmt" and isinstance(n.ast, ast.Assign) and any(isinstance(t, ast.Attribute) and t.attr == "content" for t in n.ast.targets)]
    chk.floor(".content write-backs in process_nodes_recursive", len(content_writes), 1)
    direct = []
    for node, c in upd_calls:
        b = bind_args(project.func(UPD), c)
        d_o = org.of(node.id, b["decl"])
        # is the target an element of a list parsed in this function from node.content?
        alts = list(d_o[1]) if d_o[0] == "phi" else [d_o]
        local = any(a[0] == "elem" and mentions_parse(a) for a in alts)
        if local:
            direct.append((node, c, d_o))
            cw = {n.id for n in content_writes}
            r = reach_avoiding(node.id, cw)
            ok = loop["next"] not in r
            chk.check(ok, "X4", fi.short, norm_text(c), project.loc(m, c), "after rewriting the rule's own declaration, the rule's content is re-serialised on every path", how="the end of the iteration is unreachable without passing a .content write-back",
                      message="the rewritten declaration is never serialised back into the rule on some path (e.g. the `modified` flag is not set): the output keeps the old colour")
        else:
            # custom-property definition: its list must be one that is written back by the caller
            okv = d_o[0] in ("item", "index") or (d_o[0] == "call" and d_o[1] == ".get")
            chk.check(okv, "X4", fi.short, norm_text(c), project.loc(m, c), "the custom-property definition that is rewritten is the declaration node stored in the variables table", how=f"target origin: {oshow(d_o)[:100]}",
                      message=f"the declaration rewritten for a custom property is {oshow(d_o)[:100]}, not the node stored in the variables table")
    chk.floor("direct declaration rewrites", len(direct), 1)
    # which list is serialised into node.content for the rule's own declarations
    decl_list_origin = None
    for n in content_writes:
        o = org.of(n.id, n.ast.value)
        if o[0] == "call" and o[2] and o[2][0][0] == "call" and o[2][0][2]:
            L = o[2][0][2][0]
            if mentions_parse(L) and L[0] != "call" or (L[0] == "call" and L[1] in PARSE_DECLS) or (L[0] == "phi" and any(mentions_parse(x) for x in L[1])):
                if any(mentions_parse(x) and (x[0] == "call" and x[1] in PARSE_DECLS) for x in (list(L[1]) if L[0] == "phi" else [L])):
                    decl_list_origin = L
    # (b) in main: a later write-back from a *snapshot* parse must not discard what process_nodes_recursive wrote
    main = project.func(f"{CLI}.main")
    mcfg = build_cfg(main.node)
    chk.saw_function(main, mcfg)
    morg = Origins(project, main, mcfg)
    msc = Scope(project, main)
    pnr_calls = [(n, c) for n in mcfg.nodes for e in node_exprs(n) for c in ast.walk(e) if isinstance(c, ast.Call) and msc.resolve_call(c) == PNR]
    chk.floor("process_nodes_recursive calls in main", len(pnr_calls), 1)
    late_writes = []
    for n in mcfg.nodes:
        if n.kind == "stmt" and isinstance(n.ast, ast.Assign) and any(isinstance(t, ast.Attribute) and t.attr == "content" for t in n.ast.targets):
            # executes after the processing call?
            if any(n.id in mcfg.reachable(pn.id) for pn, _ in pnr_calls):
                late_writes.append(n)
    for n in late_writes:
        o = morg.of(n.id, n.ast.value)
        src = o[2][0][2][0] if (o[0] == "call" and o[2] and o[2][0][0] == "call" and o[2][0][2]) else None
        is_snapshot = src is not None and src[0] == "index"       # looked up in the id()-keyed snapshot map
        # does process_nodes_recursive use that same snapshot for the rules that have one?
        shares = False
        detail = "process_nodes_recursive always re-parses node.content into its own list"
        if is_snapshot and isinstance(n.ast.value, ast.Call):
            map_name = None
            for x in ast.walk(n.ast.value):
                pass
            # find the map variable: subscript base in the definition chain
            for d in own_nodes(main.node):
                if isinstance(d, ast.Subscript) and isinstance(d.slice, ast.Call) and msc.resolve(d.slice.func) == "builtins.id" and isinstance(d.value, ast.Name):
                    map_name = d.value.id
            passed = None
            for pn, c in pnr_calls:
                b = bind_args(fi, c)
                for p, a in b.items():
                    if isinstance(a, ast.Name) and a.id == map_name:
                        passed = p
            if passed is not None:
                # inside process_nodes_recursive the rule's declaration list must come from that parameter when it has an entry
                for pnode in cfg.nodes:
                    a = pnode.ast
                    if pnode.kind == "stmt" and isinstance(a, ast.Assign) and any(isinstance(t, ast.Name) for t in a.targets):
                        vo = org.of(pnode.id, a.value)
                        for alt in (list(vo[1]) if vo[0] == "phi" else [vo]):
                            lookup = (alt[0] == "call" and alt[1] == ".get" and alt[4] == ("param", passed) and alt[2] and alt[2][0][0] == "call" and alt[2][0][1] == "builtins.id") or \
                                     (alt[0] == "index" and alt[1] == ("param", passed) and alt[2][0] == "call" and alt[2][1] == "builtins.id")
                            if lookup:
                                shares = True
                                detail = f"process_nodes_recursive takes a rule's declaration list from the shared snapshot parameter `{passed}` when the rule has an entry ({oshow(alt)[:70]})"
        lost = is_snapshot and not shares and bool(direct)
        chk.check(not lost, "X4", main.short, norm_text(n.ast), project.loc(main.module, n.ast),
                  "the last .content write-back of a rule serialises the list in which its declarations were updated", how=detail if not lost else "",
                  message="after process_nodes_recursive has rewritten and re-serialised a rule's own `color` declaration, main overwrites that rule's content from the declaration snapshot it parsed earlier: "
                          "for rules that have a snapshot (:root / html) the direct fix is lost while the rule is reported as adjusted")
    # variables table entries point into the snapshot lists
    for n in mcfg.nodes:
        a = n.ast
        if n.kind == "stmt" and isinstance(a, ast.Assign) and isinstance(a.targets[0], ast.Subscript) and isinstance(a.value, ast.Dict):
            o = morg.of(n.id, a.value)
            rec = dict((k[1], v) for k, v in o[1] if k[0] == "const") if o[0] == "dict" else {}
            if "decl" in rec:
                d = rec["decl"]
                ok = d[0] == "elem" and d[1][0] == "call" and d[1][1] in PARSE_DECLS
                chk.check(ok, "X4", main.short, norm_text(a)[:80], project.loc(main.module, a), "a custom property's 'decl' is the node inside the declaration list that main writes back", how=oshow(d)[:80],
                          message=f"the variables table stores {oshow(d)[:80]} as the definition node: rewriting it does not reach the output")

    # ------------------------------------------------------------ X5 (pair size) / X6
    for node in cfg.nodes:
        for e in node_exprs(node):
            for c in ast.walk(e):
                if isinstance(c, ast.Call) and sc.resolve_call(c) == CP:
                    o = org.of(node.id, c)
                    nargs = len(o[2]) + len(o[3])
                    chk.check(nargs == 2, "X5", fi.short, norm_text(c), project.loc(m, c), "pairs are judged as normal-size text (large_text defaulted), matching the CLI target", how=f"{nargs} arguments",
                              message="a ColorPair is built with an explicit large_text while the CLI target assumes normal text")
    # last declaration wins: assignments to the colour / background declaration variables inside a for over the declarations, no break
    inner = [lp for lp in cfg.loops if lp["kind"] == "for" and lp is not loop and lp["bind"] in body]
    picked = {}
    for lp in inner:
        st = lp["stmt"]
        has_break = any(isinstance(x, ast.Break) for x in ast.walk(st))
        for x in ast.walk(st):
            if isinstance(x, ast.Compare) and len(x.ops) == 1 and isinstance(x.ops[0], ast.Eq) and isinstance(x.comparators[0], ast.Constant) and x.comparators[0].value in ("color", "background-color"):
                picked[x.comparators[0].value] = (lp, x, has_break)
    for prop in ("color", "background-color"):
        if prop not in picked:
            chk.fail("X6", fi.short, f"== {prop!r}", loc, f"no declaration scan for {prop!r} found")
            continue
        lp, x, has_break = picked[prop]
        try:
            lo = org.at(x.left)
        except KeyError:
            lo = ("expr", norm_text(x.left))
        tvar = lp["stmt"].target.id if isinstance(lp["stmt"].target, ast.Name) else None
        # what is compared with the property name is the loop's current declaration's name (directly or through a temporary)
        name_ok = lo[0] == "attr" and lo[2] in ("name", "lower_name") and lo[1][0] == "elem"
        chk.check(not has_break and name_ok, "X6", fi.short, norm_text(x), project.loc(m, x), f"the last `{prop}` declaration of the rule wins",
                  how="overwrite idiom in a loop over all declarations, no break", message=f"the scan for `{prop}` stops early or does not compare the declaration name: an earlier declaration wins")
    for prop in ("color", "background-color"):
        if prop not in picked:
            continue
        lp2, x, _hb = picked[prop]
        # the assignment guarded by this comparison
        tgt_nodes = [n for n in cfg.nodes if n.kind == "stmt" and isinstance(n.ast, ast.Assign) and n.id in lp2["body"] and isinstance(n.ast.value, ast.Name) and isinstance(lp2["stmt"].target, ast.Name) and n.ast.value.id == lp2["stmt"].target.id
                     and (norm_text(x), True) in common_literals(G.get(n.id))]
        chk.check(len(tgt_nodes) == 1, "X6", fi.short, norm_text(x), project.loc(m, x), f"the declaration kept for `{prop}` is the loop's current declaration, stored exactly where its name equals {prop!r}", how=f"{len(tgt_nodes)} assignment(s) of the loop variable under `{norm_text(x)}`",
                  message=f"no assignment (or several) of the scanned declaration sits under `{norm_text(x)}` being true: the wrong declaration (or none) is taken as the rule's {prop}")
        if len(tgt_nodes) == 1:
            var = tgt_nodes[0].ast.targets[0].id
            others = [n for n in cfg.nodes if n.kind == "stmt" and n.id in body and var in node_stores_of(n) and n.id != tgt_nodes[0].id and not (isinstance(n.ast, ast.Assign) and isinstance(n.ast.value, ast.Constant) and n.ast.value.value is None and n.id not in lp2["body"])]
            chk.check(not others, "X6", fi.short, f"{var}", project.loc(m, x), f"{var} is only ever None or the matching declaration", how="store census inside the rule iteration", message=f"{var} is also assigned at line(s) {[n.lineno for n in others]}")
    # the pair's operands: resolved text / background with fallback to default_bg
    for node in cfg.nodes:
        for e in node_exprs(node):
            for c in ast.walk(e):
                if isinstance(c, ast.Call) and sc.resolve_call(c) == CP and node.id in body:
                    o = org.of(node.id, c)
                    args = list(o[2])
                    if len(args) < 2:
                        continue
                    t_ok = "resolve_variable" in oshow(args[0]) and "extract_color_from_decl" in oshow(args[0])
                    b_txt = oshow(args[1])
                    b_ok = "resolve_variable" in b_txt and "default_bg" in b_txt and "extract_color_from_decl" in b_txt
                    if "resolve_variable" in oshow(args[0]):
                        chk.check(t_ok and b_ok, "X6", fi.short, norm_text(c), project.loc(m, c), "the pair is (resolved text colour, resolved own background or default_bg)", how=f"text: {oshow(args[0])[:80]}; bg: {b_txt[:100]}",
                                  message=f"the pair judged is not (resolved colour, resolved background-color or --default-bg): text={oshow(args[0])[:80]}, bg={b_txt[:100]}")
    # the settings denote the command line's values for every rule: none of them is re-bound while the rules are walked
    settings = [p for p in ("default_bg", "mode", "premium") if p in fi.params()]
    rebound = [(n, p) for n in cfg.nodes if n.id in body for p in settings if p in node_stores_of(n)]
    chk.check(not rebound, "X6", fi.short, norm_text(rebound[0][0].ast)[:80] if rebound else "settings", project.loc(m, rebound[0][0].ast) if rebound else project.loc(m, fi.node),
              "default_bg / mode / premium are the command line's values for every rule of the sheet", how=f"store census of {settings} inside the rule loop ({len(body)} CFG nodes)",
              message=f"{rebound[0][1] if rebound else ''} is re-bound while the rules are walked: later rules are judged against a value left over from an earlier rule, not the command line's")
    # --default-bg default
    dflt = None
    for d in main.node.decorator_list:
        if isinstance(d, ast.Call) and d.args and isinstance(d.args[0], ast.Constant) and d.args[0].value == "--default-bg":
            for kw in d.keywords:
                if kw.arg == "default" and isinstance(kw.value, ast.Constant):
                    dflt = kw.value.value
    chk.check(isinstance(dflt, str) and dflt.strip().lower() in ("white", "#fff", "#ffffff"), "X6", main.short, f"--default-bg default={dflt!r}", project.loc(main.module, main.node), "--default-bg defaults to white", how=f"default={dflt!r}",
              message=f"--default-bg defaults to {dflt!r}, not white")
    # main forwards its options
    for pn, c in pnr_calls:
        b = bind_args(fi, c)
        okf = all(isinstance(b.get(p), ast.Name) and b[p].id == p for p in ("default_bg", "mode", "premium"))
        chk.check(okf, "X6", main.short, norm_text(c)[:80], project.loc(main.module, c), "main forwards --default-bg, --mode and --premium unchanged", how="argument binding", message="main does not forward default_bg / mode / premium unchanged to the rule processing")

    # ------------------------------------------------------------ X7
    rec_calls = [(n, c) for n in cfg.nodes for e in node_exprs(n) for c in ast.walk(e) if isinstance(c, ast.Call) and sc.resolve_call(c) == PNR]
    chk.floor("recursive calls for nested at-rules", len(rec_calls), 1)
    for node, c in rec_calls:
        b = bind_args(fi, c)
        okf = all(isinstance(b.get(p), ast.Name) and b[p].id == p for p in fi.params()[1:])
        chk.check(okf, "X7", fi.short, norm_text(c)[:100], project.loc(m, c), "the recursion forwards default_bg, stats, file_path, variables, mode, premium unchanged",
                  how="every parameter after the node list is passed as itself", message=f"the nested call does not forward all settings unchanged: {[(p, norm_text(a)) for p, a in b.items() if not (isinstance(a, ast.Name) and a.id == p)][:4]}")
        cw = {n.id for n in content_writes}
        r = reach_avoiding(node.id, cw)
        chk.check(loop["next"] not in r, "X7", fi.short, norm_text(c)[:60], project.loc(m, c), "after processing nested rules their list is serialised back into the at-rule on every path", how="must-pass-through", message="nested rules are processed but never written back into the at-rule")
        lst = b.get(fi.params()[0])
        lo = org.of(node.id, lst)
        ok = lo[0] == "call" and "parse_rule_list" in str(lo[1])
        chk.check(ok, "X7", fi.short, norm_text(lst), project.loc(m, c), "nested rules are the lossless parse of the at-rule's content", how=oshow(lo)[:80], message=f"the nested node list is {oshow(lo)[:80]}")

    report_card(project, chk)

    # ------------------------------------------------------------ X11
    chk.rule("X11", "a regex match that may be None is dereferenced only under a test of it: otherwise the rule's processing raises after part of its bookkeeping "
                    "was done (a rule counted twice, or counted as adjusted and never written)")
    from checks import _optional
    cli_funcs = [q for q, f2 in project.funcs.items() if f2.module.name == CLI and q not in project.outside_surface]
    n_sites = _optional.check(project, chk, "X11", cli_funcs, "escapes into the per-rule handler, which counts the rule again as needing attention")
    chk.floor("dereferences of regex matches in cli/main.py", n_sites, 2)


REPORT = "cm_colors.cli.html_report.generate_report"
SHOWN = ("selector", "bg", "original_text", "tuned_text", "original_level", "new_level")
BEFORE, AFTER = {"original_text", "original_level"}, {"tuned_text", "new_level"}


def item_keys(o, out=None):
    """String keys under which an origin tree reads a record (`pair["k"]`, `pair.get("k")`)."""
    out = set() if out is None else out
    if isinstance(o, frozenset):
        for x in o:
            item_keys(x, out)
        return out
    if not isinstance(o, tuple) or not o:
        return out
    if o[0] == "item" and isinstance(o[2], str):
        out.add(o[2])
    if o[0] == "index" and isinstance(o[2], tuple) and o[2][:1] == ("const",) and isinstance(o[2][1], str):
        out.add(o[2][1])
    if o[0] == "call" and o[1] in (".get", "dict.get") and o[2] and o[2][0][:1] == ("const",) and isinstance(o[2][0][1], str):
        out.add(o[2][0][1])
    for x in o:
        if isinstance(x, (tuple, frozenset)):
            item_keys(x, out)
    return out


def report_card(project, chk):
    """X10: the HTML report shows, per adjusted rule, the fields the CLI recorded for it, each on its own side of the card."""
    chk.rule("X10", "report cards: every field the CLI records for an adjusted rule (selector, background, before/after colour and level) is read by the report, "
                    "and no 'before' field is shown on the 'after' side of a card or vice versa")
    fi = project.funcs.get(PNR)
    rep = project.funcs.get(REPORT)
    if fi is None or rep is None:
        raise AnalysisError(f"anchor moved: {PNR} / {REPORT}")
    recorded = None
    for c in own_nodes(fi.node):
        if isinstance(c, ast.Call) and isinstance(c.func, ast.Attribute) and c.func.attr == "append" and "fixed_details" in norm_text(c.func.value) and c.args and isinstance(c.args[0], ast.Dict):
            recorded = {k.value for k in c.args[0].keys if isinstance(k, ast.Constant) and isinstance(k.value, str)}
    if recorded is None:
        chk.not_decided.append("X10: the record appended to fixed_details is not a dict display; its keys were not compared with the report's")
        return
    # (a) every recorded field the property names is read somewhere in the report code (the function, its nested functions and the
    #     private helpers / classes of its module that are not part of the pinned surface)
    m = rep.module
    scope_nodes = [rep.node]
    for q, f2 in project.funcs.items():
        if f2.module is m and f2 is not rep and (q in project.transparent or q in project.outside_surface or f2.short.split(".")[-1].startswith("_") or (f2.cls and f2.cls.startswith("_"))):
            scope_nodes.append(f2.node)
    for st in m.tree.body:
        if isinstance(st, (ast.Assign, ast.AnnAssign)):
            scope_nodes.append(st)
    consts = {n.value for root in scope_nodes for n in ast.walk(root) if isinstance(n, ast.Constant) and isinstance(n.value, str)}
    wholesale = any(isinstance(n, ast.Call) and isinstance(n.func, ast.Attribute) and n.func.attr in ("values", "items") for n in ast.walk(rep.node)) or \
        any(isinstance(n, ast.keyword) and n.arg is None for n in ast.walk(rep.node))
    for k in SHOWN:
        if k not in recorded:
            continue
        chk.check(k in consts or wholesale, "X10", rep.short, f"record field {k!r}", project.loc(m, rep.node), f"the report reads the recorded field {k!r}",
                  how="the key is named in the report code", message=f"the CLI records {k!r} for every adjusted rule but the report never reads it: the card cannot show it")
    # (b) sides of a card: between two uses of the background, the holes show only 'before' fields or only 'after' fields
    org = Origins(project, rep)

    def keyseq(nid, e, depth=0):
        if depth > 6:
            return [None]
        if isinstance(e, ast.JoinedStr):
            out = []
            for part in e.values:
                if isinstance(part, ast.FormattedValue):
                    out += keyseq(nid, part.value, depth + 1)
            return out
        o = org.of(nid, e)
        if isinstance(o, tuple) and o[:1] == ("fstr",) and o[1] in org.fstrings:
            e2, nid2 = org.fstrings[o[1]]
            return keyseq(nid2, e2, depth + 1)
        ks = item_keys(o)
        return [frozenset(ks)] if ks else [None]
    n_cards = 0
    for node in org.cfg.nodes:
        for e in node_exprs(node):
            for js in ast.walk(e):
                if not isinstance(js, ast.JoinedStr):
                    continue
                seq = keyseq(node.id, js)
                if None in seq or sum(1 for ks in seq if "bg" in ks) < 2:
                    continue
                n_cards += 1
                sides, cur = [], None
                for ks in seq:
                    if "bg" in ks:
                        cur = set()
                        sides.append(cur)
                    if cur is not None:
                        cur |= set(ks)
                mixed = [sd for sd in sides if sd & BEFORE and sd & AFTER]
                chk.check(not mixed, "X10", rep.short, "card template", project.loc(m, js), "each colour box of the card shows either the original colour and level or the adjusted colour and level",
                          how=f"{len(sides)} box(es): {[sorted(sd - {'bg'}) for sd in sides]}", message=f"a colour box of the card mixes 'before' and 'after' fields: {[sorted(sd - {'bg'}) for sd in mixed]}")
                shown_after = set().union(*sides) if sides else set()
                for k in ("original_text", "tuned_text"):
                    if k in recorded:
                        chk.check(k in shown_after, "X10", rep.short, f"card field {k!r}", project.loc(m, js), f"a colour box of the card is painted with / labelled by {k!r}", how="value flow from the record to the template holes",
                                  message=f"no colour box of the card shows {k!r}")
    if not n_cards:
        chk.note("X10: the card template is not an f-string whose holes resolve to record fields; only the field census (a) was decided")


def mentions_parse(o) -> bool:
    """Does an origin tree contain a parse_declaration_list call?"""
    if isinstance(o, frozenset):
        return any(mentions_parse(x) for x in o)
    if not isinstance(o, tuple) or not o:
        return False
    if o[0] == "call" and len(o) > 1 and o[1] in PARSE_DECLS:
        return True
    return any(mentions_parse(x) for x in o if isinstance(x, (tuple, frozenset)))
