"""C18 -- CLI batches: per-file isolation, bad files skipped, outputs never re-consumed."""
from __future__ import annotations

import ast

from sa.cfg import build_cfg, node_exprs, handler_names, CATCH_ALL
from sa.dataflow import solve
from sa.defuse import loads
from sa.effects import Effects, MUTABLE_CTORS, io_kind_of
from sa.guards import guard_states, node_stores, common_literals
from sa.loader import AnalysisError, norm_text
from sa.resolve import Scope, own_nodes, bind_args

LEVEL = "other"
EXPLANATION = (
    "Structural rules over cli/main.py: (I1) the whole body of the per-file loop is one try whose catch-all handler cannot leave "
    "the loop, so a bad file is reported and the next one is always reached; (I2) loop-carried-dependence analysis (reaching "
    "definitions with and without the back edge) shows no value flows from one iteration to the next, and the only outside object "
    "mutated in the body is the counters table, which is write-only wherever it flows; (I3) the discovery filter and the output "
    "name use the same infix, and every directory-mode yield is under the filter; (I4) per-file tables are allocated inside the body; "
    "(I5) the output path is a function of the input path only. Per-file determinism then reduces to C15."
)
TRUSTED = ["stdlib ast", "Path.rglob('*.css') yields only names ending in .css; Path.stem/suffix/name semantics (A4)",
           "click.echo / traceback.print_exc in the handler do not raise"]

MAIN = "cm_colors.cli.main.main"
GET = "cm_colors.cli.main.get_css_files"
PNR = "cm_colors.cli.main.process_nodes_recursive"
EXITS = {"sys.exit", "builtins.exit", "builtins.quit", "os._exit", "os.abort", "click.Abort", "click.exceptions.Abort",
         "click.exceptions.Exit", "builtins.SystemExit"}


def find_file_loop(fi):
    for n in own_nodes(fi.node):
        if isinstance(n, ast.For) and any(isinstance(c, ast.Call) and isinstance(c.func, ast.Name) and c.func.id == "open" for c in ast.walk(n)):
            return n
    raise AnalysisError("cli.main.main: per-file loop (a for loop that opens files) not found")


def inline_locals(e, fi, depth=0):
    """Replace names that have exactly one definition in fi by the defining expression (recursively)."""
    import copy

    class T(ast.NodeTransformer):
        def visit_Name(self, n):
            if not isinstance(n.ctx, ast.Load) or depth > 6:
                return n
            defs = [d for d in own_nodes(fi.node) if isinstance(d, ast.Assign) and any(isinstance(t, ast.Name) and t.id == n.id for t in d.targets)]
            if len(defs) == 1 and not any(isinstance(x, ast.Name) and x.id == n.id for x in ast.walk(defs[0].value)):
                return inline_locals(defs[0].value, fi, depth + 1)
            return n
    return T().visit(copy.deepcopy(e))


def const_str(e):
    return e.value if isinstance(e, ast.Constant) and isinstance(e.value, str) else None


def concat_parts(e):
    """Flatten a + b + c / f-strings into parts (constants as str, everything else as text)."""
    if isinstance(e, ast.BinOp) and isinstance(e.op, ast.Add):
        return concat_parts(e.left) + concat_parts(e.right)
    if isinstance(e, ast.JoinedStr):
        out = []
        for v in e.values:
            if isinstance(v, ast.Constant):
                out.append(("const", str(v.value)))
            elif isinstance(v, ast.FormattedValue):
                out.append(("expr", norm_text(v.value)))
        return out
    s = const_str(e)
    if s is not None:
        return [("const", s)]
    return [("expr", norm_text(e))]


def run(project, chk):
    chk.rule("I1", "the whole body of `for file in files` is one try; its handler catches Exception, reports, and contains no raise/return/break/exit; the body contains no return/break")
    chk.rule("I2", "no loop-carried dependence: no definition made in one iteration reaches a use in a later one; the only outside object mutated in the body is the stats table, which is write-only wherever it flows")
    chk.rule("I3", "directory discovery yields only under the `_cm` filter, and the filter's literal equals the output name's infix + the globbed suffix")
    chk.rule("I4", "variables / rule_declarations_map are fresh dicts allocated inside the loop body")
    chk.rule("I5", "the output path is computed from the input path only and written inside the same try")
    chk.assumptions += ["A4: pathlib semantics (stem/suffix/name, rglob pattern)", "the handler's own reporting calls (click.echo, traceback.print_exc) do not raise"]
    chk.not_decided += ["byte-identity is derived from isolation + purity (C15), not by comparing outputs", "what tinycss2 does with undecodable/malformed input (it raises or recovers; either way the handler or the normal path continues)"]

    eff = Effects(project)
    main = project.func(MAIN)
    chk.rule("I6", "nothing the per-file processing reaches keeps state between calls in a mutable default argument (it would carry one stylesheet's custom properties / visited sets into the next)")
    from sa.effects import Effects as _Eff, shared_default_state
    _eff = _Eff(project)
    _closure = _eff.reach(MAIN) | {MAIN}
    _shared = shared_default_state(project, _eff, _closure)
    for f2, pn, dn, sites in _shared:
        chk.fail("I6", f2.short, f"{pn}={norm_text(dn)}", project.loc(f2.module, dn),
                 f"{f2.name} mutates its mutable default argument {pn}={norm_text(dn)} (line(s) {sorted({getattr(x, 'lineno', 0) for x in sites})}): state survives from one file of the batch to the next")
    if not _shared:
        chk.ok("I6", f"{project.loc(main.module, main.node)} {main.short}", f"none of the {len(_closure)} functions reachable from main mutates a mutable default argument", "default-argument census over the call closure")
    m = main.module
    cfg = build_cfg(main.node)
    chk.saw_function(main, cfg)
    sc = Scope(project, main)
    floop = find_file_loop(main)
    loop_var = floop.target.id if isinstance(floop.target, ast.Name) else None
    if loop_var is None:
        raise AnalysisError("per-file loop target is not a simple name")

    # ------------------------------------------------------------------ I1
    body = [s for s in floop.body if not (isinstance(s, ast.Expr) and isinstance(s.value, ast.Constant))]
    tries = [s for s in body if isinstance(s, ast.Try)]
    outside = [s for s in body if not isinstance(s, ast.Try) and any(isinstance(c, (ast.Call, ast.Subscript, ast.Attribute, ast.BinOp)) for c in ast.walk(s))]
    chk.check(len(tries) == 1 and not outside, "I1", main.short, norm_text(outside[0])[:100] if outside else f"for {loop_var} in ...: <{len(tries)} try statements>", project.loc(m, outside[0] if outside else floop),
              "every fallible statement of the per-file loop body is inside the one try",
              how=f"loop body = [{', '.join(type(s).__name__ for s in body)}]",
              message="a fallible statement of the per-file loop is outside the try: an error there aborts the whole batch")
    if tries:
        tr = tries[0]
        catch_all = [h for h in tr.handlers if handler_names(h) is None or handler_names(h) & CATCH_ALL]
        chk.check(bool(catch_all), "I1", main.short, "except " + "/".join(",".join(sorted(handler_names(h) or {"<bare>"})) for h in tr.handlers) if tr.handlers else "try without handler", project.loc(m, tr.handlers[0] if tr.handlers else tr),
                  "the per-file try has a handler catching Exception", how="handler class is Exception / BaseException / bare",
                  message=f"handler only catches {[sorted(handler_names(h) or []) for h in tr.handlers]}: other errors (decode, OS, serialise) stop the run")
        # earlier narrower handlers that leave the loop
        for h in tr.handlers:
            leaves = []
            reports = False
            for n in ast.walk(h):
                if isinstance(n, (ast.Raise, ast.Return, ast.Break)):
                    leaves.append(n)
                if isinstance(n, ast.Call):
                    q = sc.resolve_call(n) or sc.resolve(n.func)
                    if q in EXITS or (isinstance(n.func, ast.Attribute) and n.func.attr in ("exit", "abort", "fail")):
                        leaves.append(n)
                    if io_kind_of(q) == "console":
                        reports = True
            chk.check(not leaves, "I1", main.short, norm_text(leaves[0]) if leaves else "except handler", project.loc(m, leaves[0] if leaves else h),
                      "the handler cannot leave the loop (no raise/return/break/exit)", how="statement census of the handler body",
                      message="the per-file error handler leaves the loop: one bad file stops the run")
            chk.check(reports, "I1", main.short, "except handler reports", project.loc(m, h), "the handler reports the failure on the console",
                      how="contains a console I/O call", message="a failing file is skipped silently (not reported)")
        early = [n for s in tr.body + tr.orelse for n in ast.walk(s) if isinstance(n, (ast.Return, ast.Break))]
        # return/break inside nested function defs do not count
        chk.check(not early, "I1", main.short, norm_text(early[0]) if early else "try body", project.loc(m, early[0] if early else tr),
                  "the try body contains no return/break (the batch cannot end early)", how="statement census", message="return/break inside the per-file body ends the batch early")
        # I5: output open inside the try
        opens_w = [c for s in tr.body for c in ast.walk(s) if isinstance(c, ast.Call) and sc.resolve(c.func) == "builtins.open" and (len(c.args) > 1 and const_str(c.args[1]) and "w" in const_str(c.args[1]))]
        chk.check(len(opens_w) >= 1, "I5", main.short, "open(<output>, 'w')", project.loc(m, tr), "the output file is written inside the per-file try",
                  how=f"{len(opens_w)} open(..., 'w') inside the try body", message="the output write is outside the per-file try: a write error aborts the batch")

    # ------------------------------------------------------------------ I2 loop-carried dependence
    loop = None
    for lp in cfg.loops:
        if lp["stmt"] is floop:
            loop = lp
    if loop is None:
        raise AnalysisError("per-file loop not found in the CFG")
    body_ids = set(loop["body"])

    def rd():
        init = frozenset((p, -1) for p in main.params())

        def transfer(node, state):
            st = node_stores(node)
            if not st:
                return state
            return frozenset({d for d in state if d[0] not in st} | {(x, node.id) for x in st})

        def edge(node, label, state):
            if node.id == loop["next"] and label == "next":
                # crossing the back edge: definitions made in the body now come from an earlier iteration
                return frozenset((x, ("carried", d)) if (not isinstance(d, tuple) and d in body_ids) else (x, d) for (x, d) in state)
            return state

        def join(node, incoming):
            out = set()
            for _, _, st in incoming:
                out |= st
            return frozenset(out)

        IN, _ = solve(cfg, init, transfer, edge, join)
        return IN

    full = rd()
    carried = []
    for nid in sorted(body_ids):
        node = cfg.nodes[nid]
        used = loads(node)
        for (name, d) in sorted(full.get(nid) or frozenset(), key=str):
            if isinstance(d, tuple) and name in used and name != loop_var:
                carried.append((node, name, cfg.nodes[d[1]]))
    if carried:
        for node, name, d in carried:
            chk.fail("I2", main.short, norm_text(d.ast if d.kind != "bind" else d.ast.target), project.loc(m, d.ast),
                     f"loop-carried dependence: {name} defined at line {d.lineno} in one iteration is read at line {node.lineno} in the next (one file's processing depends on the files before it)")
    else:
        chk.ok("I2", f"{project.loc(m, floop)} {main.short}", f"no definition inside the per-file loop body ({len(body_ids)} CFG nodes) reaches a use in a later iteration",
               "reaching definitions with the back edge minus reaching definitions without it: empty on every use")
    # outside objects mutated inside the body
    mutated = eff.mutated_params()
    outside_defs = {n for n in (main.params())}
    for node in cfg.nodes:
        if node.id not in body_ids:
            outside_defs |= node_stores(node)
    inside_defs = set()
    for nid in body_ids:
        inside_defs |= node_stores(cfg.nodes[nid])
    shared = outside_defs - inside_defs
    stats_names = set()
    bad_mut = []
    n_calls = 0
    for nid in sorted(body_ids):
        node = cfg.nodes[nid]
        for e in node_exprs(node):
            for c in ast.walk(e):
                if isinstance(c, ast.Call):
                    q = sc.resolve_call(c)
                    if q in project.funcs:
                        n_calls += 1
                        cfi = project.funcs[q]
                        try:
                            b = bind_args(cfi, c)
                        except ValueError:
                            continue
                        for p, a in b.items():
                            if p in mutated.get(q, ()) and isinstance(a, ast.Name) and a.id in shared:
                                if q == PNR and p == "stats":
                                    stats_names.add(a.id)
                                else:
                                    bad_mut.append((c, a.id, q, p))
                    elif isinstance(c.func, ast.Attribute) and isinstance(c.func.value, ast.Name) and c.func.value.id in shared:
                        from sa.effects import MUTATORS
                        if c.func.attr in MUTATORS:
                            bad_mut.append((c, c.func.value.id, f".{c.func.attr}", "self"))
                if isinstance(c, (ast.Subscript, ast.Attribute)) and isinstance(c.ctx, (ast.Store, ast.Del)):
                    r = c.value
                    while isinstance(r, (ast.Subscript, ast.Attribute)):
                        r = r.value
                    if isinstance(r, ast.Name) and r.id in shared:
                        bad_mut.append((c, r.id, "store", ""))
    chk.analysed["call_sites"] += n_calls
    for c, name, q, p in bad_mut:
        chk.fail("I2", main.short, norm_text(c), project.loc(m, c), f"object {name} created outside the per-file loop is mutated inside it ({q}): state shared between files")
    if not bad_mut:
        chk.ok("I2", f"{project.loc(m, floop)} {main.short}", f"the only outside object mutated in the loop body is the counters table {sorted(stats_names)}",
               f"{n_calls} resolved calls in the body checked against callee mutation summaries")
    # stats is write-only wherever it flows
    pnr = project.func(PNR)
    chk.saw_function(pnr)
    psc = Scope(project, pnr)
    bad_uses = []
    n_uses = 0
    parents = {}
    for n in ast.walk(pnr.node):
        for ch in ast.iter_child_nodes(n):
            parents[ch] = n
    for n in own_nodes(pnr.node):
        if isinstance(n, ast.Name) and n.id == "stats" and isinstance(n.ctx, ast.Load):
            n_uses += 1
            par = parents.get(n)
            gp = parents.get(par)
            ggp = parents.get(gp)
            # stats[k] += 1
            if isinstance(par, ast.Subscript) and isinstance(gp, ast.AugAssign) and gp.target is par:
                continue
            # stats[k].append(...)
            if isinstance(par, ast.Subscript) and isinstance(gp, ast.Attribute) and gp.attr in ("append", "extend") and isinstance(ggp, ast.Call) and ggp.func is gp and isinstance(parents.get(ggp), ast.Expr):
                continue
            # forwarded to the recursive call as stats
            if isinstance(par, ast.Call) and psc.resolve_call(par) == PNR:
                try:
                    if bind_args(pnr, par).get("stats") is n:
                        continue
                except ValueError:
                    pass
            if isinstance(par, ast.keyword) and par.arg == "stats":
                continue
            bad_uses.append(n)
    chk.floor("uses of stats in process_nodes_recursive", n_uses, 8)
    chk.check(not bad_uses, "I2", pnr.short, norm_text(parents.get(parents.get(bad_uses[0]), bad_uses[0])) if bad_uses else "stats", project.loc(pnr.module, bad_uses[0] if bad_uses else pnr.node),
              f"all {n_uses} uses of the counters table in process_nodes_recursive are write-only (+= 1, .append, forwarding)",
              how="use-kind census", message="the counters table is read during processing: what is written for one file depends on the files processed before it")
    # in main's loop body stats may only be passed on
    for nid in sorted(body_ids):
        node = cfg.nodes[nid]
        for e in node_exprs(node):
            for nm in ast.walk(e):
                if isinstance(nm, ast.Name) and nm.id in stats_names and isinstance(nm.ctx, ast.Load):
                    ok = False
                    for c in ast.walk(e):
                        if isinstance(c, ast.Call) and (nm in c.args or any(k.value is nm for k in c.keywords)) and sc.resolve_call(c) == PNR:
                            ok = True
                    if not ok:
                        chk.fail("I2", main.short, norm_text(e)[:100], project.loc(m, e), f"counters table {nm.id} is read inside the per-file loop body")

    # ------------------------------------------------------------------ I4
    for c in [c for c in own_nodes(main.node) if isinstance(c, ast.Call) and sc.resolve_call(c) == PNR]:
        b = bind_args(pnr, c)
        a = b.get("variables")
        if not isinstance(a, ast.Name):
            chk.fail("I4", main.short, norm_text(c)[:100], project.loc(m, c), "variables argument is not a local table")
            continue
        defs = [n for n in own_nodes(main.node) if isinstance(n, ast.Assign) and any(isinstance(t, ast.Name) and t.id == a.id for t in n.targets)]
        in_loop = [d for d in defs if any(d is x for x in ast.walk(floop))]
        fresh = [d for d in defs if isinstance(d.value, ast.Dict) or (isinstance(d.value, ast.Call) and sc.resolve(d.value.func) in MUTABLE_CTORS)]
        chk.check(bool(defs) and len(defs) == len(in_loop) == len(fresh), "I4", main.short, f"{a.id} = ...", project.loc(m, defs[0] if defs else c),
                  f"custom-property table {a.id} is a fresh dict allocated inside the per-file loop body", how=f"{len(defs)} definition(s), all inside the loop, all fresh",
                  message=f"custom-property table {a.id} is not rebuilt per file: properties defined in one stylesheet leak into the next")
    # every dict/list allocated outside the loop and stored into inside it is caught by I2; id()-keyed maps must be inside
    for n in own_nodes(main.node):
        if isinstance(n, ast.Call) and sc.resolve(n.func) == "builtins.id":
            par = None
            for cand in own_nodes(main.node):
                if isinstance(cand, ast.Subscript) and cand.slice is n and isinstance(cand.value, ast.Name):
                    par = cand.value.id
            if par:
                defs = [d for d in own_nodes(main.node) if isinstance(d, ast.Assign) and any(isinstance(t, ast.Name) and t.id == par for t in d.targets)]
                in_loop = [d for d in defs if any(d is x for x in ast.walk(floop))]
                chk.check(bool(defs) and len(defs) == len(in_loop), "I4", main.short, f"{par} (id()-keyed map)", project.loc(m, defs[0] if defs else n),
                          f"id()-keyed map {par} is allocated per file (object ids may be reused across files)", how="all definitions inside the loop body",
                          message=f"id()-keyed map {par} outlives a file: ids of freed rules can be reused by the next file's rules")

    # ------------------------------------------------------------------ I3 + I5 names
    get = project.func(GET)
    gcfg = build_cfg(get.node)
    chk.saw_function(get, gcfg)
    G = guard_states(gcfg)
    yields = []
    for node in gcfg.nodes:
        for e in node_exprs(node):
            for y in ast.walk(e):
                if isinstance(y, (ast.Yield, ast.YieldFrom)):
                    yields.append((node, y))
    chk.floor("yield sites in get_css_files", len(yields), 2)
    # glob pattern(s)
    globs = []
    for n in own_nodes(get.node):
        if isinstance(n, ast.Call) and isinstance(n.func, ast.Attribute) and n.func.attr in ("rglob", "glob") and n.args:
            globs.append((n, const_str(n.args[0])))
    if not globs:
        # a hand-written directory walk: one necessary condition of "every stylesheet of the tree is visited" is decidable by shape --
        # the descent into a sub-directory must not depend on the entry's *name* failing the stylesheet test
        from sa.effects import Effects as _Eff3
        _e3 = _Eff3(project)
        for wq in sorted(_e3.reach(GET) | {GET}):
            wfi = project.funcs.get(wq)
            if wfi is None or wfi.module is not get.module:
                continue
            wsc = Scope(project, wfi)
            rec = [c for c in own_nodes(wfi.node) if isinstance(c, ast.Call) and wsc.resolve_call(c) == wq]
            lists_dir = any(isinstance(c, ast.Call) and isinstance(c.func, ast.Attribute) and c.func.attr in ("iterdir", "scandir", "listdir") for c in own_nodes(wfi.node))
            if not rec or not lists_dir:
                continue
            wcfg = build_cfg(wfi.node)
            wG = guard_states(wcfg)
            for node in wcfg.nodes:
                for e in node_exprs(node):
                    for c in ast.walk(e):
                        if c in rec:
                            lits = common_literals(wG.get(node.id))
                            bad = [t for (t, v) in lits if not v and (".endswith(" in t or ".suffix ==" in t or ".suffix in" in t)]
                            chk.check(not bad, "I3", wfi.short, norm_text(c), project.loc(wfi.module, c), "the walk descends into every sub-directory, whatever its name",
                                      how=f"guards of the recursive call: {sorted(lits)}",
                                      message=f"the walk descends into a sub-directory only when `{bad[0] if bad else ''}` is false: stylesheets below a directory whose own name passes the stylesheet test are never visited (Path.rglob visits them), so a directory run no longer produces what the single-file runs produce")
    chk.floor("rglob/glob calls in get_css_files", len(globs), 1)
    if not globs:
        return      # without a glob pattern the filter / suffix rules below have nothing to relate to (the unmet floor makes the run inconclusive unless the walk rule reported)
    exts = set()
    for n, pat in globs:
        if pat is None or not pat.startswith("*.") or any(ch in pat[2:] for ch in "*?["):
            raise AnalysisError(f"{project.loc(get.module, n)}: glob pattern {pat!r} is not of the form '*.ext'")
        exts.add(pat[1:])
    # output name
    out_assign = None
    open_w = None
    for n in own_nodes(main.node):
        if isinstance(n, ast.Call) and sc.resolve(n.func) == "builtins.open" and len(n.args) > 1 and const_str(n.args[1]) and "w" in const_str(n.args[1]):
            open_w = n
    if open_w is None:
        raise AnalysisError("main: output open(..., 'w') not found")

    target = inline_locals(open_w.args[0], main)
    names_used = {n.id for n in ast.walk(target) if isinstance(n, ast.Name)}
    chk.check(names_used == {loop_var}, "I5", main.short, norm_text(target), project.loc(m, open_w),
              f"the output path is a function of the input path {loop_var} only", how=f"after inlining locals: {norm_text(target)}",
              message=f"the output path depends on {sorted(names_used - {loop_var})}: not a function of the input file alone")
    # shape: <loop_var>.parent / (<loop_var>.stem + INFIX + <loop_var>.suffix)   (or with_name / f-string)
    infix = None
    fname = None
    if isinstance(target, ast.BinOp) and isinstance(target.op, ast.Div) and norm_text(target.left) == f"{loop_var}.parent":
        fname = target.right
    elif isinstance(target, ast.Call) and isinstance(target.func, ast.Attribute) and target.func.attr == "with_name" and norm_text(target.func.value) == loop_var and target.args:
        fname = target.args[0]
    if fname is not None:
        parts = concat_parts(fname)
        if len(parts) == 3 and parts[0] == ("expr", f"{loop_var}.stem") and parts[1][0] == "const" and parts[2] == ("expr", f"{loop_var}.suffix"):
            infix = parts[1][1]
    if infix is None and names_used != {loop_var}:
        return   # already reported under I5; the name's shape cannot be related to the filter
    if infix is None:
        raise AnalysisError(f"{project.loc(m, open_w)}: output file name {norm_text(target)} is not of the readable form <input>.parent / (<input>.stem + INFIX + <input>.suffix)")
    chk.check(len(infix) > 0, "I3", main.short, norm_text(fname), project.loc(m, open_w), "the output name has a non-empty infix between stem and suffix (differs from every input path)",
              how=f"infix {infix!r}", message="output name equals the input name: the input file is overwritten")
    # filter literal(s) under which directory-mode yields sit
    dir_yields = 0
    for node, y in yields:
        st = G.get(node.id)
        lits = common_literals(st)
        texts = {t: v for (t, v) in lits}
        is_dir_branch = any(("is_dir()" in t and v) for t, v in lits) or any((".rglob(" in norm_text(l["stmt"].iter) or ".glob(" in norm_text(l["stmt"].iter)) and node.id in l["body"] for l in gcfg.loops)
        if not is_dir_branch:
            # single-file mode: must be a .css suffix test
            ok = any(v and "suffix" in t and any(ext in t for ext in exts) for t, v in lits)
            chk.check(ok, "I3", get.short, norm_text(y), project.loc(get.module, y), "single-file mode only yields files whose suffix is the globbed one", how=f"guards {sorted(t for t, v in lits if v)}",
                      message="single-file mode accepts files with another suffix than the one directory mode globs")
            continue
        dir_yields += 1
        good = False
        seen = []
        for t, v in lits:
            seen.append((t, v))
            for ext in exts:
                # not <x>.name.endswith(INFIX+EXT)  or  not <x>.stem.endswith(INFIX)
                yv = norm_text(y.value) if getattr(y, "value", None) is not None else ""
                for form in (f".name.endswith({(infix + ext)!r})", f".stem.endswith({infix!r})"):
                    if t.endswith(form) and v is False and t[:-len(form)] in (yv, f"Path({yv})", f"pathlib.Path({yv})"):
                        good = True     # (the test is about the very file that is yielded)
        chk.check(good, "I3", get.short, norm_text(y), project.loc(get.module, y),
                  f"directory-mode yield is under `not name.endswith({(infix + sorted(exts)[0])!r})`: the writer's infix and the reader's filter agree",
                  how=f"guard literals on all paths: {sorted(seen)}",
                  message=f"a directory run can yield files ending in {infix + sorted(exts)[0]!r} (its own outputs): repeated runs compound (guards: {sorted(seen)})")
    chk.floor("directory-mode yields", dir_yields, 1)
