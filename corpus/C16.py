"""Mutants / benign variants for C16."""
OPT = "src/cm_colors/core/optimisation.py"


def M(name, *edits):
    return {"name": name, "edits": list(edits)}


REC_CALL = "    rec_rgb, rec_success = _strategy_recursive(\n        text_rgb, bg_rgb, large, target_contrast, min_contrast\n    )\n    if rec_success:\n        return rec_rgb, True\n"

MUTANTS = [
    M("relaxed skips the recursive result and prefers option A/B",
      (OPT, "    if rec_success:\n        return rec_rgb, True\n\n    # If recursive failed", "    # If recursive failed")),
    M("relaxed returns option B's colour when recursive succeeded",
      (OPT, "    if rec_success:\n        return rec_rgb, True\n", "    if rec_success:\n        return text_rgb, True\n")),
    M("relaxed calls recursive with a raised minimum",
      (OPT, "    rec_rgb, rec_success = _strategy_recursive(\n        text_rgb, bg_rgb, large, target_contrast, min_contrast\n    )", "    rec_rgb, rec_success = _strategy_recursive(\n        text_rgb, bg_rgb, large, target_contrast, min_contrast + 0.5\n    )")),
    M("relaxed calls recursive with the large flag dropped",
      (OPT, "    rec_rgb, rec_success = _strategy_recursive(\n        text_rgb, bg_rgb, large, target_contrast, min_contrast\n    )", "    rec_rgb, rec_success = _strategy_recursive(\n        text_rgb, bg_rgb, False, target_contrast, min_contrast\n    )")),
    M("mode 2 wired to the strict strategy",
      (OPT, "    elif mode == 2:\n        tuned_rgb, success = _strategy_relaxed(", "    elif mode == 2:\n        tuned_rgb, success = _strategy_strict(")),
    M("mode 2 given a higher target than mode 1",
      (OPT, "    elif mode == 2:\n        tuned_rgb, success = _strategy_relaxed(\n            text_rgb, bg_rgb, large, target_contrast, min_contrast\n        )", "    elif mode == 2:\n        tuned_rgb, success = _strategy_relaxed(\n            text_rgb, bg_rgb, large, target_contrast + 1.0, min_contrast\n        )")),
    M("premium raises the search target for normal text",
      (OPT, "        else:\n            min_contrast = 7.0\n            target_contrast = 7.0\n", "        else:\n            min_contrast = 7.0\n            target_contrast = 9.0\n")),
    M("plain large text aims lower than premium large text",
      (OPT, "        if large:\n            min_contrast = 3.0\n            target_contrast = 4.5  # Aim a bit higher for buffer\n", "        if large:\n            min_contrast = 3.0\n            target_contrast = 4.0  # Aim a bit higher for buffer\n")),
    M("target derived from the minimum",
      (OPT, "    # Check if already accessible\n    current_contrast = calculate_contrast_ratio(text_rgb, bg_rgb)\n\n    if current_contrast >= target_contrast:\n        return text_rgb\n", "    target_contrast = max(target_contrast, min_contrast * 1.5)\n    # Check if already accessible\n    current_contrast = calculate_contrast_ratio(text_rgb, bg_rgb)\n\n    if current_contrast >= target_contrast:\n        return text_rgb\n")),
    M("minimum used to scale the tolerance",
      (OPT, "        binary_result = binary_search_lightness(\n            text_rgb, bg_rgb, max_delta_e, target_contrast, large\n        )", "        binary_result = binary_search_lightness(\n            text_rgb, bg_rgb, max_delta_e * (min_contrast / 4.5), target_contrast, large\n        )")),
    M("relaxed: recursive tried second",
      (OPT, REC_CALL, "    rec_rgb, rec_success = text_rgb, False\n"),
      (OPT, "    # Decision logic\n", "    rec_rgb, rec_success = _strategy_recursive(\n        text_rgb, bg_rgb, large, target_contrast, min_contrast\n    )\n    # Decision logic\n")),
    M("dispatcher post-processes mode 2 results only",
      (OPT, "    final_contrast = calculate_contrast_ratio(tuned_rgb, bg_rgb)\n    wcag_level", "    if mode == 2 and not success:\n        tuned_rgb = text_rgb\n    final_contrast = calculate_contrast_ratio(tuned_rgb, bg_rgb)\n    wcag_level")),
]

BENIGN = [
    M("relaxed unpacks into differently named locals",
      (OPT, REC_CALL, "    first = _strategy_recursive(\n        text_rgb, bg_rgb, large, target_contrast, min_contrast\n    )\n    rec_rgb, rec_success = first\n    if rec_success:\n        return rec_rgb, True\n")),
    M("keyword arguments at the recursive call",
      (OPT, "    rec_rgb, rec_success = _strategy_recursive(\n        text_rgb, bg_rgb, large, target_contrast, min_contrast\n    )", "    rec_rgb, rec_success = _strategy_recursive(\n        text_rgb, bg_rgb, large=large, target_contrast=target_contrast, min_contrast=min_contrast\n    )")),
    M("dispatch written with a negated test order",
      (OPT, "    if mode == 0:\n        tuned_rgb, success = _strategy_strict(\n            text_rgb, bg_rgb, large, target_contrast, min_contrast\n        )\n    elif mode == 2:\n        tuned_rgb, success = _strategy_relaxed(\n            text_rgb, bg_rgb, large, target_contrast, min_contrast\n        )\n    else:\n        # Default to mode 1\n        tuned_rgb, success = _strategy_recursive(\n            text_rgb, bg_rgb, large, target_contrast, min_contrast\n        )\n",
       "    if mode == 2:\n        tuned_rgb, success = _strategy_relaxed(\n            text_rgb, bg_rgb, large, target_contrast, min_contrast\n        )\n    elif mode == 0:\n        tuned_rgb, success = _strategy_strict(\n            text_rgb, bg_rgb, large, target_contrast, min_contrast\n        )\n    else:\n        tuned_rgb, success = _strategy_recursive(\n            text_rgb, bg_rgb, large, target_contrast, min_contrast\n        )\n")),
    M("relaxed returns the recursive pair directly",
      (OPT, "    if rec_success:\n        return rec_rgb, True\n", "    if rec_success:\n        return rec_rgb, rec_success\n")),
]
