"""Mutants / benign variants for C14."""
COL = "src/cm_colors/core/colors.py"
PAR = "src/cm_colors/core/color_parser.py"
CONV = "src/cm_colors/core/conversions.py"


def M(name, *edits):
    return {"name": name, "edits": list(edits)}


MUTANTS = [
    M("F-C14 reverted: hsla tuple branch coerces raw elements",
      (CONV, "            try:\n                h = float(h) % 360\n                s = float(s)\n                l = float(l)\n                a = float(a)\n            except (TypeError, ValueError):\n                raise ValueError(\n                    \"Invalid HSLA tuple/list - components must be numeric\"\n                )\n",
       "            h = float(h) % 360\n            s = float(s)\n            l = float(l)\n            a = float(a)\n")),
    M("3-tuple branch: str() coercion dropped for the HSL heuristic (hue passed raw)",
      (CONV, "        h = _parse_hue(str(raw_h))\n", "        h = _parse_hue(raw_h)\n")),
    M("3-tuple branch: range test before the isinstance test",
      (PAR, "                    if isinstance(c, (int, float)):\n                        if isinstance(c, float) and 0.0 <= c <= 1.0:", "                    if not isinstance(c, str):\n                        if 0.0 <= c <= 1.0 and isinstance(c, float):")),
    M("4-tuple branch: looks_like_rgb compares raw values",
      (PAR, "                or (isinstance(r_raw, (int, float)) and float(r_raw) > 1.0)\n", "                or (r_raw is not None and r_raw > 1.0)\n")),
    M("4-tuple RGBA branch: str() coercion dropped",
      (PAR, "                a = _parse_number_token(str(a_raw), component=False)\n", "                a = _parse_number_token(a_raw, component=False)\n")),
    M("unsupported tuple length raises TypeError",
      (PAR, "            raise ValueError(\n                f\"Tuple/list color must have length 3", "            raise TypeError(\n                f\"Tuple/list color must have length 3")),
    M("unrecognised string raises KeyError",
      (PAR, "        raise ValueError(f\"Unrecognized color string format: '{s}'\")", "        raise KeyError(f\"Unrecognized color string format: '{s}'\")")),
    M("handler narrowed to KeyError",
      (COL, "        except ValueError as e:\n            self._error = str(e)", "        except KeyError as e:\n            self._error = str(e)")),
    M("format detection moved out of the try and made fragile",
      (COL, "        try:\n            # Detect format\n            self._format = detect_color_format(self.original)\n", "        self._format = detect_color_format(self.original)\n        prefix = self.original[0] + 1\n        try:\n")),
    M("named-colour lookup without membership test",
      (PAR, "        if s_lower in CSS_NAMED_COLORS:\n            hex_val = CSS_NAMED_COLORS[s_lower]\n            return hex_to_rgb(hex_val)\n", "        if s_lower.isalpha():\n            hex_val = CSS_NAMED_COLORS[s_lower]\n            return hex_to_rgb(hex_val)\n")),
    M("token index without length test",
      (PAR, "            if len(tokens) >= 4:\n                # RGBA", "            if len(tokens) >= 3 and s_lower.startswith(\"rgba(\"):\n                # RGBA")),
    M("bare raise ValueError without message",
      (PAR, "            if not tokens:\n                raise ValueError(f\"Could not parse numeric components from '{s}'\")", "            if not tokens:\n                raise ValueError")),
    M("is_readable short-circuit dropped",
      (COL, "        if not self.is_valid:\n            return \"Not Readable\"\n\n        level", "        level")),
    M("make_readable returns the original text for invalid pairs",
      (COL, "        if not self.is_valid:\n            return None, False\n", "        if not self.is_valid:\n            return self.text.original, False\n")),
    M("make_readable short-circuit only checks the text colour",
      (COL, "        if not self.is_valid:\n            return None, False\n", "        if not self.text.is_valid:\n            return None, False\n")),
    M("handler re-raises after recording",
      (COL, "            self._error = str(e)\n            self._parsed = True\n", "            self._error = str(e)\n            self._parsed = True\n            raise\n")),
    M("hsl string branch: parts indexed before the length check",
      (CONV, "        if len(parts) < 3:\n            raise ValueError(f\"Invalid HSL string components: {hsl_color}\")\n\n        h = _parse_hue(parts[0])", "        h = _parse_hue(parts[0])\n        if len(parts) < 3:\n            raise ValueError(f\"Invalid HSL string components: {hsl_color}\")\n")),
    M("background context dereferenced without is_valid",
      (COL, "            if self.background_context and self.background_context.is_valid:\n                bg_rgb = self.background_context.rgb", "            if self.background_context:\n                bg_rgb = tuple(self.background_context.rgb)")),
]

MUTANTS += [
    M("sweep: hsl saturation range check widened to 2", (CONV, "    if not (0 <= s <= 1 and 0 <= l <= 1):\n        raise ValueError(\"S and L must be in [0, 1] after parsing\")", "    if not (0 <= s <= 2 and 0 <= l <= 1):\n        raise ValueError(\"S and L must be in [0, 1] after parsing\")")),
    M("sweep: hsla range check uses `or`", (CONV, "    if not (0 <= s <= 1 and 0 <= l <= 1 and 0 <= a <= 1):", "    if not (0 <= s <= 1 or 0 <= l <= 1 and 0 <= a <= 1):")),
    M("seed: hex digits validated by int() only", (CONV, "    if len(hex_str) != 6 or not all(c in \"0123456789abcdefABCDEF\" for c in hex_str):\n        raise ValueError(f\"Invalid hex color: {hex_str}\")", "    if len(hex_str) != 6:\n        raise ValueError(f\"Invalid hex color: {hex_str}\")")),
]

BENIGN = [
    M("3-tuple branch: outer guard rewritten as `not str` (inner isinstance tests still protect every comparison)",
      (PAR, "                    if isinstance(c, (int, float)):\n                        if isinstance(c, float) and 0.0 <= c <= 1.0:", "                    if not isinstance(c, str):\n                        if isinstance(c, float) and 0.0 <= c <= 1.0:")),
    M("handler widened to (ValueError, TypeError)",
      (COL, "        except ValueError as e:\n            self._error = str(e)", "        except (ValueError, TypeError) as e:\n            self._error = str(e)")),
    M("handler widened to Exception",
      (COL, "        except ValueError as e:\n            self._error = str(e)", "        except Exception as e:\n            self._error = str(e)")),
    M("element type check hoisted in the hsla tuple branch",
      (CONV, "            try:\n                h = float(h) % 360\n                s = float(s)\n                l = float(l)\n                a = float(a)\n            except (TypeError, ValueError):\n                raise ValueError(\n                    \"Invalid HSLA tuple/list - components must be numeric\"\n                )\n",
       "            for v in (h, s, l, a):\n                if not isinstance(v, (int, float, str)):\n                    raise ValueError(\"Invalid HSLA tuple/list - components must be numeric\")\n            h = float(h) % 360\n            s = float(s)\n            l = float(l)\n            a = float(a)\n")),
    M("extra ValueError for empty strings",
      (PAR, "        s = color.strip()\n        s_lower = s.lower()\n", "        s = color.strip()\n        if not s:\n            raise ValueError(\"Empty color string\")\n        s_lower = s.lower()\n")),
]
