"""Mutants / benign variants for C02."""
OPT = "src/cm_colors/core/optimisation.py"
COL = "src/cm_colors/core/colors.py"


def M(name, *edits):
    return {"name": name, "edits": list(edits)}


MUTANTS = [
    M("best_contrast initialised with 0.0 (a worse candidate can be kept)",
      (OPT, "    best_contrast = current_contrast\n    best_delta_e = float(\"inf\")\n", "    best_contrast = 0.0\n    best_delta_e = float(\"inf\")\n")),
    M("binary phase records without comparing",
      (OPT, "            if result_contrast > best_contrast:\n                best_contrast = result_contrast\n                best_candidate = binary_result\n", "            if result_contrast > 0:\n                best_contrast = result_contrast\n                best_candidate = binary_result\n")),
    M("gradient phase tie-break drops the contrast equality",
      (OPT, "            if result_contrast > best_contrast or (\n                result_contrast == best_contrast and result_delta_e < best_delta_e\n            ):", "            if result_contrast > best_contrast or (\n                result_delta_e < best_delta_e\n            ):")),
    M("candidate and score updated out of lock-step",
      (OPT, "                best_contrast = result_contrast\n                best_candidate = gradient_result\n                best_delta_e = result_delta_e\n", "                best_contrast = max(best_contrast, result_contrast)\n                best_candidate = gradient_result\n                best_delta_e = result_delta_e\n")),
    M("already-passes shortcut uses the target (readable colours get changed)",
      (OPT, "    required_contrast_for_check = min_contrast\n", "    required_contrast_for_check = target_contrast\n")),
    M("already-passes shortcut returns a re-rendered colour of the background",
      (OPT, "        # Already passes\n        return text, True\n", "        # Already passes\n        return bg, True\n")),
    M("relaxed failure returns a fresh unconstrained colour",
      (OPT, "        return rec_rgb, False\n", "        return (128, 128, 128), False\n")),
    M("recursive restarts from the background",
      (OPT, "        next_rgb = generate_accessible_color(\n            current_rgb,\n            bg_rgb,\n            large=large,\n            target_contrast=target_contrast,\n            min_contrast=min_contrast,\n            delta_e_sequence=strict_sequence,\n        )\n\n        if next_rgb == current_rgb:\n            # Stuck",
       "        next_rgb = generate_accessible_color(\n            bg_rgb,\n            bg_rgb,\n            large=large,\n            target_contrast=target_contrast,\n            min_contrast=min_contrast,\n            delta_e_sequence=strict_sequence,\n        )\n\n        if next_rgb == current_rgb:\n            # Stuck")),
    M("multi-phase search returns the last candidate instead of the best",
      (OPT, "    return best_candidate if best_candidate else text_rgb\n", "    return gradient_result if gradient_result else text_rgb\n")),
    M("early-return in the search skipped when target already met",
      (OPT, "    if current_contrast >= target_contrast:\n        return text_rgb\n\n    # Progressive", "    if current_contrast >= target_contrast:\n        return bg_rgb\n\n    # Progressive")),
    M("make_readable drops the tuned colour when not successful (returns background)",
      (COL, "                    result = (formatted_color, success)\n", "                    result = (formatted_color if success else format_color(self.bg.rgb, self.text._format), success)\n")),
]

BENIGN = [
    M(">= instead of > at an update site (still monotone)",
      (OPT, "            if result_contrast > best_contrast:\n                best_contrast = result_contrast\n                best_candidate = binary_result\n", "            if result_contrast >= best_contrast:\n                best_contrast = result_contrast\n                best_candidate = binary_result\n")),
    M("relaxed failure returns option B (still no worse than the original)",
      (OPT, "        return rec_rgb, False\n", "        return opt_b_rgb, False\n")),
    M("phases reordered",
      (OPT, "        # Phase 1: Binary search on lightness (fastest, most effective)\n        binary_result = binary_search_lightness(\n            text_rgb, bg_rgb, max_delta_e, target_contrast, large\n        )\n", "        # Phase 1: Binary search on lightness (fastest, most effective)\n        binary_result = gradient_descent_oklch(\n            text_rgb, bg_rgb, max_delta_e, target_contrast, large\n        )\n"),
      (OPT, "        gradient_result = gradient_descent_oklch(\n            text_rgb, bg_rgb, max_delta_e, target_contrast, large\n        )\n", "        gradient_result = binary_search_lightness(\n            text_rgb, bg_rgb, max_delta_e, target_contrast, large\n        )\n")),
    M("explicit None test on the accumulator",
      (OPT, "    return best_candidate if best_candidate else text_rgb\n", "    if best_candidate is not None:\n        return best_candidate\n    return text_rgb\n")),
]
