"""Mutants / benign variants for C09."""
CLI = "src/cm_colors/cli/main.py"
REP = "src/cm_colors/cli/html_report.py"


def M(name, *edits):
    return {"name": name, "edits": list(edits)}


MUTANTS = [
    M("output written over the input", (CLI, "            with open(output_path, \"w\", encoding=\"utf-8\") as f:\n                f.write(tinycss2.serialize(rules))", "            with open(file_path, \"w\", encoding=\"utf-8\") as f:\n                f.write(tinycss2.serialize(rules))")),
    M("output name without the infix", (CLI, "            output_filename = file_path.stem + \"_cm\" + file_path.suffix\n", "            output_filename = file_path.stem + \"\" + file_path.suffix\n")),
    M("input opened for update", (CLI, "            with open(file_path, \"r\", encoding=\"utf-8\") as f:\n                css_content = f.read()", "            with open(file_path, \"r+\", encoding=\"utf-8\") as f:\n                css_content = f.read()")),
    M("backup copy of every input created", (CLI, "import click\nimport tinycss2\n", "import click\nimport shutil\nimport tinycss2\n"), (CLI, "            rules = tinycss2.parse_stylesheet(\n", "            shutil.copy(file_path, str(file_path) + \".bak\")\n            rules = tinycss2.parse_stylesheet(\n")),
    M("input removed after a successful run", (CLI, "import click\nimport tinycss2\n", "import click\nimport os\nimport tinycss2\n"), (CLI, "                f.write(tinycss2.serialize(rules))\n\n        except Exception as e:", "                f.write(tinycss2.serialize(rules))\n            os.remove(file_path)\n\n        except Exception as e:")),
    M("report written as report.css next to the inputs", (CLI, "        report_path = generate_report(stats[\"fixed_details\"])", "        report_path = generate_report(stats[\"fixed_details\"], output_path=\"cm_colors_report.css\")")),
    M("stylesheet parsed without comments", (CLI, "            rules = tinycss2.parse_stylesheet(\n                css_content, skip_whitespace=False, skip_comments=False\n            )", "            rules = tinycss2.parse_stylesheet(\n                css_content, skip_whitespace=False, skip_comments=True\n            )")),
    M("declarations parsed without whitespace", (CLI, "                declarations = tinycss2.parse_declaration_list(\n                    node.content, skip_whitespace=False, skip_comments=False\n                )", "                declarations = tinycss2.parse_declaration_list(\n                    node.content, skip_whitespace=True, skip_comments=False\n                )")),
    M("nested rules parsed with default flags", (CLI, "                nested_rules = tinycss2.parse_rule_list(\n                    node.content, skip_whitespace=False, skip_comments=False\n                )", "                nested_rules = tinycss2.parse_rule_list(node.content)")),
    M("only the valid declarations are serialised back", (CLI, "                new_content_str = tinycss2.serialize(declarations)\n                # We need to parse this back", "                new_content_str = tinycss2.serialize(valid_decls)\n                # We need to parse this back")),
    M("selector rewritten", (CLI, "            if modified:\n                # Reconstruct", "            if modified:\n                node.prelude = tinycss2.parse_component_value_list(selector + \" \")\n                # Reconstruct")),
    M("property name lower-cased in place", (CLI, "                if decl.name == \"color\":\n                    color_decl = decl", "                if decl.lower_name == \"color\":\n                    decl.name = \"color\"\n                    color_decl = decl")),
    M("rules sorted before writing", (CLI, "            output_filename = file_path.stem", "            rules.sort(key=lambda r: r.type)\n            output_filename = file_path.stem")),
    M("output is the serialisation of a filtered rule list", (CLI, "                f.write(tinycss2.serialize(rules))", "                f.write(tinycss2.serialize([r for r in rules if r.type != \"comment\"]))")),
    M("nested content replaced by the processed rules of another parse", (CLI, "                nested_css = tinycss2.serialize(nested_rules)\n", "                nested_css = tinycss2.serialize(tinycss2.parse_rule_list(node.content, skip_whitespace=True, skip_comments=True))\n")),
    M("!important stripped when updating a value", (CLI, "def update_decl_value(decl, new_value_str):\n    decl.value = tinycss2.parse_component_value_list(new_value_str)\n", "def update_decl_value(decl, new_value_str):\n    decl.value = tinycss2.parse_component_value_list(new_value_str)\n    decl.important = False\n")),
    M("variables collected with the lossy helper and written back", (CLI, "            variables = {}\n            # We need a way", "            variables = collect_variables(rules)\n            # We need a way")),
]

BENIGN = [
    M("output name via with_name", (CLI, "            output_path = file_path.parent / output_filename\n", "            output_path = file_path.with_name(output_filename)\n")),
    M("explicit newline argument on the output", (CLI, "            with open(output_path, \"w\", encoding=\"utf-8\") as f:\n                f.write(tinycss2.serialize(rules))", "            with open(output_path, \"w\", encoding=\"utf-8\", newline=\"\") as f:\n                f.write(tinycss2.serialize(rules))")),
    M("serialised text kept in a local before writing", (CLI, "                f.write(tinycss2.serialize(rules))", "                out_css = tinycss2.serialize(rules)\n                f.write(out_css)")),
]
