"""Mutants / benign variants for C08."""
CLI = "src/cm_colors/cli/main.py"


def M(name, *edits):
    return {"name": name, "edits": list(edits)}


FIXED_A = "                                    else:\n                                        # var() with a fallback, or a property that is not defined\n                                        # in :root/html: there is no definition to rewrite, so fix\n                                        # the declaration itself\n                                        update_decl_value(color_decl, tuned_rgb)\n                                        modified = True\n                                else:"

MUTANTS = [
    M("F-C08a reverted: var() without a rewritable definition is counted but not written",
      (CLI, FIXED_A, "                                    else:\n                                        pass\n                                else:")),
    M("F-C08b reverted: main does not share the :root/html snapshots",
      (CLI, "                premium=premium,\n                decl_lists=rule_declarations_map,\n            )", "                premium=premium,\n            )")),
    M("adjusted counted before the success flag is known",
      (CLI, "                            if is_accessible:\n                                stats[\"tuned\"] += 1\n", "                            stats[\"tuned\"] += 1\n                            if is_accessible:\n")),
    M("failed fixes also counted as failed twice (else branch plus unconditional)",
      (CLI, "                            else:\n                                stats[\"failed\"] += 1\n                                stats[\"failed_details\"].append(\n                                    {\n                                        \"file\": file_path.name,\n                                        \"selector\": selector,\n                                        \"text\": text_color_str,\n                                        \"bg\": bg_color_str,\n                                        \"contrast\": contrast,",
       "                            else:\n                                stats[\"failed\"] += 1\n                                stats[\"failed\"] += 1\n                                stats[\"failed_details\"].append(\n                                    {\n                                        \"file\": file_path.name,\n                                        \"selector\": selector,\n                                        \"text\": text_color_str,\n                                        \"bg\": bg_color_str,\n                                        \"contrast\": contrast,")),
    M("invalid pairs are not counted at all",
      (CLI, "                    if not pair.is_valid:\n                        stats[\"failed\"] += 1\n", "                    if not pair.is_valid:\n")),
    M("exception handler forgets to count the rule",
      (CLI, "                except Exception as e:\n                    stats[\"failed\"] += 1\n", "                except Exception as e:\n")),
    M("report shows the hex of the original text instead of the written value",
      (CLI, "                                        \"tuned_text\": tuned_rgb,", "                                        \"tuned_text\": pair.text.to_hex(),")),
    M("written value is re-rendered as hex but the report shows the API value",
      (CLI, "                                else:\n                                    update_decl_value(color_decl, tuned_rgb)\n                                    modified = True", "                                else:\n                                    update_decl_value(color_decl, new_pair_hex(tuned_rgb))\n                                    modified = True"),
      (CLI, "def collect_variables(rules):", "def new_pair_hex(value):\n    return ColorPair(value, \"white\").text.to_hex() or value\n\n\ndef collect_variables(rules):")),
    M("modified flag not set: the rewritten declaration is never serialised",
      (CLI, "                                else:\n                                    update_decl_value(color_decl, tuned_rgb)\n                                    modified = True", "                                else:\n                                    update_decl_value(color_decl, tuned_rgb)")),
    M("CLI target for non-premium is 3.0",
      (CLI, "                        target_ratio = 7.0 if premium else 4.5", "                        target_ratio = 7.0 if premium else 3.0")),
    M("already-readable test non-inclusive",
      (CLI, "                        if contrast >= target_ratio:\n                            stats[\"accessible\"] += 1", "                        if contrast > target_ratio:\n                            stats[\"accessible\"] += 1")),
    M("premium not forwarded to the API",
      (CLI, "                            tuned_rgb, is_accessible = pair.make_readable(\n                                mode=mode, very_readable=premium\n                            )", "                            tuned_rgb, is_accessible = pair.make_readable(\n                                mode=mode\n                            )")),
    M("nested rules processed with default settings",
      (CLI, "                    variables,\n                    mode=mode,\n                    premium=premium,\n                    decl_lists=decl_lists,\n                )\n\n                nested_css", "                    variables,\n                )\n\n                nested_css")),
    M("nested rules not written back",
      (CLI, "                nested_css = tinycss2.serialize(nested_rules)\n                new_content = tinycss2.parse_component_value_list(nested_css)\n                node.content = new_content\n", "                nested_css = tinycss2.serialize(nested_rules)\n")),
    M("first color declaration wins",
      (CLI, "                if decl.name == \"color\":\n                    color_decl = decl\n", "                if decl.name == \"color\":\n                    color_decl = decl\n                    break\n")),
    M("background taken from default_bg even when the rule has one",
      (CLI, "                raw_bg_color = (\n                    extract_color_from_decl(bg_decl) if bg_decl else default_bg\n                )", "                raw_bg_color = default_bg")),
    M("default background option defaults to black",
      (CLI, "    \"--default-bg\",\n    default=\"white\",", "    \"--default-bg\",\n    default=\"black\",")),
    M("pairs judged as large text",
      (CLI, "                    pair = ColorPair(text_color_str, bg_color_str)\n", "                    pair = ColorPair(text_color_str, bg_color_str, True)\n")),
    M("the declaration is rewritten even when the fix failed",
      (CLI, "                            else:\n                                stats[\"failed\"] += 1\n                                stats[\"failed_details\"].append(\n                                    {\n                                        \"file\": file_path.name,\n                                        \"selector\": selector,\n                                        \"text\": text_color_str,\n                                        \"bg\": bg_color_str,\n                                        \"contrast\": contrast,",
       "                            else:\n                                update_decl_value(color_decl, tuned_rgb)\n                                modified = True\n                                stats[\"failed\"] += 1\n                                stats[\"failed_details\"].append(\n                                    {\n                                        \"file\": file_path.name,\n                                        \"selector\": selector,\n                                        \"text\": text_color_str,\n                                        \"bg\": bg_color_str,\n                                        \"contrast\": contrast,")),
    M("custom-property rewrite targets a copy of the declaration",
      (CLI, "                                variables[decl.name] = {\n                                    \"decl\": decl,", "                                variables[decl.name] = {\n                                    \"decl\": Declaration(decl.source_line, decl.source_column, decl.name, decl.lower_name, list(decl.value), decl.important),")),
]

MUTANTS += [
    M("sweep: failed counter incremented by two", (CLI, "                    if not pair.is_valid:\n                        stats[\"failed\"] += 1\n", "                    if not pair.is_valid:\n                        stats[\"failed\"] += 2\n")),
    M("sweep: color_decl not initialised (a rule without a colour hits an unbound name)", (CLI, "            modified = False\n            color_decl = None\n", "            modified = False\n")),
    M("sweep: background taken from any declaration that is not background-color",
      (CLI, "                elif decl.name == \"background-color\":\n                    bg_decl = decl", "                elif not decl.name == \"background-color\":\n                    bg_decl = decl")),
    M("sweep: background declaration never recorded", (CLI, "                elif decl.name == \"background-color\":\n                    bg_decl = decl", "                elif decl.name == \"background-color\":\n                    pass")),
    M("sweep: invalid pairs counted but not listed",
      (CLI, "                        stats[\"failed\"] += 1\n                        stats[\"failed_details\"].append(\n                            {\n                                \"file\": file_path.name,\n                                \"selector\": selector,\n                                \"text\": text_color_str,\n                                \"bg\": bg_color_str,\n                                \"reason\": f\"Invalid colors: {', '.join(pair.errors)}\",\n                            }\n                        )",
       "                        stats[\"failed\"] += 1")),
    M("seed: classification on the ratio rounded to two decimals",
      (CLI, "                        contrast = calculate_contrast_ratio(pair.text.rgb, pair.bg.rgb)\n", "                        contrast = round(calculate_contrast_ratio(pair.text.rgb, pair.bg.rgb), 2)\n")),
]

BENIGN = [
    M("target chosen with if/else statements",
      (CLI, "                        target_ratio = 7.0 if premium else 4.5\n", "                        if premium:\n                            target_ratio = 7.0\n                        else:\n                            target_ratio = 4.5\n")),
    M("tuned value kept in a differently named local",
      (CLI, "                            tuned_rgb, is_accessible = pair.make_readable(\n                                mode=mode, very_readable=premium\n                            )\n", "                            api_result = pair.make_readable(\n                                mode=mode, very_readable=premium\n                            )\n                            tuned_rgb, is_accessible = api_result\n")),
    M("positional settings in the recursive call",
      (CLI, "                    variables,\n                    mode=mode,\n                    premium=premium,\n                    decl_lists=decl_lists,\n                )\n\n                nested_css", "                    variables,\n                    mode,\n                    premium,\n                    decl_lists,\n                )\n\n                nested_css")),
    M("declaration name compared case-insensitively",
      (CLI, "                if decl.name == \"color\":\n                    color_decl = decl\n                elif decl.name == \"background-color\":", "                if decl.lower_name == \"color\":\n                    color_decl = decl\n                elif decl.lower_name == \"background-color\":")),
]
