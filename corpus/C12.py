"""Mutants / benign variants for C12."""
BULK = "src/cm_colors/core/cm_colors.py"


def M(name, *edits):
    return {"name": name, "edits": list(edits)}


MAIN_APPEND = "            results.append((tuned_color, current_readability))\n"

MUTANTS = [
    M("tuned colour only recorded on success",
      (BULK, MAIN_APPEND, "            if success:\n                results.append((tuned_color, current_readability))\n")),
    M("results inserted at the front",
      (BULK, MAIN_APPEND, "            results.insert(0, (tuned_color, current_readability))\n")),
    M("large flag leaks from the previous 3-element entry",
      (BULK, "    results = []\n    report_data = []\n", "    results = []\n    report_data = []\n    large = False\n"),
      (BULK, "            text, bg = item\n            large = False\n", "            text, bg = item\n")),
    M("status taken from the original pair",
      (BULK, "                new_pair.is_readable.lower()\n", "                pair.is_readable.lower()\n")),
    M("status computed at normal text size",
      (BULK, "            new_pair = ColorPair(tuned_color, bg, large)\n", "            new_pair = ColorPair(tuned_color, bg)\n")),
    M("mode not forwarded",
      (BULK, "            mode=mode, very_readable=very_readable\n", "            mode=1, very_readable=very_readable\n")),
    M("very_readable not forwarded",
      (BULK, "            mode=mode, very_readable=very_readable\n", "            mode=mode\n")),
    M("duplicates are skipped",
      (BULK, "    for i, item in enumerate(pairs):\n", "    seen = set()\n    for i, item in enumerate(pairs):\n        if str(item) in seen:\n            continue\n        seen.add(str(item))\n")),
    M("invalid entry stops the batch",
      (BULK, "            results.append((text, \"invalid color\"))\n            continue\n", "            results.append((text, \"invalid color\"))\n            break\n")),
    M("invalid entry claims readability",
      (BULK, "            results.append((text, \"invalid color\"))\n", "            results.append((text, \"readable\"))\n")),
    M("invalid entries dropped",
      (BULK, "            results.append((text, \"invalid color\"))\n            continue\n", "            continue\n")),
    M("results sorted before returning",
      (BULK, "    return results\n", "    results.sort(key=str)\n    return results\n")),
    M("entries processed in reverse",
      (BULK, "    for i, item in enumerate(pairs):\n", "    for i, item in enumerate(reversed(pairs)):\n")),
    M("status judged against the text instead of the background",
      (BULK, "            new_pair = ColorPair(tuned_color, bg, large)\n", "            new_pair = ColorPair(tuned_color, text, large)\n")),
    M("status of the original colour",
      (BULK, "            new_pair = ColorPair(tuned_color, bg, large)\n", "            new_pair = ColorPair(text, bg, large)\n")),
    M("previous tuned colour reused when same text repeats",
      (BULK, "    results = []\n    report_data = []\n", "    results = []\n    report_data = []\n    last = {}\n"),
      (BULK, "        tuned_color, success = pair.make_readable(\n            mode=mode, very_readable=very_readable\n        )\n",
       "        if str(text) in last:\n            tuned_color, success = last[str(text)]\n        else:\n            tuned_color, success = pair.make_readable(\n                mode=mode, very_readable=very_readable\n            )\n            last[str(text)] = (tuned_color, success)\n")),
    M("pair built with swapped colours",
      (BULK, "        pair = ColorPair(text, bg, large)\n", "        pair = ColorPair(bg, text, large)\n")),
    M("failed fixes return the original colour",
      (BULK, MAIN_APPEND, "            results.append((tuned_color if success else text, current_readability))\n")),
]

BENIGN = [
    M("loop without enumerate",
      (BULK, "    for i, item in enumerate(pairs):\n", "    i = 0\n    for item in pairs:\n")),
    M("status computed into a differently named local",
      (BULK, "            current_readability = (\n                new_pair.is_readable.lower()\n            )", "            label = new_pair.is_readable\n            current_readability = label.lower()"),),
    M("positional settings",
      (BULK, "        tuned_color, success = pair.make_readable(\n            mode=mode, very_readable=very_readable\n        )\n", "        tuned_color, success = pair.make_readable(mode, very_readable)\n")),
    M("explicit defaults for the preview flags",
      (BULK, "            mode=mode, very_readable=very_readable\n        )\n\n        # Check", "            mode=mode, very_readable=very_readable, show=False, save_report=False\n        )\n\n        # Check")),
]
