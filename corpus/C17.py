"""Mutants / benign variants for C17."""
OPT = "src/cm_colors/core/optimisation.py"
COL = "src/cm_colors/core/colors.py"
PAR = "src/cm_colors/core/color_parser.py"
BULK = "src/cm_colors/core/cm_colors.py"
VIS = "src/cm_colors/core/visualiser.py"


def M(name, *edits):
    return {"name": name, "edits": list(edits)}


MUTANTS = [
    M("unguarded print when the fix fails",
      (COL, "        # Handle visualizers\n        if show or save_report:", "        if not success:\n            print('Could not make this pair readable')\n        # Handle visualizers\n        if show or save_report:")),
    M("constructor prints parse errors",
      (COL, "        except ValueError as e:\n            self._error = str(e)\n", "        except ValueError as e:\n            self._error = str(e)\n            print(f'cm-colors: {e}')\n")),
    M("optimiser logs a warning on the relaxed fallback",
      (OPT, "from typing import Tuple, Optional, List\n", "from typing import Tuple, Optional, List\nimport logging\n"),
      (OPT, "    # Option B: Delta E relaxation until 15\n", "    logging.warning('falling back to relaxed search')\n    # Option B: Delta E relaxation until 15\n")),
    M("optimiser appends to a debug file",
      (OPT, "    accessible_text_str = rgbint_to_string(tuned_rgb)\n", "    accessible_text_str = rgbint_to_string(tuned_rgb)\n    with open('cm_colors_debug.log', 'a') as fh:\n        fh.write(accessible_text_str)\n")),
    M("visualiser guard dropped (always previews)",
      (COL, "        if show or save_report:\n            from .visualiser", "        if True:\n            from .visualiser"),
      (COL, "            if show:\n                # Convert to hex", "            if True:\n                # Convert to hex")),
    M("preview block rewrites the result as hex",
      (COL, "                    print(\"Colors are already accessible. No changes needed.\")\n", "                    print(\"Colors are already accessible. No changes needed.\")\n                    result = (fg_hex, success)\n")),
    M("report written under show as well",
      (COL, "            if save_report:\n                # For single pair", "            if save_report or show:\n                # For single pair")),
    M("report goes to an absolute temp path",
      (COL, "output_path=\"cm_colors_quick_report.html\"", "output_path=\"/tmp/cm_colors_quick_report.html\"")),
    M("bulk report name changed",
      (BULK, "output_path=\"cm_colors_bulk_report.html\"", "output_path=\"cm_colors_report.html\"")),
    M("bulk forwards save_report to every pair (extra quick report files)",
      (BULK, "            mode=mode, very_readable=very_readable\n        )", "            mode=mode, very_readable=very_readable, save_report=save_report\n        )")),
    M("bulk always generates the report",
      (BULK, "    if save_report and report_data:\n", "    if results:\n")),
    M("to_html_bulk writes a JSON sidecar",
      (VIS, "    return os.path.abspath(output_path)\n", "    with open(output_path + '.json', 'w') as jf:\n        jf.write(str(len(pairs)))\n    return os.path.abspath(output_path)\n")),
    M("show changes the mode used",
      (COL, "        premium = very_readable\n", "        premium = very_readable\n        if show:\n            mode = 2\n")),
    M("warnings.warn for translucent input in the parser",
      (PAR, "import re\nfrom typing import Tuple, Union", "import re\nimport warnings\nfrom typing import Tuple, Union"),
      (PAR, "                if background is None:\n                    bg_rgb = (255, 255, 255)\n                else:\n                    bg_rgb = parse_color_to_rgb(background)\n                return rgba_to_rgb((r, g, b, a), background=bg_rgb)\n            elif len(tokens) == 3:",
       "                if background is None:\n                    warnings.warn('compositing over white')\n                    bg_rgb = (255, 255, 255)\n                else:\n                    bg_rgb = parse_color_to_rgb(background)\n                return rgba_to_rgb((r, g, b, a), background=bg_rgb)\n            elif len(tokens) == 3:")),
    M("sys.stderr.write in is_readable for invalid pairs",
      (COL, "from typing import Tuple, Optional, Union\n", "from typing import Tuple, Optional, Union\nimport sys\n"),
      (COL, "        if not self.is_valid:\n            return \"Not Readable\"\n", "        if not self.is_valid:\n            sys.stderr.write('invalid pair\\n')\n            return \"Not Readable\"\n")),
    M("import-time banner",
      (BULK, "def make_readable_bulk(", "print('cm-colors loaded')\n\n\ndef make_readable_bulk(")),
]

BENIGN = [
    M("bulk guard split into nested ifs",
      (BULK, "    if save_report and report_data:\n        report_path = to_html_bulk(\n            report_data, output_path=\"cm_colors_bulk_report.html\"\n        )\n        print(f\"Report generated: {report_path}\")\n",
       "    if save_report:\n        if report_data:\n            report_path = to_html_bulk(\n                report_data, output_path=\"cm_colors_bulk_report.html\"\n            )\n            print(f\"Report generated: {report_path}\")\n")),
    M("bulk guard relies on report_data only (filled only under save_report)",
      (BULK, "    if save_report and report_data:\n", "    if report_data:\n")),
    M("show tested with `is True`",
      (COL, "            if show:\n                # Convert to hex", "            if show is True:\n                # Convert to hex")),
    M("extra local computed in the preview block",
      (COL, "            new_level = None\n\n            tuned_rgb, success = result", "            new_level = None\n            preview_title = 'Preview'\n\n            tuned_rgb, success = result")),
    M("guard order swapped",
      (COL, "        if show or save_report:\n            from .visualiser", "        if save_report or show:\n            from .visualiser")),
]
