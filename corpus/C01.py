"""Mutants / benign variants for C01."""
OPT = "src/cm_colors/core/optimisation.py"
COL = "src/cm_colors/core/colors.py"


def M(name, *edits):
    return {"name": name, "edits": list(edits)}


MUTANTS = [
    M("strict verdict uses > instead of >=",
      (OPT, "    success = final_contrast >= min_contrast\n", "    success = final_contrast > min_contrast\n")),
    M("strict verdict compares with the target",
      (OPT, "    success = final_contrast >= min_contrast\n", "    success = final_contrast >= target_contrast\n")),
    M("recursive: stuck branch reports success without checking",
      (OPT, "            if calculate_contrast_ratio(next_rgb, bg_rgb) >= min_contrast:\n                return next_rgb, True\n            else:\n                return next_rgb, False\n", "            return next_rgb, True\n")),
    M("recursive: final fall-through reports success",
      (OPT, "    return current_rgb, False\n\n\ndef _strategy_relaxed", "    return current_rgb, True\n\n\ndef _strategy_relaxed")),
    M("recursive: returns the previous colour after judging the new one",
      (OPT, "        current_rgb = next_rgb\n\n        # Check if we passed now\n        if calculate_contrast_ratio(current_rgb, bg_rgb) >= min_contrast:\n            return current_rgb, True\n",
       "        prev_rgb = current_rgb\n        current_rgb = next_rgb\n\n        # Check if we passed now\n        if calculate_contrast_ratio(current_rgb, bg_rgb) >= min_contrast:\n            return prev_rgb, True\n")),
    M("relaxed: failure branch reports success",
      (OPT, "        return rec_rgb, False\n", "        return rec_rgb, True\n")),
    M("relaxed: option A judged against the target instead of the minimum",
      (OPT, "        opt_a_rgb = next_rgb\n        if calculate_contrast_ratio(opt_a_rgb, bg_rgb) >= min_contrast:\n            opt_a_success = True\n            break\n", "        opt_a_rgb = next_rgb\n        if calculate_contrast_ratio(opt_a_rgb, bg_rgb) >= min_contrast - 0.1:\n            opt_a_success = True\n            break\n")),
    M("relaxed: option B flag computed on option A's colour",
      (OPT, "    opt_b_success = calculate_contrast_ratio(opt_b_rgb, bg_rgb) >= min_contrast\n", "    opt_b_success = calculate_contrast_ratio(opt_a_rgb, bg_rgb) >= min_contrast\n")),
    M("relaxed: returns option B when only option A succeeded",
      (OPT, "    elif opt_a_success:\n        return opt_a_rgb, True\n", "    elif opt_a_success:\n        return opt_b_rgb, True\n")),
    M("table: large AA minimum 3.0 -> 3.5",
      (OPT, "        if large:\n            min_contrast = 3.0\n            target_contrast = 4.5  # Aim a bit higher for buffer\n", "        if large:\n            min_contrast = 3.5\n            target_contrast = 4.5  # Aim a bit higher for buffer\n")),
    M("table: premium large minimum 4.5 -> 3.0",
      (OPT, "        if large:\n            min_contrast = 4.5\n            target_contrast = 4.5  # Aim a bit higher for buffer\n", "        if large:\n            min_contrast = 3.0\n            target_contrast = 4.5  # Aim a bit higher for buffer\n")),
    M("table: premium normal minimum 7.0 -> 6.9",
      (OPT, "        else:\n            min_contrast = 7.0\n            target_contrast = 7.0\n", "        else:\n            min_contrast = 6.9\n            target_contrast = 7.0\n")),
    M("make_readable inverts very_readable",
      (COL, "        premium = very_readable\n", "        premium = not very_readable\n")),
    M("make_readable ignores large_text",
      (COL, "            self.text._rgb, self.bg._rgb, self.large, mode, premium\n", "            self.text._rgb, self.bg._rgb, False, mode, premium\n")),
    M("make_readable forces success when the colour changed",
      (COL, "                    result = (formatted_color, success)\n", "                    result = (formatted_color, success or formatted_color != self.text.original)\n")),
    M("dispatcher overrides the flag after the strategy",
      (OPT, "    accessible_text_str = rgbint_to_string(tuned_rgb)\n\n    return accessible_text_str, success\n", "    accessible_text_str = rgbint_to_string(tuned_rgb)\n    if improvement_percentage > 20:\n        success = True\n\n    return accessible_text_str, success\n")),
    M("dispatcher returns the original text with the strategy's flag",
      (OPT, "    return accessible_text_str, success\n", "    return rgbint_to_string(text_rgb), success\n")),
    M("strict judges the original colour",
      (OPT, "    final_contrast = calculate_contrast_ratio(tuned_rgb, bg_rgb)\n    success = final_contrast >= min_contrast\n    return tuned_rgb, success\n", "    final_contrast = calculate_contrast_ratio(text_rgb, bg_rgb)\n    success = final_contrast >= min_contrast\n    return tuned_rgb, success\n")),
    M("recursive: verdict against the text colour as background",
      (OPT, "        if calculate_contrast_ratio(current_rgb, bg_rgb) >= min_contrast:\n            return current_rgb, True\n\n    return current_rgb, False", "        if calculate_contrast_ratio(current_rgb, text_rgb) >= min_contrast:\n            return current_rgb, True\n\n    return current_rgb, False")),
    M("recursive: zero iterations allowed (loop bound from a parameter) then claims failure",
      (OPT, "    for _ in range(max_iterations):\n        current_contrast = calculate_contrast_ratio(current_rgb, bg_rgb)\n        if current_contrast >= min_contrast:\n            return current_rgb, True\n", "    for _ in range(int(large)):\n        current_contrast = calculate_contrast_ratio(current_rgb, bg_rgb)\n        if current_contrast >= min_contrast:\n            return current_rgb, True\n")),
]

BENIGN = [
    # changes which colours get touched (a C02 violation, reported there) but every flag still matches its colour
    M("already-passes shortcut compares with the target (flags still exact)",
      (OPT, "    required_contrast_for_check = min_contrast\n", "    required_contrast_for_check = target_contrast\n")),
    M("locals renamed, comparison hoisted",
      (OPT, "    final_contrast = calculate_contrast_ratio(tuned_rgb, bg_rgb)\n    success = final_contrast >= min_contrast\n    return tuned_rgb, success\n", "    ratio = calculate_contrast_ratio(tuned_rgb, bg_rgb)\n    passes = ratio >= min_contrast\n    ok = passes\n    return tuned_rgb, ok\n")),
    M("inverted if/else in the stuck branch",
      (OPT, "            if calculate_contrast_ratio(next_rgb, bg_rgb) >= min_contrast:\n                return next_rgb, True\n            else:\n                return next_rgb, False\n", "            if not (calculate_contrast_ratio(next_rgb, bg_rgb) >= min_contrast):\n                return next_rgb, False\n            else:\n                return next_rgb, True\n")),
    M("required_contrast_for_check replaced by min_contrast",
      (OPT, "    if current_contrast >= required_contrast_for_check:\n", "    if current_contrast >= min_contrast:\n")),
    M("contrast arguments swapped (ratio is symmetric)",
      (OPT, "    final_contrast = calculate_contrast_ratio(tuned_rgb, bg_rgb)\n    success = final_contrast >= min_contrast\n", "    final_contrast = calculate_contrast_ratio(bg_rgb, tuned_rgb)\n    success = final_contrast >= min_contrast\n")),
    M("strict written with if/else constants",
      (OPT, "    success = final_contrast >= min_contrast\n    return tuned_rgb, success\n", "    if final_contrast < min_contrast:\n        return tuned_rgb, False\n    return tuned_rgb, True\n")),
    M("min <= contrast spelling",
      (OPT, "        if current_contrast >= min_contrast:\n            return current_rgb, True\n", "        if min_contrast <= current_contrast:\n            return current_rgb, True\n")),
    M("recursive stuck branch merged into a single return of the comparison",
      (OPT, "            if calculate_contrast_ratio(next_rgb, bg_rgb) >= min_contrast:\n                return next_rgb, True\n            else:\n                return next_rgb, False\n", "            return next_rgb, calculate_contrast_ratio(next_rgb, bg_rgb) >= min_contrast\n")),
    M("more iterations",
      (OPT, "    max_iterations = 10\n", "    max_iterations = 12\n")),
]
