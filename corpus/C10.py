"""Mutants / benign variants for C10."""
CONV = "src/cm_colors/core/conversions.py"


def M(name, *edits):
    return {"name": name, "edits": list(edits)}


MUTANTS = [
    M("M1 coefficient typo", (CONV, "0.5363325363 * g_linear", "0.5363352363 * g_linear")),
    M("M2 sign slip", (CONV, "    L = 0.2104542553 * l_prime + 0.7936177850 * m_prime - 0.0040720468 * s_prime", "    L = 0.2104542553 * l_prime + 0.7936177850 * m_prime + 0.0040720468 * s_prime")),
    M("inverse M2 coefficient typo", (CONV, "    m_prime = L - 0.1055613458 * a - 0.0638541728 * b", "    m_prime = L - 0.1055613458 * a - 0.0683541728 * b")),
    M("inverse M1 coefficient typo", (CONV, "+ 1.7076147010 * s_cone", "+ 1.7067147010 * s_cone")),
    M("cube root exponent 1/2", (CONV, "            return pow(x, 1 / 3)\n        else:\n            return -pow(-x, 1 / 3)", "            return pow(x, 1 / 2)\n        else:\n            return -pow(-x, 1 / 2)")),
    M("cube root loses the sign for negative values", (CONV, "            return -pow(-x, 1 / 3)", "            return pow(-x, 1 / 3)")),
    M("cos and sin swapped", (CONV, "    a = C * math.cos(H_rad)\n    b = C * math.sin(H_rad)", "    a = C * math.sin(H_rad)\n    b = C * math.cos(H_rad)")),
    M("degrees used as radians", (CONV, "    H_rad = H * math.pi / 180.0", "    H_rad = H")),
    M("lightness clamp removed", (CONV, "    L = max(0.0, min(1.0, L))\n\n    return (L, C, H)", "    return (L, C, H)")),
    M("channel clamp removed before gamma", (CONV, "    g_linear = max(0.0, min(1.0, g_linear))\n", "")),
    M("8-bit clamp upper bound 256", (CONV, "    b_8bit = max(0, min(255, round(b_srgb * 255)))", "    b_8bit = max(0, min(256, round(b_srgb * 255)))")),
    M("truncation instead of rounding", (CONV, "    r_8bit = max(0, min(255, round(r_srgb * 255)))", "    r_8bit = max(0, min(255, int(r_srgb * 255)))")),
    M("inverse transfer knee 0.031308", (CONV, "    if channel <= 0.0031308:\n        return 12.92 * channel", "    if channel <= 0.031308:\n        return 12.92 * channel")),
    M("inverse transfer offset dropped", (CONV, "        return 1.055 * pow(channel, 1.0 / 2.4) - 0.055", "        return 1.055 * pow(channel, 1.0 / 2.4)")),
    M("chroma without the square root", (CONV, "    C = math.sqrt(a * a + b * b)\n\n    # Hue calculation", "    C = a * a + b * b\n\n    # Hue calculation")),
    M("cube written with a square", (CONV, "            return x * x * x\n", "            return x * x\n")),
    M("F-C10 reverted: unclamped grey fallback", (CONV, "        gray_normalized = max(0.0, min(1.0, gray / 255.0))\n", "        gray_normalized = gray / 255.0\n")),
    M("oklch_to_rgb_safe fallback unclamped", (CONV, "        gray_value = max(0, min(255, round(L * 255)))", "        gray_value = round(L * 255)")),
    M("safe wrapper returns without validating the output", (CONV, "        # Validate RGB output\n        if not is_valid_rgb(rgb):\n            raise ValueError(f\"Invalid RGB conversion result: {rgb}\")\n\n        return rgb", "        return rgb")),
    M("safe wrapper converts a modified input", (CONV, "        rgb = oklch_to_rgb(oklch)\n\n        # Validate RGB output", "        rgb = oklch_to_rgb((oklch[0], oklch[1] * 0.5, oklch[2]))\n\n        # Validate RGB output")),
]

BENIGN = [
    M("** instead of pow in the cube root", (CONV, "            return pow(x, 1 / 3)\n        else:", "            return x ** (1 / 3)\n        else:")),
    M("cube written with **", (CONV, "            return x * x * x\n", "            return x ** 3\n")),
    M("hue via math.radians-free spelling kept, temporaries renamed", (CONV, "    H_rad = H * math.pi / 180.0\n    a = C * math.cos(H_rad)\n    b = C * math.sin(H_rad)", "    theta = H * math.pi / 180.0\n    a = C * math.cos(theta)\n    b = C * math.sin(theta)")),
    M("achromatic epsilon 1e-9", (CONV, "    if C < 1e-10:  # Very small chroma", "    if C < 1e-9:  # Very small chroma")),
]
