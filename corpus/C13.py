"""Mutants / benign variants for C13."""
COL = "src/cm_colors/core/colors.py"
PAR = "src/cm_colors/core/color_parser.py"
CONV = "src/cm_colors/core/conversions.py"


def M(name, *edits):
    return {"name": name, "edits": list(edits)}


MUTANTS = [
    M("text parsed before the background, without context",
      (COL, "        self.bg = Color(bg_color)\n        # Pass background context for RGBA compositing\n        self.text = Color(text_color, background_context=self.bg)\n", "        self.text = Color(text_color)\n        self.bg = Color(bg_color)\n")),
    M("text used as context for the background",
      (COL, "        self.bg = Color(bg_color)\n        # Pass background context for RGBA compositing\n        self.text = Color(text_color, background_context=self.bg)\n", "        self.text = Color(text_color)\n        self.bg = Color(bg_color, background_context=self.text)\n")),
    M("_parse forgets to forward the context",
      (COL, "            self._rgb = parse_color_to_rgb(self.original, background=bg_rgb)", "            self._rgb = parse_color_to_rgb(self.original)")),
    M("_parse forwards the context only for invalid contexts",
      (COL, "            if self.background_context and self.background_context.is_valid:\n                bg_rgb = self.background_context.rgb", "            if self.background_context and not self.background_context.is_valid:\n                bg_rgb = (255, 255, 255)")),
    M("rgba() string branch always composites over white",
      (PAR, "                if background is None:\n                    bg_rgb = (255, 255, 255)\n                else:\n                    bg_rgb = parse_color_to_rgb(background)\n                return rgba_to_rgb((r, g, b, a), background=bg_rgb)\n            elif len(tokens) == 3:", "                bg_rgb = (255, 255, 255)\n                return rgba_to_rgb((r, g, b, a), background=bg_rgb)\n            elif len(tokens) == 3:")),
    M("RGBA tuple branch composites over black when a background is given",
      (PAR, "                if background is None:\n                    bg_rgb = (255, 255, 255)\n                else:\n                    bg_rgb = parse_color_to_rgb(background)\n                return rgba_to_rgb((r, g, b, a), background=bg_rgb)\n            else:\n                bg_rgb = None", "                if background is None:\n                    bg_rgb = (255, 255, 255)\n                else:\n                    bg_rgb = (0, 0, 0)\n                return rgba_to_rgb((r, g, b, a), background=bg_rgb)\n            else:\n                bg_rgb = None")),
    M("hsla() string branch drops the background",
      (PAR, "                return hsla_to_rgb(s, bg_rgb)\n            else:\n                # HSL without alpha", "                return hsla_to_rgb(s)\n            else:\n                # HSL without alpha")),
    M("hsla_to_rgb ignores a supplied background",
      (CONV, "    if background is None:\n        bg_rgb = (255, 255, 255)  # Default white background\n    else:", "    if background is not None:\n        bg_rgb = (255, 255, 255)  # Default white background\n    else:")),
    M("rgba_to_rgb: weights swapped",
      (CONV, "    r_out = int(round(r * a + r_bg * (1 - a)))", "    r_out = int(round(r_bg * a + r * (1 - a)))")),
    M("rgba_to_rgb: green blended with the blue background channel",
      (CONV, "    g_out = int(round(g * a + g_bg * (1 - a)))", "    g_out = int(round(g * a + b_bg * (1 - a)))")),
    M("rgba_to_rgb: 1 + a",
      (CONV, "    b_out = int(round(b * a + b_bg * (1 - a)))", "    b_out = int(round(b * a + b_bg * (1 + a)))")),
    M("hsla_to_rgb: background unpacked in the wrong order",
      (CONV, "    bg_r, bg_g, bg_b = bg_rgb\n", "    bg_b, bg_g, bg_r = bg_rgb\n")),
    M("hsla_to_rgb: alpha applied to the background",
      (CONV, "    final_r = int(a * r + (1 - a) * bg_r)", "    final_r = int((1 - a) * r + a * bg_r)")),
    M("hsla_to_rgb: opaque shortcut at alpha >= 0.5",
      (CONV, "    if a >= 1.0:\n        return rgb\n", "    if a >= 0.5:\n        return rgb\n")),
    M("hsla_to_rgb: blends a different lightness",
      (CONV, "    rgb = hsl_to_rgb((h, s, l))\n", "    rgb = hsl_to_rgb((h, s, l * a))\n")),
]

MUTANTS += [
    M("sweep: HSLA tuple branch ignores a supplied background (test polarity flipped)",
      (PAR, "                bg_rgb = None\n                if background is not None:\n                    if isinstance(background, (tuple, list)) and len(background) == 3:\n                        bg_rgb = tuple(background)\n                    else:\n                        bg_rgb = parse_color_to_rgb(background)\n                return hsla_to_rgb(color, bg_rgb)",
       "                bg_rgb = None\n                if background is None:\n                    if isinstance(background, (tuple, list)) and len(background) == 3:\n                        bg_rgb = tuple(background)\n                    else:\n                        bg_rgb = parse_color_to_rgb(background)\n                return hsla_to_rgb(color, bg_rgb)")),
    M("sweep: hsla default background is not white", (CONV, "        bg_rgb = (255, 255, 255)  # Default white background", "        bg_rgb = (256, 255, 255)  # Default white background")),
]

BENIGN = [
    M("round in the HSLA blend", (CONV, "    final_r = int(a * r + (1 - a) * bg_r)\n    final_g = int(a * g + (1 - a) * bg_g)\n    final_b = int(a * b + (1 - a) * bg_b)", "    final_r = int(round(a * r + (1 - a) * bg_r))\n    final_g = int(round(a * g + (1 - a) * bg_g))\n    final_b = int(round(a * b + (1 - a) * bg_b))")),
    M("blend operands commuted", (CONV, "    r_out = int(round(r * a + r_bg * (1 - a)))", "    r_out = int(round((1 - a) * r_bg + a * r))")),
    M("context passed positionally", (COL, "        self.text = Color(text_color, background_context=self.bg)", "        self.text = Color(text_color, self.bg)")),
    M("background resolved into a local first", (PAR, "                if background is None:\n                    bg_rgb = (255, 255, 255)\n                else:\n                    bg_rgb = parse_color_to_rgb(background)\n                return rgba_to_rgb((r, g, b, a), background=bg_rgb)\n            elif len(tokens) == 3:", "                if background is None:\n                    under = (255, 255, 255)\n                else:\n                    under = parse_color_to_rgb(background)\n                bg_rgb = under\n                return rgba_to_rgb((r, g, b, a), background=bg_rgb)\n            elif len(tokens) == 3:")),
]
