"""Mutants (must be reported) and benign variants (must stay silent) for C15."""
OPT = "src/cm_colors/core/optimisation.py"
COL = "src/cm_colors/core/colors.py"
CON = "src/cm_colors/core/contrast.py"
CONV = "src/cm_colors/core/conversions.py"
PAR = "src/cm_colors/core/color_parser.py"
BULK = "src/cm_colors/core/cm_colors.py"
CLI = "src/cm_colors/cli/main.py"


def M(name, *edits):
    return {"name": name, "edits": list(edits)}


MUTANTS = [
    M("lru_cache on parse_color_to_rgb (1 == 1.0 == True keys collide)",
      (PAR, "import re\nfrom typing import Tuple, Union", "import re\nimport functools\nfrom typing import Tuple, Union"),
      (PAR, "def parse_color_to_rgb(", "@functools.lru_cache(maxsize=None)\ndef parse_color_to_rgb(")),
    M("module-level memo dict keyed on text colour only",
      (OPT, "from cm_colors.core.colors import Color\n", "from cm_colors.core.colors import Color\n\n_MEMO = {}\n"),
      (OPT, "    # Check if already accessible\n    current_contrast = calculate_contrast_ratio(text_rgb, bg_rgb)\n\n    if current_contrast >= target_contrast:\n        return text_rgb\n",
       "    if text_rgb in _MEMO:\n        return _MEMO[text_rgb]\n    # Check if already accessible\n    current_contrast = calculate_contrast_ratio(text_rgb, bg_rgb)\n\n    if current_contrast >= target_contrast:\n        _MEMO[text_rgb] = text_rgb\n        return text_rgb\n")),
    M("mutable default schedule that grows",
      (OPT, "    delta_e_sequence: Optional[List[float]] = None,\n) -> Tuple[int, int, int]:", "    delta_e_sequence: Optional[List[float]] = [0.8, 1.0, 1.2, 2.0, 3.0, 5.0],\n) -> Tuple[int, int, int]:"),
      (OPT, "    best_candidate = None\n    best_contrast = current_contrast\n", "    delta_e_sequence.append(delta_e_sequence[-1])\n    best_candidate = None\n    best_contrast = current_contrast\n")),
    M("global scratch state in the strategies",
      (OPT, "from cm_colors.core.colors import Color\n", "from cm_colors.core.colors import Color\n\n_last_min = None\n"),
      (OPT, "    current_rgb = text_rgb\n    max_iterations = 10\n", "    global _last_min\n    if _last_min is not None and _last_min > min_contrast:\n        min_contrast = _last_min\n    _last_min = min_contrast\n    current_rgb = text_rgb\n    max_iterations = 10\n")),
    M("make_readable overwrites the stored text colour",
      (COL, "        tuned_rgb_str, success = result\n", "        tuned_rgb_str, success = result\n        self.text = Color(tuned_rgb_str)\n")),
    M("make_readable caches its result on the pair (ignores later settings)",
      (COL, "        if not self.is_valid:\n            return None, False\n\n        # Use your existing", "        if not self.is_valid:\n            return None, False\n        if getattr(self, '_last', None) is not None:\n            return self._last\n\n        # Use your existing"),
      (COL, "        return result\n", "        self._last = result\n        return result\n")),
    M("class-level registry mutated from the constructor",
      (COL, "class Color:\n    def __init__(", "class Color:\n    _seen = {}\n\n    def __init__("),
      (COL, "        self._parse()\n\n    def _parse", "        self._parse()\n        self._seen[str(color_input)] = self._rgb\n\n    def _parse")),
    M("random jitter in the gradient descent start",
      (OPT, "from typing import Tuple, Optional, List\n", "from typing import Tuple, Optional, List\nimport random\n"),
      (OPT, "        current = [l, c]\n", "        current = [l + random.uniform(-1e-4, 1e-4), c]\n")),
    M("environment variable overrides the mode",
      (COL, "from typing import Tuple, Optional, Union\n", "from typing import Tuple, Optional, Union\nimport os\n"),
      (COL, "        premium = very_readable\n", "        premium = very_readable\n        mode = int(os.environ.get('CM_COLORS_MODE', mode))\n")),
    M("iteration over a set decides which candidate wins",
      (OPT, "    for max_delta_e in delta_e_sequence:\n        # Phase 1", "    for max_delta_e in set(delta_e_sequence):\n        # Phase 1")),
    M("bulk API sorts the caller's list in place",
      (BULK, "    results = []\n    report_data = []\n", "    pairs.sort(key=str)\n    results = []\n    report_data = []\n")),
    M("named-colour table used as a parse cache",
      (PAR, "        # fallback: unrecognized string\n", "        CSS_NAMED_COLORS[s_lower] = '#000000'\n        # fallback: unrecognized string\n")),
    M("function attribute used as a store",
      (CON, "    return (lighter + 0.05) / (darker + 0.05)\n", "    calculate_contrast_ratio.last = (lighter + 0.05) / (darker + 0.05)\n    return calculate_contrast_ratio.last\n")),
    M("CLI custom-property table hoisted out of the per-file loop",
      (CLI, "    for file_path in files:\n        try:\n", "    variables = {}\n    for file_path in files:\n        try:\n"),
      (CLI, "            variables = {}\n            # We need a way", "            # We need a way")),
    M("time-based early exit in the search",
      (OPT, "from typing import Tuple, Optional, List\n", "from typing import Tuple, Optional, List\nimport time\n"),
      (OPT, "        for iteration in range(max_iter):\n", "        t0 = time.time()\n        for iteration in range(max_iter):\n            if time.time() - t0 > 0.01:\n                break\n")),
    M("module-level reusable buffer",
      (CONV, "import math\nfrom typing import Tuple\n", "import math\nfrom typing import Tuple\n\n_BUF = [0.0, 0.0, 0.0]\n"),
      (CONV, "    r_linear = srgb_to_linear(r)\n    g_linear = srgb_to_linear(g)\n    b_linear = srgb_to_linear(b)\n\n    # Step 2", "    _BUF[0] = srgb_to_linear(r)\n    _BUF[1] = srgb_to_linear(g)\n    _BUF[2] = srgb_to_linear(b)\n    r_linear, g_linear, b_linear = _BUF\n\n    # Step 2")),
]

BENIGN = [
    M("schedule hoisted to an immutable module-level tuple, never written",
      (OPT, "from cm_colors.core.colors import Color\n", "from cm_colors.core.colors import Color\n\n_STRICT = (0.8, 1.0, 1.2, 1.4, 1.6, 1.8, 2.0, 2.2, 2.5, 2.8, 3.0)\n"),
      (OPT, "    current_rgb = text_rgb\n    max_iterations = 10\n\n    # Strict sequence for each step\n    strict_sequence = [0.8, 1.0, 1.2, 1.4, 1.6, 1.8, 2.0, 2.2, 2.5, 2.8, 3.0]\n",
       "    current_rgb = text_rgb\n    max_iterations = 10\n\n    # Strict sequence for each step\n    strict_sequence = list(_STRICT)\n")),
    M("schedule hoisted to a module-level list that nobody writes",
      (OPT, "from cm_colors.core.colors import Color\n", "from cm_colors.core.colors import Color\n\n_RELAXED_TAIL = [6.0, 7.0, 8.0]\n")),
    M("local list mutated inside a function",
      (OPT, "    best_candidate = None\n    best_contrast = current_contrast\n", "    tried = []\n    tried.append(current_contrast)\n    best_candidate = None\n    best_contrast = current_contrast\n")),
    M("param rebinding (not mutation)",
      (OPT, "    if delta_e_sequence is None:\n        delta_e_sequence = [", "    if delta_e_sequence is not None:\n        delta_e_sequence = list(delta_e_sequence)\n    if delta_e_sequence is None:\n        delta_e_sequence = [")),
    M("sorted(set(...)) is deterministic",
      (OPT, "    for max_delta_e in delta_e_sequence:\n        # Phase 1", "    for max_delta_e in sorted(set(delta_e_sequence)):\n        # Phase 1")),
    M("extra private attribute set in the constructor",
      (COL, "        self.large = large_text\n", "        self.large = large_text\n        self._pair_id = (text_color, bg_color)\n")),
]
