"""Mutants / benign variants for C18."""
CLI = "src/cm_colors/cli/main.py"


def M(name, *edits):
    return {"name": name, "edits": list(edits)}


MUTANTS = [
    M("variables table hoisted above the per-file loop",
      (CLI, "    for file_path in files:\n        try:\n", "    variables = {}\n    for file_path in files:\n        try:\n"),
      (CLI, "            variables = {}\n            # We need a way", "            # We need a way")),
    M("id()-keyed declaration map hoisted above the loop",
      (CLI, "    for file_path in files:\n        try:\n", "    rule_declarations_map = {}\n    for file_path in files:\n        try:\n"),
      (CLI, "            rule_declarations_map = {}\n", "")),
    M("try narrowed to reading the file",
      (CLI, "            with open(file_path, \"r\", encoding=\"utf-8\") as f:\n                css_content = f.read()\n\n            rules = tinycss2.parse_stylesheet(",
       "            with open(file_path, \"r\", encoding=\"utf-8\") as f:\n                css_content = f.read()\n        except Exception as e:\n            click.echo(f\"Error reading {file_path}: {e}\", err=True)\n            continue\n        if True:\n            rules = tinycss2.parse_stylesheet("),
      (CLI, "                f.write(tinycss2.serialize(rules))\n\n        except Exception as e:\n            click.echo(f\"Error processing {file_path}: {e}\", err=True)\n            import traceback\n\n            traceback.print_exc()\n",
       "                f.write(tinycss2.serialize(rules))\n")),
    M("handler re-raises",
      (CLI, "            traceback.print_exc()\n", "            traceback.print_exc()\n            raise\n")),
    M("handler exits the process",
      (CLI, "            traceback.print_exc()\n", "            traceback.print_exc()\n            raise SystemExit(1)\n")),
    M("handler narrowed to UnicodeDecodeError",
      (CLI, "        except Exception as e:\n            click.echo(f\"Error processing", "        except UnicodeDecodeError as e:\n            click.echo(f\"Error processing")),
    M("handler breaks out of the loop",
      (CLI, "            traceback.print_exc()\n", "            traceback.print_exc()\n            break\n")),
    M("discovery filter removed",
      (CLI, "            if not p.name.endswith(\"_cm.css\"):\n                yield p", "            if True:\n                yield p")),
    M("discovery filter uses a different infix than the writer",
      (CLI, "            if not p.name.endswith(\"_cm.css\"):", "            if not p.name.endswith(\"-cm.css\"):")),
    M("output infix changed, filter not",
      (CLI, "file_path.stem + \"_cm\" + file_path.suffix", "file_path.stem + \".cm\" + file_path.suffix")),
    M("counters read during processing",
      (CLI, "                            if is_accessible:\n                                stats[\"tuned\"] += 1\n", "                            if is_accessible and stats[\"tuned\"] < 50:\n                                stats[\"tuned\"] += 1\n")),
    M("output name numbered by a running counter",
      (CLI, "            output_filename = file_path.stem + \"_cm\" + file_path.suffix\n", "            output_filename = file_path.stem + \"_cm\" + str(stats[\"tuned\"]) + file_path.suffix\n")),
    M("default background carried over from the previous file",
      (CLI, "            output_filename = file_path.stem", "            if stats is not None and css_content.startswith(\"/* dark */\"):\n                default_bg = \"black\"\n            output_filename = file_path.stem")),
    M("early return on first unreadable file",
      (CLI, "            rules = tinycss2.parse_stylesheet(\n                css_content, skip_whitespace=False, skip_comments=False\n            )\n", "            rules = tinycss2.parse_stylesheet(\n                css_content, skip_whitespace=False, skip_comments=False\n            )\n            if not rules:\n                return\n")),
    M("last parsed rules reused when a file is empty",
      (CLI, "    for file_path in files:\n        try:\n", "    rules = []\n    for file_path in files:\n        try:\n"),
      (CLI, "            rules = tinycss2.parse_stylesheet(\n                css_content, skip_whitespace=False, skip_comments=False\n            )\n", "            if css_content.strip():\n                rules = tinycss2.parse_stylesheet(\n                    css_content, skip_whitespace=False, skip_comments=False\n                )\n")),
]

BENIGN = [
    M("filter written on the stem",
      (CLI, "            if not p.name.endswith(\"_cm.css\"):", "            if not p.stem.endswith(\"_cm\"):")),
    M("files sorted before processing",
      (CLI, "    files = list(get_css_files(path))\n", "    files = sorted(get_css_files(path))\n")),
    M("handler widened to BaseException-free tuple with Exception",
      (CLI, "        except Exception as e:\n            click.echo(f\"Error processing", "        except (OSError, Exception) as e:\n            click.echo(f\"Error processing")),
    M("output name built with an f-string",
      (CLI, "            output_filename = file_path.stem + \"_cm\" + file_path.suffix\n", "            output_filename = f\"{file_path.stem}_cm{file_path.suffix}\"\n")),
    M("extra per-file local",
      (CLI, "            variables = {}\n", "            variables = {}\n            n_rules = 0\n")),
]
