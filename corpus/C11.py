"""Mutants / benign variants for C11."""
MET = "src/cm_colors/core/color_metrics.py"
CONV = "src/cm_colors/core/conversions.py"


def M(name, *edits):
    return {"name": name, "edits": list(edits)}


MUTANTS = [
    M("T: first coefficient 0.17 -> 0.71", (MET, "        - 0.17 * math.cos(", "        - 0.71 * math.cos(")),
    M("T: phase +6 -> -6", (MET, "math.radians(3 * H_mean_prime + 6)", "math.radians(3 * H_mean_prime - 6)")),
    M("T: sign of the 0.24 term", (MET, "        + 0.24 * math.cos(", "        - 0.24 * math.cos(")),
    M("T: radians dropped on one term", (MET, "        - 0.20 * math.cos(math.radians(4 * H_mean_prime - 63))", "        - 0.20 * math.cos(4 * H_mean_prime - 63)")),
    M("G uses 25^6", (MET, "    G = 0.5 * (1 - math.sqrt(pow(C_mean, 7) / (pow(C_mean, 7) + pow(25, 7))))", "    G = 0.5 * (1 - math.sqrt(pow(C_mean, 7) / (pow(C_mean, 7) + pow(25, 6))))")),
    M("G factor 0.5 -> 0.25", (MET, "    G = 0.5 * (1 -", "    G = 0.25 * (1 -")),
    M("RC uses C_mean instead of C_mean_prime", (MET, "    RC = 2 * math.sqrt(pow(C_mean_prime, 7) / (pow(C_mean_prime, 7) + pow(25, 7)))", "    RC = 2 * math.sqrt(pow(C_mean, 7) / (pow(C_mean, 7) + pow(25, 7)))")),
    M("SC weight 0.045 -> 0.054", (MET, "    SC = 1 + 0.045 * C_mean_prime", "    SC = 1 + 0.054 * C_mean_prime")),
    M("SH forgets T", (MET, "    SH = 1 + 0.015 * C_mean_prime * T", "    SH = 1 + 0.015 * C_mean_prime")),
    M("SL offset 50 -> 60", (MET, "    SL = 1 + ((0.015 * pow(L_mean - 50, 2)) / math.sqrt(20 + pow(L_mean - 50, 2)))", "    SL = 1 + ((0.015 * pow(L_mean - 60, 2)) / math.sqrt(20 + pow(L_mean - 60, 2)))")),
    M("delta-h' wrap branches swapped", (MET, "        delta_h_prime = h2_prime - h1_prime - 360\n    else:\n        delta_h_prime = h2_prime - h1_prime + 360", "        delta_h_prime = h2_prime - h1_prime + 360\n    else:\n        delta_h_prime = h2_prime - h1_prime - 360")),
    M("delta-h' threshold 180 non-inclusive", (MET, "    elif abs(h2_prime - h1_prime) <= 180:\n        delta_h_prime", "    elif abs(h2_prime - h1_prime) < 180:\n        delta_h_prime")),
    M("mean hue: wrap test on sum uses 180", (MET, "(h1_prime + h2_prime) < 360:", "(h1_prime + h2_prime) < 180:")),
    M("mean hue: wrap-up branch forgets to halve", (MET, "        H_mean_prime = (h1_prime + h2_prime + 360) / 2", "        H_mean_prime = h1_prime + h2_prime + 360")),
    M("delta-H' uses full angle", (MET, "math.sin(math.radians(delta_h_prime / 2))", "math.sin(math.radians(delta_h_prime))")),
    M("rotation term sign", (MET, "    RT = -math.sin(math.radians(2 * delta_theta)) * RC", "    RT = math.sin(math.radians(2 * delta_theta)) * RC")),
    M("delta-theta centre 275 -> 257", (MET, "(H_mean_prime - 275) / 25", "(H_mean_prime - 257) / 25")),
    M("final sum drops the rotation cross term", (MET, "        + RT * (delta_C_prime / (kC * SC)) * (delta_H_prime / (kH * SH))\n", "")),
    M("a' applied to b instead of a", (MET, "    C1_prime = math.sqrt(a1_prime * a1_prime + b1 * b1)", "    C1_prime = math.sqrt(a1 * a1 + b1 * b1)")),
    M("identical-input shortcut removed", (MET, "    if rgb1 == rgb2:\n        return 0.0\n", "")),
    M("XYZ matrix coefficient typo", (CONV, "g_linear * 0.7151522", "g_linear * 0.7511522")),
    M("XYZ rows: green column swapped between x and y", (CONV, "    x = r_linear * 0.4124564 + g_linear * 0.3575761 + b_linear * 0.1804375\n    y = r_linear * 0.2126729 + g_linear * 0.7151522", "    x = r_linear * 0.4124564 + g_linear * 0.7151522 + b_linear * 0.1804375\n    y = r_linear * 0.2126729 + g_linear * 0.3575761")),
    M("Lab: white point Z 108.883 -> 100.0", (CONV, "    xn, yn, zn = 95.047, 100.000, 108.883", "    xn, yn, zn = 95.047, 100.000, 100.000")),
    M("Lab: f threshold 0.008856 -> 0.08856", (CONV, "        if t > 0.008856:", "        if t > 0.08856:")),
    M("Lab: slope 7.787 -> 7.878", (CONV, "            return (7.787 * t) + (16 / 116)", "            return (7.878 * t) + (16 / 116)")),
    M("Lab: a uses 200 and b uses 500", (CONV, "    a = 500 * (fx - fy)\n    b = 200 * (fy - fz)", "    a = 200 * (fx - fy)\n    b = 500 * (fy - fz)")),
    M("Lab: b = 200 (fz - fy)", (CONV, "    b = 200 * (fy - fz)", "    b = 200 * (fz - fy)")),
    M("Lab: L from fx", (CONV, "    L = max(0, min(100, 116 * fy - 16))", "    L = max(0, min(100, 116 * fx - 16))")),
    M("hue angle: atan2 arguments swapped", (CONV, "    hue = math.atan2(b, a) * 180 / math.pi", "    hue = math.atan2(a, b) * 180 / math.pi")),
    M("hue angle: negative angles not wrapped", (CONV, "    return hue + 360 if hue < 0 else hue", "    return hue")),
]

BENIGN = [
    M("** instead of pow", (MET, "    G = 0.5 * (1 - math.sqrt(pow(C_mean, 7) / (pow(C_mean, 7) + pow(25, 7))))", "    G = 0.5 * (1 - math.sqrt(C_mean ** 7 / (C_mean ** 7 + 25 ** 7)))")),
    M("CIE-exact Lab constants", (CONV, "        if t > 0.008856:\n            return pow(t, 1 / 3)\n        else:\n            return (7.787 * t) + (16 / 116)", "        if t > 216 / 24389:\n            return pow(t, 1 / 3)\n        else:\n            return (841 / 108 * t) + (4 / 29)")),
    M("L clamp removed (L* is within [0, 100] mathematically)", (CONV, "    L = max(0, min(100, 116 * fy - 16))", "    L = 116 * fy - 16")),
    M("temporaries renamed and reordered", (MET, "    delta_L = L2 - L1\n    delta_a = a2 - a1\n    delta_b = b2 - b1\n", "    dL = L2 - L1\n    delta_L = dL\n")),
    M("abs written the other way round", (MET, "    elif abs(h2_prime - h1_prime) <= 180:\n        delta_h_prime", "    elif abs(h1_prime - h2_prime) <= 180:\n        delta_h_prime")),
    M("k factors dropped (all 1)", (MET, "        pow(delta_L / (kL * SL), 2)", "        pow(delta_L / SL, 2)")),
    M("T terms reordered", (MET, "        - 0.17 * math.cos(math.radians(H_mean_prime - 30))\n        + 0.24 * math.cos(math.radians(2 * H_mean_prime))\n", "        + 0.24 * math.cos(math.radians(2 * H_mean_prime))\n        - 0.17 * math.cos(math.radians(H_mean_prime - 30))\n")),
]
