"""Mutants / benign variants for C05."""
CON = "src/cm_colors/core/contrast.py"
CONV = "src/cm_colors/core/conversions.py"
COL = "src/cm_colors/core/colors.py"


def M(name, *edits):
    return {"name": name, "edits": list(edits)}


MUTANTS = [
    M("green weight wrong in the fourth decimal", (CON, "0.7152 * g_linear", "0.7154 * g_linear")),
    M("red and blue weights swapped", (CON, "0.2126 * r_linear + 0.7152 * g_linear + 0.0722 * b_linear", "0.0722 * r_linear + 0.7152 * g_linear + 0.2126 * b_linear")),
    M("channels permuted at unpacking", (CON, "    r_linear = srgb_to_linear(r)\n    g_linear = srgb_to_linear(g)\n", "    r_linear = srgb_to_linear(g)\n    g_linear = srgb_to_linear(r)\n")),
    M("normalised by 256", (CON, "    r, g, b = [x / 255.0 for x in rgb]\n    r_linear", "    r, g, b = [x / 256.0 for x in rgb]\n    r_linear")),
    M("0.05 changed in the denominator only", (CON, "    return (lighter + 0.05) / (darker + 0.05)\n", "    return (lighter + 0.05) / (darker + 0.055)\n")),
    M("ratio without max/min (asymmetric)", (CON, "    return (lighter + 0.05) / (darker + 0.05)\n", "    return (text_luminance + 0.05) / (bg_luminance + 0.05)\n")),
    M("lighter/darker swapped", (CON, "    lighter = max(text_luminance, bg_luminance)\n    darker = min(text_luminance, bg_luminance)\n", "    lighter = min(text_luminance, bg_luminance)\n    darker = max(text_luminance, bg_luminance)\n")),
    M("gamma exponent 2.2", (CONV, "        return pow((channel + 0.055) / 1.055, 2.4)\n", "        return pow((channel + 0.055) / 1.055, 2.2)\n")),
    M("linear segment divisor 12.29", (CONV, "        return channel / 12.92\n    else:\n        return pow(", "        return channel / 12.29\n    else:\n        return pow(")),
    M("knee moved to 0.4045 (matters for 8-bit values)", (CONV, "    if channel <= 0.04045:\n        return channel / 12.92", "    if channel <= 0.4045:\n        return channel / 12.92")),
    M("branches of the transfer function swapped", (CONV, "    if channel <= 0.04045:\n        return channel / 12.92\n    else:\n        return pow((channel + 0.055) / 1.055, 2.4)", "    if channel > 0.04045:\n        return channel / 12.92\n    else:\n        return pow((channel + 0.055) / 1.055, 2.4)")),
    M("AAA threshold for normal text non-inclusive", (CON, "        if contrast_ratio >= 7.0:\n            return \"AAA\"", "        if contrast_ratio > 7.0:\n            return \"AAA\"")),
    M("large-text thresholds swapped with normal", (CON, "        elif contrast_ratio >= 3.0:\n            return \"AA\"", "        elif contrast_ratio >= 4.5:\n            return \"AA\"")),
    M("large AA threshold 3.1", (CON, "        elif contrast_ratio >= 3.0:", "        elif contrast_ratio >= 3.1:")),
    M("get_wcag_level drops the large flag", (CON, "    return get_contrast_level(contrast_ratio, large)\n", "    return get_contrast_level(contrast_ratio)\n")),
    M("is_readable: AA branch dropped", (COL, "        elif level == \"AA\" or level == \"AA Large\":\n            return \"Readable\"\n", "        elif level == \"AA Large\":\n            return \"Readable\"\n")),
    M("is_readable: AAA reported as Readable", (COL, "        if level == \"AAA\":\n            return \"Very Readable\"", "        if level == \"AAA\":\n            return \"Readable\"")),
    M("is_readable ignores the large flag", (COL, "        level = get_wcag_level(self.text.rgb, self.bg.rgb, self.large)\n\n        if level == \"AAA\":", "        level = get_wcag_level(self.text.rgb, self.bg.rgb)\n\n        if level == \"AAA\":")),
    M("is_readable judges background against itself", (COL, "        level = get_wcag_level(self.text.rgb, self.bg.rgb, self.large)\n\n        if level == \"AAA\":", "        level = get_wcag_level(self.bg.rgb, self.bg.rgb, self.large)\n\n        if level == \"AAA\":")),
]

BENIGN = [
    M("WCAG's original knee 0.03928", (CONV, "    if channel <= 0.04045:\n        return channel / 12.92", "    if channel <= 0.03928:\n        return channel / 12.92")),
    M("** instead of pow", (CONV, "        return pow((channel + 0.055) / 1.055, 2.4)\n", "        return ((channel + 0.055) / 1.055) ** 2.4\n")),
    M("summation order changed", (CON, "0.2126 * r_linear + 0.7152 * g_linear + 0.0722 * b_linear", "0.0722 * b_linear + 0.2126 * r_linear + g_linear * 0.7152")),
    M("max/min argument order", (CON, "    lighter = max(text_luminance, bg_luminance)\n", "    lighter = max(bg_luminance, text_luminance)\n")),
    M("luminance via the rgb_to_linear helper", (CON, "from cm_colors.core.conversions import srgb_to_linear\n", "from cm_colors.core.conversions import srgb_to_linear, rgb_to_linear\n"),
      (CON, "    r, g, b = [x / 255.0 for x in rgb]\n    r_linear = srgb_to_linear(r)\n    g_linear = srgb_to_linear(g)\n    b_linear = srgb_to_linear(b)\n", "    r_linear = rgb_to_linear(rgb[0])\n    g_linear = rgb_to_linear(rgb[1])\n    b_linear = rgb_to_linear(rgb[2])\n")),
    M("level table with early returns instead of elif", (CON, "        if contrast_ratio >= 7.0:\n            return \"AAA\"\n        elif contrast_ratio >= 4.5:\n            return \"AA\"\n        else:\n            return \"FAIL\"", "        if contrast_ratio >= 7.0:\n            return \"AAA\"\n        if contrast_ratio >= 4.5:\n            return \"AA\"\n        return \"FAIL\"")),
    M("is_readable without the legacy 'AA Large' alternative", (COL, "        elif level == \"AA\" or level == \"AA Large\":", "        elif level == \"AA\":")),
]
