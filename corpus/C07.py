"""Mutants / benign variants for C07."""
PAR = "src/cm_colors/core/color_parser.py"
CONV = "src/cm_colors/core/conversions.py"
NAM = "src/cm_colors/core/named_colors.py"


def M(name, *edits):
    return {"name": name, "edits": list(edits)}


MUTANTS = [
    M("keyword value typo (peru)", (NAM, "\"peru\": \"#cd853f\"", "\"peru\": \"#cd583f\"")),
    M("keyword key typo (lightgoldenrodyellow)", (NAM, "\"lightgoldenrodyellow\":", "\"lightgoldenrodyelow\":")),
    M("keyword removed (rebeccapurple)", (NAM, "    \"rebeccapurple\": \"#663399\",\n", "")),
    M("grey/gray alias with a different value", (NAM, "\"darkslategrey\": \"#2f4f4f\"", "\"darkslategrey\": \"#2f4f4e\"")),
    M("mixed-case key never matches", (NAM, "\"tomato\":", "\"Tomato\":")),
    M("keyword lookup before lower-casing", (PAR, "        if s_lower in CSS_NAMED_COLORS:\n            hex_val = CSS_NAMED_COLORS[s_lower]", "        if s in CSS_NAMED_COLORS:\n            hex_val = CSS_NAMED_COLORS[s]")),
    M("hsl prefix test on the un-lowered string", (PAR, "        if s_lower.startswith(\"hsl(\") or s_lower.startswith(\"hsla(\"):\n            if s_lower.startswith(\"hsla(\"):", "        if s.startswith(\"hsl(\") or s.startswith(\"hsla(\"):\n            if s.startswith(\"hsla(\"):")),
    M("strip dropped before dispatch", (PAR, "        s = color.strip()\n        s_lower = s.lower()", "        s = color\n        s_lower = s.lower()")),
    M("percentage scaled by 256", (PAR, "            return max(0.0, min(255.0, v * 255.0 / 100.0))", "            return max(0.0, min(255.0, v * 256.0 / 100.0))")),
    M("percentage divided by 255", (PAR, "            return max(0.0, min(255.0, v * 255.0 / 100.0))", "            return max(0.0, min(255.0, v * 255.0 / 255.0))")),
    M("alpha percentage not divided", (PAR, "            return max(0.0, min(1.0, v / 100.0))\n    # not percentage", "            return max(0.0, min(1.0, v))\n    # not percentage")),
    M("component upper bound 256", (PAR, "        if 0.0 <= v <= 255.0:\n            return float(v)", "        if 0.0 <= v <= 256.0:\n            return float(v)")),
    M("rgb() truncates instead of rounding", (PAR, "                    r = int(round(_parse_number_token(tokens[0], component=True)))\n                    g = int(round(_parse_number_token(tokens[1], component=True)))\n                    b = int(round(_parse_number_token(tokens[2], component=True)))\n                except ValueError as e:\n                    raise ValueError(f\"Invalid RGB components", "                    r = int(_parse_number_token(tokens[0], component=True))\n                    g = int(round(_parse_number_token(tokens[1], component=True)))\n                    b = int(round(_parse_number_token(tokens[2], component=True)))\n                except ValueError as e:\n                    raise ValueError(f\"Invalid RGB components")),
    M("rgb() green and blue tokens swapped", (PAR, "                    g = int(round(_parse_number_token(tokens[1], component=True)))\n                    b = int(round(_parse_number_token(tokens[2], component=True)))\n                except ValueError as e:\n                    raise ValueError(f\"Invalid RGB components", "                    g = int(round(_parse_number_token(tokens[2], component=True)))\n                    b = int(round(_parse_number_token(tokens[1], component=True)))\n                except ValueError as e:\n                    raise ValueError(f\"Invalid RGB components")),
    M("rgba() alpha parsed as a component", (PAR, "                    a = _parse_number_token(tokens[3], component=False)\n                except ValueError as e:", "                    a = _parse_number_token(tokens[3], component=True) / 255.0\n                except ValueError as e:")),
    M("hex: red and blue pairs swapped", (CONV, "    r = int(hex_str[0:2], 16)\n    g = int(hex_str[2:4], 16)\n    b = int(hex_str[4:6], 16)", "    r = int(hex_str[4:6], 16)\n    g = int(hex_str[2:4], 16)\n    b = int(hex_str[0:2], 16)")),
    M("hex: 3-digit form padded instead of doubled", (CONV, "        hex_str = \"\".join([c * 2 for c in hex_str])", "        hex_str = \"\".join([c + \"0\" for c in hex_str])")),
    M("hex: upper-case digits rejected", (CONV, "all(c in \"0123456789abcdefABCDEF\" for c in hex_str)", "all(c in \"0123456789abcdef\" for c in hex_str)")),
    M("hue wrap dropped in _parse_hue", (CONV, "    return float(v.strip()) % 360\n", "    return float(v.strip())\n")),
    M("hue wrap dropped in the hsla string branch", (CONV, "                h = float(parts[0]) % 360  # Wrap hue", "                h = float(parts[0])  # Wrap hue")),
    M("HSL: sector bound 1/6 -> 1/5", (CONV, "            if t < 1 / 6:\n                return p + (q - p) * 6 * t", "            if t < 1 / 5:\n                return p + (q - p) * 6 * t")),
    M("HSL: q branch threshold on l inverted", (CONV, "        q = l * (1 + s) if l < 0.5 else (l + s - l * s)", "        q = l * (1 + s) if l > 0.5 else (l + s - l * s)")),
    M("HSL: green gets the red offset", (CONV, "        g = f(p, q, h_norm)\n", "        g = f(p, q, h_norm + 1 / 3)\n")),
    M("HSL: p = 2l - q written as 2l + q", (CONV, "        p = 2 * l - q\n", "        p = 2 * l + q\n")),
    M("HSL: scaled by 256", (CONV, "    return (int(round(r * 255)), int(round(g * 255)), int(round(b * 255)))", "    return (int(round(r * 256)), int(round(g * 255)), int(round(b * 255)))")),
    M("S/L percentage divided by 10", (CONV, "    if v.endswith(\"%\"):\n        return float(v[:-1]) / 100.0\n    x = float(v)", "    if v.endswith(\"%\"):\n        return float(v[:-1]) / 10.0\n    x = float(v)")),
]

MUTANTS += [
    M("sweep: ints 0 and 1 in a tuple are taken as normalised floats ((1, 1, 1) -> white)",
      (PAR, "                        if isinstance(c, float) and 0.0 <= c <= 1.0:", "                        if isinstance(c, float) or 0.0 <= c <= 1.0:")),
    M("sweep: rgb() clamp upper bound 256", (PAR, "                    max(0, min(255, r)),", "                    max(0, min(256, r)),")),
    M("seed: hue normalised with fmod (keeps the sign of negative hues)", (CONV, "    return float(v.strip()) % 360\n", "    return math.fmod(float(v.strip()), 360.0)\n")),
]

MUTANTS += [
    M("S/L: the 0..1 test placed before the percentage test (0.4% read as 0.4)",
      (CONV, "    if v.endswith(\"%\"):\n        return float(v[:-1]) / 100.0\n    x = float(v)\n    if 0 <= x <= 1:\n        return x\n",
       "    is_percentage = v.endswith(\"%\")\n    x = float(v.rstrip(\"%\"))\n    if 0 <= x <= 1:\n        return x\n    if is_percentage:\n        return x / 100.0\n")),
]

BENIGN = [
    M("table reordered and upper-case hex digits",
      (NAM, "    \"aliceblue\": \"#f0f8ff\",\n    \"antiquewhite\": \"#faebd7\",\n", "    \"antiquewhite\": \"#FAEBD7\",\n    \"aliceblue\": \"#F0F8FF\",\n")),
    M("casefold instead of lower", (PAR, "        s_lower = s.lower()\n\n        # CSS named", "        s_lower = s.casefold()\n\n        # CSS named")),
    M("doubling written as c + c", (CONV, "        hex_str = \"\".join([c * 2 for c in hex_str])", "        hex_str = \"\".join([c + c for c in hex_str])")),
    M("percentage token read with rstrip('%'), suffix test kept first",
      (CONV, "    if v.endswith(\"%\"):\n        return float(v[:-1]) / 100.0\n    x = float(v)\n    if 0 <= x <= 1:\n        return x\n",
       "    is_percentage = v.endswith(\"%\")\n    x = float(v.rstrip(\"%\"))\n    if is_percentage:\n        return x / 100.0\n    if 0 <= x <= 1:\n        return x\n")),
    M("temporaries renamed in the HSL core", (CONV, "        h_norm = h / 360\n\n        r = f(p, q, h_norm + 1 / 3)\n        g = f(p, q, h_norm)\n        b = f(p, q, h_norm - 1 / 3)", "        hue01 = h / 360\n\n        r = f(p, q, hue01 + 1 / 3)\n        g = f(p, q, hue01)\n        b = f(p, q, hue01 - 1 / 3)")),
]
