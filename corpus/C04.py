"""Mutants / benign variants for C04."""
OPT = "src/cm_colors/core/optimisation.py"


def M(name, *edits):
    return {"name": name, "edits": list(edits)}


MUTANTS = [
    M("binary search: tolerance guard weakened to 2x",
      (OPT, "            if delta_e > delta_e_threshold:\n                if search_up:", "            if delta_e > delta_e_threshold * 2:\n                if search_up:")),
    M("binary search: tolerance guard removed",
      (OPT, "            # Strict DeltaE enforcement\n            if delta_e > delta_e_threshold:\n                if search_up:\n                    high = mid\n                else:\n                    low = mid\n                continue\n", "")),
    M("binary search: best-effort recording moved above the tolerance guard",
      (OPT, "            delta_e = calculate_delta_e_2000(text_rgb, candidate_rgb)\n            contrast = calculate_contrast_ratio(candidate_rgb, bg_rgb)\n\n            # Strict DeltaE enforcement\n", "            delta_e = calculate_delta_e_2000(text_rgb, candidate_rgb)\n            contrast = calculate_contrast_ratio(candidate_rgb, bg_rgb)\n            if contrast > best_contrast:\n                best_contrast = contrast\n                best_rgb = candidate_rgb\n\n            # Strict DeltaE enforcement\n")),
    M("binary search: distance measured from the background",
      (OPT, "            delta_e = calculate_delta_e_2000(text_rgb, candidate_rgb)\n            contrast = calculate_contrast_ratio(candidate_rgb, bg_rgb)\n\n            # Strict", "            delta_e = calculate_delta_e_2000(bg_rgb, candidate_rgb)\n            contrast = calculate_contrast_ratio(candidate_rgb, bg_rgb)\n\n            # Strict")),
    M("gradient descent returns the final colour unconditionally",
      (OPT, "            if final_delta_e <= delta_e_threshold:\n                return final_rgb\n", "            return final_rgb\n")),
    M("gradient descent validates a different colour than it returns",
      (OPT, "            final_delta_e = calculate_delta_e_2000(text_rgb, final_rgb)\n", "            final_delta_e = calculate_delta_e_2000(text_rgb, oklch_to_rgb_safe((l, c, h)))\n")),
    M("default schedule extended to 8.0",
      (OPT, "            4.0,\n            5.0,\n        ]\n\n    best_candidate = None", "            4.0,\n            5.0,\n            8.0,\n        ]\n\n    best_candidate = None")),
    M("strict mode passes the relaxed schedule",
      (OPT, "        target_contrast=target_contrast,\n        min_contrast=min_contrast,\n    )\n    final_contrast", "        target_contrast=target_contrast,\n        min_contrast=min_contrast,\n        delta_e_sequence=[1.0, 2.0, 5.0, 10.0, 15.0],\n    )\n    final_contrast")),
    M("multi-phase search widens the tolerance it passes down",
      (OPT, "        binary_result = binary_search_lightness(\n            text_rgb, bg_rgb, max_delta_e, target_contrast, large\n        )", "        binary_result = binary_search_lightness(\n            text_rgb, bg_rgb, max_delta_e * 1.5, target_contrast, large\n        )")),
    M("recursive: a step against a different background",
      (OPT, "        next_rgb = generate_accessible_color(\n            current_rgb,\n            bg_rgb,\n            large=large,\n            target_contrast=target_contrast,\n            min_contrast=min_contrast,\n            delta_e_sequence=strict_sequence,\n        )\n\n        if next_rgb == current_rgb:\n            # Stuck",
       "        next_rgb = generate_accessible_color(\n            current_rgb,\n            (255, 255, 255),\n            large=large,\n            target_contrast=target_contrast,\n            min_contrast=min_contrast,\n            delta_e_sequence=strict_sequence,\n        )\n\n        if next_rgb == current_rgb:\n            # Stuck")),
    M("relaxed: option A jumps to an unrelated colour when stuck",
      (OPT, "        if next_rgb == opt_a_rgb:\n            if calculate_contrast_ratio(next_rgb, bg_rgb) >= min_contrast:\n                opt_a_success = True\n            break\n", "        if next_rgb == opt_a_rgb:\n            if calculate_contrast_ratio((0, 0, 0), bg_rgb) >= min_contrast:\n                opt_a_rgb = (0, 0, 0)\n                opt_a_success = True\n            break\n")),
    M("search returns an unvalidated grey when nothing was found",
      (OPT, "        return best_rgb\n\n    except Exception:\n        return None\n\n\ndef gradient", "        return best_rgb if best_rgb else (int(l * 255),) * 3\n\n    except Exception:\n        return None\n\n\ndef gradient")),
    M("dispatcher sends mode 0 to the recursive strategy",
      (OPT, "    if mode == 0:\n        tuned_rgb, success = _strategy_strict(", "    if mode == 0:\n        tuned_rgb, success = _strategy_recursive(")),
]

BENIGN = [
    M("<= guard written the other way round",
      (OPT, "            if final_delta_e <= delta_e_threshold:\n                return final_rgb\n", "            if not (final_delta_e > delta_e_threshold):\n                return final_rgb\n")),
    M("dE cached in a differently named temporary",
      (OPT, "            delta_e = calculate_delta_e_2000(text_rgb, candidate_rgb)\n            contrast = calculate_contrast_ratio(candidate_rgb, bg_rgb)\n\n            # Strict DeltaE enforcement\n            if delta_e > delta_e_threshold:", "            distance = calculate_delta_e_2000(text_rgb, candidate_rgb)\n            delta_e = distance\n            contrast = calculate_contrast_ratio(candidate_rgb, bg_rgb)\n\n            # Strict DeltaE enforcement\n            if distance > delta_e_threshold:")),
    M("a third phase that obeys the guard",
      (OPT, "        # Early termination with strict DeltaE", "        extra = binary_search_lightness(text_rgb, bg_rgb, max_delta_e, target_contrast + 0.5, large)\n        if extra and calculate_contrast_ratio(extra, bg_rgb) >= target_contrast:\n            return extra\n\n        # Early termination with strict DeltaE")),
    M("default schedule shortened",
      (OPT, "            3.5,\n            4.0,\n            5.0,\n        ]\n\n    best_candidate = None", "            3.5,\n            4.0,\n        ]\n\n    best_candidate = None")),
    M("validity check dropped (oklch_to_rgb_safe already validates)",
      (OPT, "            if not is_valid_rgb(candidate_rgb):\n                if search_up:\n                    high = mid\n                else:\n                    low = mid\n                continue\n\n            delta_e", "            delta_e")),
]
