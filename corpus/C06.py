"""Mutants / benign variants for C06."""
PAR = "src/cm_colors/core/color_parser.py"
CONV = "src/cm_colors/core/conversions.py"
COL = "src/cm_colors/core/colors.py"


def M(name, *edits):
    return {"name": name, "edits": list(edits)}


MUTANTS = [
    M("hsl input rendered as rgb()", (PAR, "    if format_type == \"hsl\":\n        return rgb_to_hsl(rgb)", "    if format_type == \"hsl\":\n        return rgbint_to_string(rgb)")),
    M("rgb() input rendered as hex", (PAR, "    if format_type == \"rgb\":\n        return rgbint_to_string(rgb)\n", "")),
    M("tuple input rendered as a string", (PAR, "    if format_type == \"rgb_tuple\":\n        return rgb\n", "    if format_type == \"rgb_tuple\":\n        return rgbint_to_string(rgb)\n")),
    M("named colours rendered as rgb()", (PAR, "    # when we don't have the original alpha or it's a named color\n    return rgb_to_hex(rgb)", "    # when we don't have the original alpha or it's a named color\n    return rgbint_to_string(rgb)")),
    M("bare hex detected as rgb", (PAR, "        if re.fullmatch(r\"[0-9a-f]{3}|[0-9a-f]{6}\", s):\n            return \"hex\"", "        if re.fullmatch(r\"[0-9a-f]{3}|[0-9a-f]{6}\", s):\n            return \"rgb\"")),
    M("hsla detected as hsl (prefix test order)", (PAR, "        if s.startswith(\"hsla(\"):\n            return \"hsla\"", "        if s.startswith(\"hsla(\"):\n            return \"hsl\"")),
    M("lists detected as unknown", (PAR, "    elif isinstance(color, (tuple, list)):\n        if len(color) == 3:\n            return \"rgb_tuple\"", "    elif isinstance(color, tuple):\n        if len(color) == 3:\n            return \"rgb_tuple\"")),
    M("result formatted with the background's format", (COL, "                    formatted_color = format_color(c.rgb, self.text._format)", "                    formatted_color = format_color(c.rgb, self.bg._format)")),
    M("result only re-formatted on success", (COL, "                if c.is_valid:\n                    formatted_color = format_color(c.rgb, self.text._format)", "                if c.is_valid and success:\n                    formatted_color = format_color(c.rgb, self.text._format)")),
    M("failed fixes re-formatted as hex", (COL, "                    formatted_color = format_color(c.rgb, self.text._format)", "                    formatted_color = format_color(c.rgb, self.text._format if success else \"hex\")")),
    M("the original text is formatted instead of the tuned colour", (COL, "                    formatted_color = format_color(c.rgb, self.text._format)", "                    formatted_color = format_color(self.text.rgb, self.text._format)")),
    M("format detected on the stripped lower-cased copy stored elsewhere", (COL, "            self._format = detect_color_format(self.original)", "            self._format = detect_color_format(str(self.original))")),
    M("F-C06 reverted: saturation not clamped", (CONV, "        s = max(0.0, min(1.0, diff / (1 - abs(2 * l - 1))))", "        s = diff / (1 - abs(2 * l - 1))")),
    M("lightness emitted as a fraction", (CONV, "    return f\"hsl({h}, {s*100}%, {l*100}%)\"", "    return f\"hsl({h}, {s*100}%, {l}%)\"")),
    M("saturation and lightness swapped in the output", (CONV, "    return f\"hsl({h}, {s*100}%, {l*100}%)\"", "    return f\"hsl({h}, {l*100}%, {s*100}%)\"")),
    M("percent sign dropped", (CONV, "    return f\"hsl({h}, {s*100}%, {l*100}%)\"", "    return f\"hsl({h}, {s*100}, {l*100})\"")),
    M("rgb() emits blue before green", (CONV, "    return f\"rgb({rgb[0]}, {rgb[1]}, {rgb[2]})\"", "    return f\"rgb({rgb[0]}, {rgb[2]}, {rgb[1]})\"")),
    M("hex emits one-digit pairs", (CONV, "    return \"#{:02x}{:02x}{:02x}\".format(r, g, b)", "    return \"#{:x}{:x}{:x}\".format(r, g, b)")),
    M("hex emits BGR", (CONV, "    return \"#{:02x}{:02x}{:02x}\".format(r, g, b)", "    return \"#{:02x}{:02x}{:02x}\".format(b, g, r)")),
]

BENIGN = [
    M("min-only clamp of the saturation is not enough for the interval analysis but max/min order swapped is", (CONV, "        s = max(0.0, min(1.0, diff / (1 - abs(2 * l - 1))))", "        s = min(1.0, max(0.0, diff / (1 - abs(2 * l - 1))))")),
    M("format temporaries renamed", (COL, "                    formatted_color = format_color(c.rgb, self.text._format)\n                    result = (formatted_color, success)", "                    out = format_color(c.rgb, self.text._format)\n                    result = (out, success)")),
    M("scaling written as 100 * s", (CONV, "    return f\"hsl({h}, {s*100}%, {l*100}%)\"", "    return f\"hsl({h}, {100*s}%, {100*l}%)\"")),
]
