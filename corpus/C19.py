"""Mutants / benign variants for C19."""
REP = "src/cm_colors/cli/html_report.py"
VIS = "src/cm_colors/core/visualiser.py"
COL = "src/cm_colors/core/colors.py"
BULK = "src/cm_colors/core/cm_colors.py"


def M(name, *edits):
    return {"name": name, "edits": list(edits)}


MUTANTS = [
    M("CLI report: selector not escaped",
      (REP, "            selector = html.escape(str(pair[\"selector\"]))\n", "            selector = str(pair[\"selector\"])\n")),
    M("CLI report: tuned colour not escaped",
      (REP, "            tuned_text = html.escape(str(pair[\"tuned_text\"]))\n", "            tuned_text = str(pair[\"tuned_text\"])\n")),
    M("CLI report: background escaped with quote=False but used in style=\"...\"",
      (REP, "            bg = html.escape(str(pair[\"bg\"]))\n", "            bg = html.escape(str(pair[\"bg\"]), quote=False)\n")),
    M("CLI report: new raw field in the card",
      (REP, "                        <div class=\"file-info\">{file_path}</div>\n", "                        <div class=\"file-info\">{file_path}</div>\n                        <div class=\"file-info\">{pair['file']}</div>\n")),
    M("CLI report: attribute quotes dropped",
      (REP, "<div class=\"color-box\" style=\"{bg_style} {orig_text_style}\">", "<div class=\"color-box\" style={bg_style}>")),
    M("CLI report: raw concatenation outside the template",
      (REP, "            html_content += f\"\"\"\n            <div class=\"card\">\n                <div class=\"card-header\">", "            html_content += \"<!-- \" + str(pair[\"selector\"]) + \" -->\"\n            html_content += f\"\"\"\n            <div class=\"card\">\n                <div class=\"card-header\">")),
    M("API report: fg not escaped",
      (VIS, "    fg = html.escape(str(fg))\n", "    fg = str(fg)\n")),
    M("escape moved to one caller only (save_report path escaped, bulk path not)",
      (VIS, "    fg = html.escape(str(fg))\n", ""),
      (COL, "from typing import Tuple, Optional, Union\n", "from typing import Tuple, Optional, Union\nimport html\n"),
      (COL, "                    \"fg\": rgbint_to_string(self.text.rgb)\n                    if self.text.is_valid\n                    else \"Invalid\",", "                    \"fg\": html.escape(rgbint_to_string(self.text.rgb)),")),
    M("bulk report level taken from user text",
      (BULK, "        new_level = \"FAIL\"\n", "        new_level = str(text)\n")),
    M("escaped text un-escaped again",
      (VIS, "    tuned_fg = html.escape(str(tuned_fg))\n", "    tuned_fg = html.escape(str(tuned_fg)).replace(\"&lt;\", \"<\")\n")),
    M("title attribute in single quotes with quote=False",
      (VIS, "                <div class=\"selector\">{html.escape(str(selector))}</div>", "                <div class=\"selector\" title='{html.escape(str(selector), quote=False)}'>{html.escape(str(selector))}</div>")),
    M("selector echoed into an inline script",
      (VIS, "<div class=\"card\">\n        <div class=\"card-header\">", "<div class=\"card\">\n        <script>console.log(\"{html.escape(str(selector))}\");</script>\n        <div class=\"card-header\">")),
    M("local function shadows html.escape",
      (REP, "import os\nimport html\n", "import os\n\n\nclass html:\n    @staticmethod\n    def escape(s, quote=True):\n        return s.replace('<', '&lt;')\n")),
    M("level badge text taken from the (user) selector when unknown",
      (VIS, "    orig_label, orig_class = _get_level_badge(original_level)\n", "    orig_label, orig_class = _get_level_badge(original_level or selector)\n")),
]

BENIGN = [
    # in-package callers only ever pass constants ("Manual Check", "Pair N", "Python API"): no user text reaches these holes
    M("API report: selector (always a package constant) not escaped",
      (VIS, "{html.escape(str(selector))}", "{str(selector)}")),
    M("API report: file label (always a package constant) not escaped",
      (VIS, "{html.escape(str(file_path))}", "{file_path}")),
    M("escape imported by name",
      (REP, "import os\nimport html\n", "import os\nimport html\nfrom html import escape\n"),
      (REP, "            selector = html.escape(str(pair[\"selector\"]))\n", "            selector = escape(str(pair[\"selector\"]))\n")),
    M("explicit quote=True",
      (REP, "            bg = html.escape(str(pair[\"bg\"]))\n", "            bg = html.escape(str(pair[\"bg\"]), quote=True)\n")),
    M("escape inline in the hole",
      (REP, "<div class=\"color-code\">{tuned_text}</div>", "<div class=\"color-code\">{html.escape(str(pair['tuned_text']))}</div>")),
    M("renamed temporaries",
      (VIS, "    bg_style = f\"background-color: {bg};\"\n", "    box_css = f\"background-color: {bg};\"\n    bg_style = box_css\n")),
    M("constant extra class on the card",
      (VIS, "<div class=\"card\">\n        <div class=\"card-header\">", "<div class=\"card compact\">\n        <div class=\"card-header\">")),
]
