"""TAINT: HTML-template taint analysis.

A *template fragment* is an f-string (or constant) that flows into a report file. For every
fragment the constant text is scanned with a small HTML context machine so that each hole
``{expr}`` is classified as sitting in element text, in a double-/single-quoted attribute
value, or somewhere dangerous (tag/attribute name, unquoted value, <script>/<style>, comment).
Each hole's expression is abstracted -- by following reaching definitions, call returns,
parameters up to their call sites, dict displays, ``.get(k, default)`` and list appends -- to

    CONST(set)      string constants from a closed set / None / numbers
    ESCAPED         html.escape(x) with quote not disabled, or text composed of ESCAPED/CONST parts
    ESCAPED_NQ      html.escape(x, quote=False)
    MARKUP          the value of a template builder all of whose own holes are checked
    TAINTED         anything else

Allowed: text <- CONST/ESCAPED/ESCAPED_NQ/MARKUP; quoted attribute <- CONST/ESCAPED;
any other context <- CONST only.
"""
from __future__ import annotations

import ast
import re
from typing import Dict, List, Optional, Set, Tuple

from .cfg import build_cfg, node_exprs
from .loader import AnalysisError, FuncInfo, Project, norm_text
from .resolve import Scope, own_nodes, bind_args, call_sites
from .wire import Origins, show

ORDER = {"const": 0, "escaped": 1, "escaped_nq": 2, "markup": 3, "tainted": 4}
SAFE_CONST = re.compile(r"^[\w \-.#%(),:;/+]*$")


UNREADABLE = ("list element",)     # a report row that is not a dict display: built by means the abstraction does not follow (kept narrow: everything else stays TAINTED)


def unreadable(why: str) -> bool:
    """TAINTED for want of knowledge (a structure the abstraction cannot follow), as opposed to a raw value traced to a caller-controlled source."""
    return bool(why) and why.startswith(UNREADABLE)


class Cls:
    __slots__ = ("kind", "consts", "why")

    def __init__(self, kind: str, consts=frozenset(), why: str = ""):
        self.kind = kind
        self.consts = frozenset(consts)
        self.why = why

    def join(self, other: "Cls") -> "Cls":
        if self.kind == other.kind == "const":
            return Cls("const", self.consts | other.consts)
        # markup vs escaped: incomparable -> the union is only usable where both are: text.
        a, b = self, other
        if ORDER[a.kind] < ORDER[b.kind]:
            a, b = b, a
        if a.kind == b.kind == "tainted" and unreadable(a.why) and not unreadable(b.why):
            a, b = b, a         # a positively identified raw flow is the reason to report
        return Cls(a.kind, (), a.why or b.why)

    def __repr__(self):
        if self.kind == "const":
            return "CONST" + str(sorted(map(repr, self.consts)))
        return self.kind.upper() + (f"({self.why})" if self.why else "")


def scan_context(text: str, state: dict) -> None:
    """Advance the HTML context machine over constant text (in place)."""
    i = 0
    n = len(text)
    while i < n:
        ch = text[i]
        st = state["s"]
        if st == "text":
            if text.startswith("<!--", i):
                state["s"] = "comment"
                i += 4
                continue
            if ch == "<" and i + 1 < n and (text[i + 1].isalpha() or text[i + 1] == "/" or text[i + 1] == "!"):
                mm = re.match(r"</?([A-Za-z][A-Za-z0-9]*)", text[i:])
                state["tag"] = (mm.group(1).lower() if mm else "")
                state["closing"] = text[i + 1] == "/"
                state["s"] = "tag"
                state["attr"] = ""
                i += len(mm.group(0)) if mm else 1
                continue
            i += 1
        elif st == "tag":
            if ch == '"':
                state["s"] = "attr_dq"
            elif ch == "'":
                state["s"] = "attr_sq"
            elif ch == ">":
                if state.get("tag") in ("script", "style") and not state.get("closing"):
                    state["s"] = "raw"
                else:
                    state["s"] = "text"
            else:
                mm = re.match(r"([A-Za-z_:][-A-Za-z0-9_:.]*)\s*=", text[i:])
                if mm:
                    state["attr"] = mm.group(1).lower()
                    i += len(mm.group(0))
                    # unquoted value?
                    if i < n and text[i] not in "\"'":
                        state["s"] = "tag"
                    continue
            i += 1
        elif st == "attr_dq":
            if ch == '"':
                state["s"] = "tag"
            i += 1
        elif st == "attr_sq":
            if ch == "'":
                state["s"] = "tag"
            i += 1
        elif st == "comment":
            if text.startswith("-->", i):
                state["s"] = "text"
                i += 3
            else:
                i += 1
        elif st == "raw":
            mm = re.match(r"</(script|style)", text[i:], re.I)
            if mm:
                state["s"] = "text"
                continue
            i += 1


def context_name(state: dict) -> str:
    s = state["s"]
    if s == "attr_dq":
        return f'double-quoted attribute {state.get("attr", "")}'
    if s == "attr_sq":
        return f'single-quoted attribute {state.get("attr", "")}'
    if s == "text":
        return "element text"
    if s == "raw":
        return f'<{state.get("tag")}> raw text'
    if s == "tag":
        return "tag / attribute-name / unquoted-value position"
    return s


def allowed(cls: Cls, state: dict) -> Tuple[bool, str]:
    s = state["s"]
    if cls.kind == "tainted":
        return False, "unescaped user-controllable value"
    if cls.kind == "const":
        bad = [c for c in cls.consts if isinstance(c, str) and not SAFE_CONST.match(c)]
        if bad:
            return False, f"constant(s) {bad} contain markup metacharacters"
        return True, ""
    if s == "text":
        return True, ""
    if s in ("attr_dq", "attr_sq"):
        if cls.kind == "escaped":
            return True, ""
        if cls.kind == "escaped_nq":
            return False, "escaped with quote=False but used inside a quoted attribute value"
        return False, f"{cls.kind} value inside an attribute value"
    return False, f"{cls.kind} value in {context_name(state)} (only constants are safe there)"


def _literal_origin(e):
    """Origin tree of a literal (constants, tuples / lists of literals); None for anything else."""
    if isinstance(e, ast.Constant):
        return ("const", e.value)
    if isinstance(e, (ast.Tuple, ast.List)):
        items = [_literal_origin(x) for x in e.elts]
        return ("tuple", tuple(items)) if all(i is not None for i in items) else None
    return None


class Taint:
    def __init__(self, project: Project):
        self.project = project
        self._org: Dict[str, Origins] = {}
        self._ret: Dict[tuple, Cls] = {}
        self._stack: Set[tuple] = set()
        self.holes: List[dict] = []          # every hole judged
        self.fragments_seen: Set[int] = set()
        self.fragment_errors: List[tuple] = []

    def org(self, fi: FuncInfo) -> Origins:
        if fi.qualname not in self._org:
            self._org[fi.qualname] = Origins(self.project, fi)
        return self._org[fi.qualname]

    # ---------------------------------------------------------------- classification of values
    def classify(self, fi: FuncInfo, o, env: Optional[Dict[str, Cls]] = None, depth: int = 0) -> Cls:
        """Class of an origin tree evaluated in function ``fi``. ``env`` optionally gives the class of
        fi's parameters (context-sensitive call); otherwise parameters are resolved at fi's call sites."""
        if depth > 25:
            return Cls("tainted", why="analysis depth exceeded")
        k = o[0]
        if k == "const":
            return Cls("const", {o[1]})
        if k == "enum_index":
            return Cls("const", {0})
        if k == "phi":
            out = None
            for x in o[1]:
                c = self.classify(fi, x, env, depth + 1)
                out = c if out is None else out.join(c)
            return out
        if k == "param":
            if env is not None and o[1] in env:
                return env[o[1]]
            return self.param_class(fi, o[1], depth + 1)
        if k == "fstr":
            return self.fstring_value_class(fi, o, env, depth + 1)
        if k == "binop":
            if o[1] == "Add":
                a = self.classify(fi, o[2], env, depth + 1)
                b = self.classify(fi, o[3], env, depth + 1)
                if a.kind == b.kind == "const" and all(isinstance(c, (int, float)) for c in a.consts | b.consts):
                    return Cls("const", {0})
                return self.concat(a, b)
            a = self.classify(fi, o[2], env, depth + 1)
            b = self.classify(fi, o[3], env, depth + 1)
            if a.kind == "const" and b.kind == "const":
                return Cls("const", {0})   # arithmetic on numbers
            return Cls("tainted", why=f"operator {o[1]} on non-constant values")
        if k == "aug":
            return self.classify(fi, o[3], env, depth + 1)
        if k == "ifexp":
            return self.classify(fi, o[2], env, depth + 1).join(self.classify(fi, o[3], env, depth + 1))
        if k == "call":
            return self.call_class(fi, o, env, depth + 1)
        if k == "item":
            base = o[1]
            while base[0] == "call" and base[1] in ("builtins.tuple", "builtins.list") and len(base[2]) == 1 and not base[3]:
                base = base[2][0]       # tuple(x)[k] is x[k]
            if base[0] == "phi":
                out = None
                for alt in base[1]:
                    c = self.classify(fi, ("item", alt, o[2]), env, depth + 1)
                    out = c if out is None else out.join(c)
                if out is not None:
                    return out
            if base[0] == "tuple" and isinstance(o[2], int) and -len(base[1]) <= o[2] < len(base[1]):
                return self.classify(fi, base[1][o[2]], env, depth + 1)
            if base[0] == "call" and base[1] in self.project.funcs:
                return self.return_class(self.project.funcs[base[1]], self.bind_env(fi, base, env, depth), o[2], depth + 1)
            if base[0] == "elem":
                els = self.elements(fi, base[1], env, depth + 1)
                if els is not None:
                    out = None
                    for (efi, eo, eenv) in els:
                        if eo[0] == "tuple" and isinstance(o[2], int) and o[2] < len(eo[1]):
                            c = self.classify(efi, eo[1][o[2]], eenv, depth + 1)
                        elif eo[0] == "dict":
                            c = self.dict_field(efi, eo, o[2], eenv, depth + 1)
                        else:
                            c = Cls("tainted", why=f"element {show(eo)[:40]}")
                        out = c if out is None else out.join(c)
                    if out is not None:
                        return out
            return Cls("tainted", why=f"component of {show(base)[:60]}")
        if k == "index":
            # d[key] with constant key on a dict display / element dict
            if o[2][0] == "const":
                return self.field_of(fi, o[1], o[2][1], None, env, depth + 1)
            return Cls("tainted", why="computed subscript")
        if k == "tuple":
            return Cls("tainted", why="a tuple/list interpolated as text")
        return Cls("tainted", why=f"{show(o)[:60]}")

    @staticmethod
    def concat(a: Cls, b: Cls) -> Cls:
        """Class of the string concatenation a + b."""
        if a.kind == "const" and b.kind == "const":
            if len(a.consts) * len(b.consts) <= 64:
                return Cls("const", {f"{x}{y}" for x in a.consts for y in b.consts})
            return Cls("tainted", why="too many constant combinations")
        for c in (a, b):
            if c.kind == "const" and any(isinstance(x, str) and not SAFE_CONST.match(x) for x in c.consts):
                return Cls("tainted", why="constant with markup metacharacters concatenated into a value")
        if a.kind == "const":
            return b
        if b.kind == "const":
            return a
        return a.join(b)

    def fstring_value_class(self, fi: FuncInfo, o, env, depth) -> Cls:
        """An f-string used as a *value* (e.g. bg_style = f"background-color: {bg};"): safe iff its
        constant parts carry no markup metacharacters and every part is CONST/ESCAPED."""
        node, nid = self.org(fi).fstrings[o[1]]
        consts = "".join(v.value for v in node.values if isinstance(v, ast.Constant) and isinstance(v.value, str))
        if "<" in consts and ">" in consts:
            # it is itself a template fragment
            self.check_fragment(fi, node, nid, env)
            return Cls("markup")
        out = Cls("const", {consts}) if SAFE_CONST.match(consts) else Cls("tainted", why=f"constant text {consts!r} with metacharacters composed into a value")
        if out.kind == "tainted":
            return out
        res = Cls("escaped") if any(isinstance(v, ast.FormattedValue) for v in node.values) else out
        for v in node.values:
            if isinstance(v, ast.FormattedValue):
                c = self.classify(fi, self.org(fi).of(nid, v.value), env, depth + 1)
                if c.kind == "const":
                    bad = [x for x in c.consts if isinstance(x, str) and not SAFE_CONST.match(x)]
                    if bad:
                        return Cls("tainted", why=f"constant {bad} with metacharacters")
                    continue
                res = res.join(c)
        return res

    def call_class(self, fi: FuncInfo, o, env, depth) -> Cls:
        name, args, kws, recv = o[1], o[2], dict(o[3]), o[4]
        if name == "html.escape":
            q = kws.get("quote", args[1] if len(args) > 1 else ("const", True))
            if q == ("const", True):
                return Cls("escaped")
            if q[0] == "const" and not q[1]:
                return Cls("escaped_nq")
            return Cls("escaped_nq", why="quote argument not constant True")
        if name in ("builtins.str", "builtins.repr", "builtins.format") and args:
            c = self.classify(fi, args[0], env, depth + 1)
            return c
        if name in ("builtins.int", "builtins.float", "builtins.len", "builtins.round", "builtins.abs", "builtins.bool"):
            return Cls("const", {0})
        if name in ("os.path.abspath", "os.path.basename"):
            return self.classify(fi, args[0], env, depth + 1) if args else Cls("tainted")
        if name == ".get" and recv is not None and args and args[0][0] == "const":
            dflt = self.classify(fi, args[1], env, depth + 1) if len(args) > 1 else Cls("const", {None})
            return dflt.join(self.field_of(fi, recv, args[0][1], None, env, depth + 1))
        if name in (".lower", ".upper", ".strip", ".title", ".capitalize") and recv is not None:
            c = self.classify(fi, recv, env, depth + 1)
            if c.kind == "const":
                return Cls("const", {getattr(x, name[1:])() if isinstance(x, str) else x for x in c.consts})
            return c
        if name == ".join" and recv is not None and recv[0] == "const" and isinstance(recv[1], str) and SAFE_CONST.match(recv[1]) and len(args) == 1:
            # sep.join(parts): the class of the parts (a separator without metacharacters adds nothing)
            return self.sequence_class(fi, args[0], env, depth + 1)
        if name in self.project.funcs:
            cfi = self.project.funcs[name]
            return self.return_class(cfi, self.bind_env(fi, o, env, depth), None, depth + 1)
        return Cls("tainted", why=f"result of {name}")

    def sequence_class(self, fi: FuncInfo, o, env, depth) -> Cls:
        """Join of the classes of the elements of a sequence-valued origin (display, comprehension, choice of those)."""
        if depth > 25:
            return Cls("tainted", why="analysis depth exceeded")
        if o[0] == "tuple":
            out = Cls("const", set())
            for x in o[1]:
                out = out.join(self.classify(fi, x, env, depth + 1)) if out.consts or out.kind != "const" else self.classify(fi, x, env, depth + 1)
            return out
        if o[0] == "phi":
            out = None
            for x in o[1]:
                c = self.sequence_class(fi, x, env, depth + 1)
                out = c if out is None else out.join(c)
            return out
        if o[0] == "comp" and len(o) > 3 and o[3] in self.org(fi).comp_nodes:
            comp, nid = self.org(fi).comp_nodes[o[3]]
            if self.value_is_markup(fi, nid, comp.elt):
                return Cls("markup")
            return self.classify(fi, self.org(fi).of(nid, comp.elt), env, depth + 1)
        return Cls("tainted", why=f"elements of {show(o)[:60]}")

    def bind_env(self, fi: FuncInfo, call_o, env, depth) -> Dict[str, Cls]:
        cfi = self.project.funcs[call_o[1]]
        params = [p for p in cfi.params() if not (cfi.cls and p == "self")]
        out: Dict[str, Cls] = {}
        for p, a in zip(params, call_o[2]):
            out[p] = self.classify(fi, a, env, depth + 1)
        for kw, a in call_o[3]:
            out[kw] = self.classify(fi, a, env, depth + 1)
        for p, d in cfi.defaults().items():
            if p not in out:
                out[p] = Cls("const", {d.value}) if isinstance(d, ast.Constant) else Cls("tainted", why="non-constant default")
        return out

    def return_class(self, cfi: FuncInfo, env: Dict[str, Cls], component: Optional[int], depth: int) -> Cls:
        key = (cfi.qualname, component, tuple(sorted((k, repr(v)) for k, v in env.items())))
        if key in self._ret:
            return self._ret[key]
        if key in self._stack:
            return Cls("const", set())
        self._stack.add(key)
        org = self.org(cfi)
        out = None
        nrets = 0
        for node in org.cfg.nodes:
            if node.kind != "return":
                continue
            nrets += 1
            v = node.ast.value
            if v is None:
                c = Cls("const", {None})
            else:
                o = org.of(node.id, v)
                if component is not None:
                    if o[0] == "tuple" and component < len(o[1]):
                        o = o[1][component]
                    else:
                        o = ("item", o, component)
                c = self.classify(cfi, o, env, depth + 1)
            out = c if out is None else out.join(c)
        if nrets == 0 or org.cfg.pred[org.cfg.exit] and any(org.cfg.nodes[p].kind != "return" for p, _ in org.cfg.pred[org.cfg.exit]):
            c = Cls("const", {None})
            out = c if out is None else out.join(c)
        self._stack.discard(key)
        self._ret[key] = out
        return out

    def param_class(self, fi: FuncInfo, pname: str, depth: int) -> Cls:
        """Join over all call sites of fi in the package (parameters of public entry points with no
        in-package caller are user input: TAINTED)."""
        key = ("param", fi.qualname, pname)
        if key in self._ret:
            return self._ret[key]
        if key in self._stack:
            return Cls("const", set())
        self._stack.add(key)
        sites = call_sites(self.project, fi.qualname)
        out = None
        for (cfi, m, call) in sites:
            if cfi is None:
                out = Cls("tainted", why="module-level call")
                break
            try:
                b = bind_args(fi, call, skip_self=bool(fi.cls))
            except ValueError:
                out = Cls("tainted", why="unreadable call")
                break
            a = b.get(pname)
            if a is None:
                d = fi.defaults().get(pname)
                c = Cls("const", {d.value}) if isinstance(d, ast.Constant) else Cls("tainted", why=f"parameter {pname} has no constant default")
            else:
                org = self.org(cfi)
                try:
                    o = org.at(a)
                except KeyError:
                    o = ("expr", norm_text(a))
                c = self.classify(cfi, o, None, depth + 1)
            out = c if out is None else out.join(c)
        if out is None:
            out = Cls("tainted", why=f"parameter {pname} of {fi.short} (no caller inside the package: caller-supplied)")
        self._stack.discard(key)
        self._ret[key] = out
        return out

    # ---------------------------------------------------------------- containers
    def elements(self, fi: FuncInfo, lst, env, depth):
        """Element origins of a list-valued origin: [(fi, origin, env)] or None if unknown."""
        if depth > 25:
            return None
        if lst[0] == "tuple":
            out = [(fi, x, env) for x in lst[1]]
            return out
        if lst[0] == "phi" or lst[0] == "ifexp":
            out = []
            for x in (lst[1] if lst[0] == "phi" else (lst[2], lst[3])):
                r = self.elements(fi, x, env, depth + 1)
                if r is None:
                    return None
                out += r
            return out
        if lst[0] == "global" and isinstance(lst[1], str):
            # a module-level table (tuple / list display) of the package
            mod, _, nm = lst[1].rpartition(".")
            m = self.project.modules.get(mod)
            tv = m.top_assigns.get(nm) if m else None
            if isinstance(tv, (ast.Tuple, ast.List)):
                sc = Scope(self.project, None, m)
                o = Origins.__new__(Origins)       # origins of module-level literals need no flow: evaluate the display structurally
                return [(fi, _literal_origin(x), env) for x in tv.elts] if all(_literal_origin(x) is not None for x in tv.elts) else None
        if lst[0] == "param":
            sites = call_sites(self.project, fi.qualname)
            if not sites:
                return None
            out = []
            for (cfi, m, call) in sites:
                if cfi is None:
                    return None
                try:
                    b = bind_args(fi, call, skip_self=bool(fi.cls))
                except ValueError:
                    return None
                a = b.get(lst[1])
                if a is None:
                    return None
                org = self.org(cfi)
                o = org.at(a)
                r = self.elements(cfi, o, None, depth + 1)
                if r is None:
                    return None
                out += r
                # appended elements when the actual is a local list variable
                if isinstance(a, ast.Name):
                    out += self.appended(cfi, a.id)
            return out
        return None

    def appended(self, fi: FuncInfo, name: str):
        org = self.org(fi)
        out = []
        for node in org.cfg.nodes:
            for e in node_exprs(node):
                for c in ast.walk(e):
                    if isinstance(c, ast.Call) and isinstance(c.func, ast.Attribute) and isinstance(c.func.value, ast.Name) and c.func.value.id == name:
                        if c.func.attr == "append" and len(c.args) == 1:
                            out.append((fi, org.of(node.id, c.args[0]), None))
                        elif c.func.attr in ("extend", "insert", "__setitem__"):
                            out.append((fi, ("expr", norm_text(c)), None))
        return out

    def dict_field(self, fi, d, key, env, depth) -> Cls:
        for (k, v) in d[1]:
            if k == ("const", key):
                return self.classify(fi, v, env, depth + 1)
        return Cls("const", set())   # key absent in this display: .get default applies (joined by caller)

    def field_of(self, fi: FuncInfo, obj, key, _unused, env, depth) -> Cls:
        """Class of obj[key] / obj.get(key) where obj is a dict display, or an element of a known list."""
        if obj[0] == "dict":
            return self.dict_field(fi, obj, key, env, depth)
        if obj[0] == "elem":
            els = self.elements(fi, obj[1], env, depth + 1)
            if els is None:
                return Cls("tainted", why=f"field {key!r} of an element of {show(obj[1])[:40]} (list contents unknown)")
            out = None
            for (efi, eo, eenv) in els:
                if eo[0] == "dict":
                    c = self.dict_field(efi, eo, key, eenv, depth + 1)
                else:
                    c = Cls("tainted", why=f"list element {show(eo)[:40]} is not a dict display")
                out = c if out is None else out.join(c)
            return out if out is not None else Cls("const", set())
        if obj[0] == "phi":
            out = None
            for x in obj[1]:
                c = self.field_of(fi, x, key, None, env, depth + 1)
                out = c if out is None else out.join(c)
            return out
        return Cls("tainted", why=f"field {key!r} of {show(obj)[:50]}")

    # ---------------------------------------------------------------- fragments
    def check_fragment(self, fi: FuncInfo, node: ast.AST, nid: int, env=None) -> None:
        """Judge every hole of one template fragment (JoinedStr or Constant)."""
        if id(node) in self.fragments_seen:
            return
        self.fragments_seen.add(id(node))
        state = {"s": "text", "tag": "", "attr": "", "closing": False}
        org = self.org(fi)
        values = node.values if isinstance(node, ast.JoinedStr) else [node]
        for v in values:
            if isinstance(v, ast.Constant):
                if isinstance(v.value, str):
                    scan_context(v.value, state)
            elif isinstance(v, ast.FormattedValue):
                o = org.of(nid, v.value)
                cls = self.classify(fi, o, env)
                ok, why = allowed(cls, state)
                self.holes.append({"fi": fi, "node": v, "expr": norm_text(v.value), "context": context_name(state),
                                   "cls": cls, "ok": ok, "why": why, "origin": show(o)[:160], "state": dict(state)})
        if state["s"] != "text":
            self.fragment_errors.append((fi, node, context_name(state)))

    def markup_class(self, fi: FuncInfo, name: str) -> Tuple[bool, List[tuple]]:
        """Is everything ever assigned / appended to the string variable ``name`` a checked template
        fragment, a constant, or the value of a template builder? Returns (ok, offending sites)."""
        org = self.org(fi)
        bad = []
        active = self.__dict__.setdefault("_markup_active", set())
        if (fi.qualname, name) in active:
            return True, []         # `acc = acc + piece`: the accumulator is judged by its other definitions and by the pieces
        active.add((fi.qualname, name))
        try:
            return self._markup_class(fi, name, org, bad)
        finally:
            active.discard((fi.qualname, name))

    def _markup_class(self, fi, name, org, bad):
        for node in org.cfg.nodes:
            a = node.ast
            val = None
            if node.kind == "stmt" and isinstance(a, ast.Assign) and any(isinstance(t, ast.Name) and t.id == name for t in a.targets):
                val = a.value
            elif node.kind == "stmt" and isinstance(a, ast.AugAssign) and isinstance(a.target, ast.Name) and a.target.id == name:
                val = a.value
                if not isinstance(a.op, ast.Add):
                    bad.append((a, "non-concatenating update"))
                    continue
            if val is None:
                continue
            if not self.value_is_markup(fi, node.id, val):
                bad.append((a, f"value {norm_text(val)[:60]} is neither a template fragment, a constant nor a template builder's result"))
        return (not bad), bad

    def value_is_markup(self, fi: FuncInfo, nid: int, val: ast.AST) -> bool:
        org = self.org(fi)
        if isinstance(val, ast.Constant) and isinstance(val.value, str):
            self.check_fragment(fi, val, nid)
            return True
        if isinstance(val, ast.JoinedStr):
            self.check_fragment(fi, val, nid)
            return True
        if isinstance(val, ast.BinOp) and isinstance(val.op, ast.Add):
            return self.value_is_markup(fi, nid, val.left) and self.value_is_markup(fi, nid, val.right)
        if isinstance(val, ast.IfExp):
            return self.value_is_markup(fi, nid, val.body) and self.value_is_markup(fi, nid, val.orelse)
        if isinstance(val, ast.Call):
            q = org.scope.resolve_call(val)
            if q == "builtins.str" and len(val.args) == 1 and not val.keywords:
                return self.value_is_markup(fi, nid, val.args[0])       # str() of a string is that string
            if q in self.project.funcs:
                return self.builder_returns_markup(self.project.funcs[q])
            f = val.func
            if isinstance(f, ast.Attribute) and f.attr == "join" and isinstance(f.value, ast.Constant) and isinstance(f.value.value, str) and SAFE_CONST.match(f.value.value) \
                    and len(val.args) == 1 and not val.keywords:
                return self.sequence_is_markup(fi, nid, val.args[0])
            return False
        if isinstance(val, ast.Name):
            ok, _ = self.markup_class(fi, val.id) if any(True for _ in org.defs(nid, val.id)) and org.defs(nid, val.id) != [-1] else (False, [])
            return ok
        return False

    def sequence_is_markup(self, fi: FuncInfo, nid: int, seq: ast.AST) -> bool:
        """Every element of the sequence is a checked fragment / constant / builder result: a display, a comprehension
        or generator of such, or a list variable that only ever receives such (display, append, extend, +=)."""
        if isinstance(seq, (ast.List, ast.Tuple)):
            return all(not isinstance(x, ast.Starred) and self.value_is_markup(fi, nid, x) for x in seq.elts)
        if isinstance(seq, (ast.ListComp, ast.GeneratorExp)):
            return self.value_is_markup(fi, nid, seq.elt)
        if isinstance(seq, ast.Name):
            org = self.org(fi)
            if org.defs(nid, seq.id) in ([], [-1]):
                return False
            key = ("seqmarkup", fi.qualname, seq.id)
            if key in self._ret:
                return self._ret[key]
            self._ret[key] = True
            ok = True
            uses = 0
            for node in org.cfg.nodes:
                a = node.ast
                if node.kind == "stmt" and isinstance(a, ast.Assign) and any(isinstance(t, ast.Name) and t.id == seq.id for t in a.targets):
                    uses += 1
                    ok = ok and self.sequence_is_markup(fi, node.id, a.value)
                elif node.kind == "stmt" and isinstance(a, ast.AugAssign) and isinstance(a.target, ast.Name) and a.target.id == seq.id:
                    ok = ok and isinstance(a.op, ast.Add) and self.sequence_is_markup(fi, node.id, a.value)
                for e in node_exprs(node):
                    for c in ast.walk(e):
                        if isinstance(c, ast.Call) and isinstance(c.func, ast.Attribute) and isinstance(c.func.value, ast.Name) and c.func.value.id == seq.id:
                            if c.func.attr == "append" and len(c.args) == 1:
                                ok = ok and self.value_is_markup(fi, node.id, c.args[0])
                            elif c.func.attr == "extend" and len(c.args) == 1:
                                ok = ok and self.sequence_is_markup(fi, node.id, c.args[0])
                            else:
                                ok = False      # insert / sort / pop / ...: not an append-only list of fragments
            self._ret[key] = ok and uses > 0
            return self._ret[key]
        return False

    def builder_returns_markup(self, cfi: FuncInfo) -> bool:
        key = ("builder", cfi.qualname)
        if key in self._ret:
            return self._ret[key]
        self._ret[key] = True  # recursion guard
        org = self.org(cfi)
        ok = True
        n = 0
        for node in org.cfg.nodes:
            if node.kind == "return" and node.ast.value is not None:
                n += 1
                ok = ok and self.value_is_markup(cfi, node.id, node.ast.value)
        ok = ok and n > 0
        self._ret[key] = ok
        return ok
