"""WIRE: value-flow origins. ``Origins(project, fi).of(node_id, expr)`` rewrites an expression
evaluated at a CFG node into a tree over the function's inputs by following reaching
definitions: locals are replaced by what they were assigned from, tuple-unpacking becomes
('item', origin, k), several reaching definitions become ('phi', {..}). Rules then match on
*where a value comes from*, never on the names of temporaries.

Tree forms
    ('param', name)            ('const', value)             ('tuple', (o1, o2, ...))
    ('call', qualname|text, (positional origins...), ((kw, origin), ...), receiver origin|None)
    ('attr', origin, name)     ('item', origin, index)      ('elem', origin)   -- loop element of an iterable
    ('phi', frozenset{origins})   ('expr', text)            ('cmp', op, left, right)
"""
from __future__ import annotations

import ast
from typing import Dict, Optional

from .cfg import CFG, Node, build_cfg
from .defuse import reaching_defs
from .loader import FuncInfo, Project, norm_text
from .resolve import Scope

MAX_DEPTH = 12
CMP = {ast.GtE: ">=", ast.Gt: ">", ast.LtE: "<=", ast.Lt: "<", ast.Eq: "==", ast.NotEq: "!=", ast.Is: "is", ast.IsNot: "is not", ast.In: "in", ast.NotIn: "not in"}


class Origins:
    def __init__(self, project: Project, fi: FuncInfo, cfg: Optional[CFG] = None):
        self.project = project
        self.fi = fi
        self.cfg = cfg or build_cfg(fi.node)
        self.scope = Scope(project, fi)
        self.RD = reaching_defs(self.cfg, fi.params())
        self._memo: Dict[tuple, object] = {}
        self.fstrings: Dict[int, tuple] = {}
        self.node_of_ast: Dict[int, Node] = {}
        from .cfg import node_exprs
        self.comp_bind: Dict[int, tuple] = {}       # id(Name load inside a comprehension) -> (generator, name)
        self.comp_nodes: Dict[int, tuple] = {}      # id(comprehension) -> (node, CFG node id)
        for n in self.cfg.nodes:
            for e in node_exprs(n):
                for sub in ast.walk(e):
                    self.node_of_ast.setdefault(id(sub), n)
                    if isinstance(sub, (ast.ListComp, ast.GeneratorExp, ast.SetComp, ast.DictComp)):
                        self.comp_nodes[id(sub)] = (sub, n.id)
                        for gi, g in enumerate(sub.generators):
                            names = {t.id for t in ast.walk(g.target) if isinstance(t, ast.Name)}
                            scope_parts = [x for x in ([getattr(sub, "elt", None), getattr(sub, "key", None), getattr(sub, "value", None)] + list(g.ifs)) if x is not None]
                            for later in sub.generators[gi + 1:]:
                                scope_parts += [later.iter] + list(later.ifs)
                            for part in scope_parts:
                                for x in ast.walk(part):
                                    if isinstance(x, ast.Name) and isinstance(x.ctx, ast.Load) and x.id in names:
                                        self.comp_bind.setdefault(id(x), (g, x.id))

    def node_for(self, a: ast.AST) -> Node:
        n = self.node_of_ast.get(id(a))
        if n is None:
            raise KeyError(f"expression {norm_text(a)} is not evaluated at any CFG node")
        return n

    def at(self, a: ast.AST):
        """Origin of an AST expression at the CFG node that evaluates it."""
        return self.of(self.node_for(a).id, a)

    def defs(self, nid: int, name: str):
        return sorted(d for (x, d) in (self.RD.get(nid) or ()) if x == name)

    def of(self, nid: int, e: ast.AST, depth: int = 0):
        if depth > MAX_DEPTH:
            return ("expr", norm_text(e))
        if isinstance(e, ast.Constant):
            return ("const", e.value)
        if isinstance(e, ast.Name) and id(e) in self.comp_bind:
            g, nm = self.comp_bind[id(e)]
            r = self._unpack(g.target, ("elem", self.of(nid, g.iter, depth + 1)), nm)      # bound by the comprehension: an element of what it iterates
            return r if r is not None else ("expr", e.id)
        if isinstance(e, ast.Name):
            key = (nid, e.id)
            if key in self._memo:
                return self._memo[key]
            self._memo[key] = ("expr", e.id)  # cycle guard (loop-carried values)
            ds = self.defs(nid, e.id)
            outs = set()
            if not ds:
                q = self.scope.resolve_name(e.id)
                res = ("global", q) if q else ("expr", e.id)
                self._memo[key] = res
                return res
            for d in ds:
                outs.add(self._def_origin(d, e.id, depth + 1))
            res = next(iter(outs)) if len(outs) == 1 else ("phi", frozenset(outs))
            self._memo[key] = res
            return res
        if isinstance(e, ast.JoinedStr):
            key = ("fstr", id(e))
            self.fstrings[id(e)] = (e, nid)
            return key
        if isinstance(e, ast.Dict):
            items = []
            for k, v in zip(e.keys, e.values):
                if k is None:
                    return ("expr", norm_text(e))
                items.append((self.of(nid, k, depth + 1), self.of(nid, v, depth + 1)))
            return ("dict", tuple(items))
        if isinstance(e, ast.Tuple) or isinstance(e, ast.List):
            return ("tuple", tuple(self.of(nid, x, depth + 1) for x in e.elts))
        if isinstance(e, ast.Attribute):
            q = self.scope.resolve(e)
            if q and not isinstance(e.value, ast.Name) or (q and isinstance(e.value, ast.Name) and not self.defs(nid, e.value.id) and e.value.id not in self.fi.params()):
                return ("global", q)
            return ("attr", self.of(nid, e.value, depth + 1), e.attr)
        if isinstance(e, ast.Subscript):
            idx = e.slice
            if isinstance(idx, ast.Constant):
                base = self.of(nid, e.value, depth + 1)
                if base[0] == "tuple" and isinstance(idx.value, int) and -len(base[1]) <= idx.value < len(base[1]):
                    return base[1][idx.value]
                if base[0] == "dict":
                    hit = [v for (k, v) in base[1] if k == ("const", idx.value)]
                    if hit:
                        return hit[-1]          # lookup of a constant key in a dict display: the value written there
                if base[0] == "phi" and isinstance(idx.value, int) and all(x[0] == "tuple" and -len(x[1]) <= idx.value < len(x[1]) for x in base[1]):
                    alts = {x[1][idx.value] for x in base[1]}
                    return next(iter(alts)) if len(alts) == 1 else ("phi", frozenset(alts))
                return ("item", base, idx.value)
            return ("index", self.of(nid, e.value, depth + 1), self.of(nid, idx, depth + 1))
        if isinstance(e, ast.Call):
            q = self.scope.resolve_call(e)
            recv = None
            if isinstance(e.func, ast.Attribute) and (q is None or q in self.project.funcs and self.project.funcs[q].cls):
                recv = self.of(nid, e.func.value, depth + 1)
            name = q or ("." + e.func.attr if isinstance(e.func, ast.Attribute) else norm_text(e.func))
            args = tuple(self.of(nid, a, depth + 1) for a in e.args)
            kws = tuple(sorted((k.arg or "**", self.of(nid, k.value, depth + 1)) for k in e.keywords))
            return ("call", name, args, kws, recv)
        if isinstance(e, ast.Compare) and len(e.ops) == 1:
            return ("cmp", CMP.get(type(e.ops[0]), "?"), self.of(nid, e.left, depth + 1), self.of(nid, e.comparators[0], depth + 1))
        if isinstance(e, ast.UnaryOp) and isinstance(e.op, ast.Not):
            return ("not", self.of(nid, e.operand, depth + 1))
        if isinstance(e, ast.IfExp):
            return ("ifexp", self.of(nid, e.test, depth + 1), self.of(nid, e.body, depth + 1), self.of(nid, e.orelse, depth + 1))
        if isinstance(e, ast.BinOp):
            return ("binop", type(e.op).__name__, self.of(nid, e.left, depth + 1), self.of(nid, e.right, depth + 1))
        if isinstance(e, (ast.ListComp, ast.GeneratorExp, ast.SetComp)) and len(e.generators) == 1:
            g = e.generators[0]
            src = self.of(nid, g.iter, depth + 1)
            if isinstance(e.elt, ast.Name) and isinstance(g.target, ast.Name) and e.elt.id == g.target.id:
                return ("filter", src, tuple(norm_text(c) for c in g.ifs))       # same elements, possibly fewer
            return ("comp", src, norm_text(e.elt), id(e))
        if isinstance(e, ast.BoolOp):
            return ("boolop", type(e.op).__name__, tuple(self.of(nid, v, depth + 1) for v in e.values))
        return ("expr", norm_text(e))

    def _def_origin(self, d, name: str, depth: int):
        if d == -1:
            return ("param", name)
        node = self.cfg.nodes[d]
        a = node.ast
        if node.kind == "bind":
            it_node = next((lp["iter"] for lp in self.cfg.loops if lp.get("bind") == d), d)
            it = self.of(it_node, a.iter, depth)
            return self._unpack(a.target, ("elem", it), name)
        if node.kind == "stmt" and isinstance(a, ast.Assign):
            if len(a.targets) == 1 and isinstance(a.targets[0], ast.Name) and a.targets[0].id == name and isinstance(a.value, ast.BinOp) and isinstance(a.value.op, ast.Add) \
                    and isinstance(a.value.left, ast.Name) and a.value.left.id == name:
                return ("aug", "Add", name, self.of(d, a.value.right, depth), d)        # x = x + e: the same accumulation as x += e
            val = self.of(d, a.value, depth)
            for t in a.targets:
                r = self._unpack(t, val, name)
                if r is not None:
                    return r
        if node.kind == "stmt" and isinstance(a, ast.AnnAssign) and a.value is not None:
            return self.of(d, a.value, depth)
        if node.kind == "stmt" and isinstance(a, ast.AugAssign):
            return ("aug", type(a.op).__name__, norm_text(a.target), self.of(d, a.value, depth), d)
        if node.kind == "with":
            for it in a.items:
                if it.optional_vars is not None and any(isinstance(x, ast.Name) and x.id == name for x in ast.walk(it.optional_vars)):
                    return ("with", self.of(d, it.context_expr, depth))
        if node.kind == "except":
            return ("exception", name)
        if node.kind in ("stmt", "funcdef") and isinstance(a, (ast.Import, ast.ImportFrom, ast.FunctionDef)):
            q = self.scope.resolve_name(name)
            return ("global", q) if q else ("expr", name)
        return ("expr", f"{name}@{node.lineno}")

    def _unpack(self, target: ast.AST, val, name: str):
        if isinstance(target, ast.Name):
            return val if target.id == name else None
        if isinstance(target, (ast.Tuple, ast.List)):
            star = next((i for i, el in enumerate(target.elts) if isinstance(el, ast.Starred)), None)
            for k, el in enumerate(target.elts):
                if star is not None:
                    # a, *rest, z = seq: what precedes the star counts from the front, what follows from the back, the star is a slice
                    if k < star:
                        sub = ("item", val, k)
                    elif k > star:
                        sub = ("item", val, k - len(target.elts))
                    else:
                        sub = ("slice", val, star, star + 1 - len(target.elts))
                        el = el.value
                    r = self._unpack(el, sub, name)
                    if r is not None:
                        return r
                    continue
                if val[0] == "tuple" and len(val[1]) == len(target.elts):
                    sub = val[1][k]
                elif val[0] == "comp" and len(val) > 3 and val[3] in self.comp_nodes and len(self.comp_nodes[val[3]][0].generators) == 1 \
                        and not self.comp_nodes[val[3]][0].generators[0].ifs and not isinstance(self.comp_nodes[val[3]][0], ast.DictComp):
                    # k-th item of [f(t) for t in seq] is f(seq[k])
                    comp, cnid = self.comp_nodes[val[3]]
                    src = val[1]
                    if src[0] == "index" and src[2][0] == "expr" and str(src[2][1]).replace(" ", "") in (":", f":{len(target.elts)}", f"0:{len(target.elts)}"):
                        src = src[1]          # seq[:n] unpacked into n names: its k-th item is seq's
                    eo = self.of(cnid, comp.elt, 1)
                    sub = _subst_origin(eo, ("elem", val[1]), ("item", src, k))
                elif val[0] == "phi" and all(x[0] == "tuple" and len(x[1]) == len(target.elts) for x in val[1]):
                    alts = {x[1][k] for x in val[1]}          # unpacking a choice of tuples: the choice of their k-th items
                    sub = next(iter(alts)) if len(alts) == 1 else ("phi", frozenset(alts))
                elif val[0] == "call" and val[1] == "builtins.enumerate" and val[2]:
                    sub = ("enum_index",) if k == 0 else val[2][0]
                elif val[0] == "elem" and val[1][0] == "call" and val[1][1] == "builtins.enumerate" and val[1][2]:
                    sub = ("enum_index", val[1][2][0]) if k == 0 else ("elem", val[1][2][0])
                else:
                    sub = ("item", val, k)
                r = self._unpack(el, sub, name)
                if r is not None:
                    return r
        return None


def _subst_origin(o, old, new):
    if o == old:
        return new
    if isinstance(o, tuple):
        return tuple(_subst_origin(x, old, new) if isinstance(x, (tuple, frozenset)) else x for x in o)
    if isinstance(o, frozenset):
        return frozenset(_subst_origin(x, old, new) for x in o)
    return o


def show(o, depth=0) -> str:
    """Compact human-readable rendering of an origin tree."""
    if not isinstance(o, tuple):
        return repr(o)
    k = o[0]
    if k == "param":
        return o[1]
    if k == "const":
        return repr(o[1])
    if k == "global":
        return str(o[1]).replace("cm_colors.core.", "").replace("cm_colors.", "")
    if k == "tuple":
        return "(" + ", ".join(show(x) for x in o[1]) + ")"
    if k == "call":
        name = str(o[1]).replace("cm_colors.core.", "").replace("cm_colors.", "")
        parts = [show(x) for x in o[2]] + [f"{kw}={show(v)}" for kw, v in o[3]]
        recv = show(o[4]) + "." if o[4] is not None and not name.startswith(".") else (show(o[4]) if o[4] is not None else "")
        return f"{recv}{name}({', '.join(parts)})"
    if k == "attr":
        return f"{show(o[1])}.{o[2]}"
    if k == "item":
        return f"{show(o[1])}[{o[2]}]"
    if k == "elem":
        return f"elem({show(o[1])})"
    if k == "phi":
        return "phi{" + " | ".join(sorted(show(x) for x in o[1])) + "}"
    if k == "cmp":
        return f"({show(o[2])} {o[1]} {show(o[3])})"
    if k == "expr":
        return str(o[1])
    if k == "filter":
        return f"filter({show(o[1])})"
    if k == "comp":
        return f"[{o[2]} for .. in {show(o[1])}]"
    if k == "fstr":
        return "<f-string>"
    if k == "dict":
        return "{" + ", ".join(f"{show(a)}: {show(b)}" for a, b in o[1]) + "}"
    return "(" + " ".join(show(x) if isinstance(x, tuple) else str(x) for x in o) + ")"
