"""L0.5 normaliser, part 2: coding-style normal forms (same function, written by a different hand).

Each rewrite below replaces a statement pattern by one that computes the same values, performs the same calls in the same
order and raises the same exceptions; it is applied to the in-memory trees only, before anything is analysed.

  S1  try: B  except ...: raise            ->  B                      (handlers that only re-raise catch nothing)
  S2  X is True / bool(X) / X == False     ->  X / X / not X          (X a comparison, a negation, an isinstance()/startswith() ... call
                                                                        or a local only ever assigned such values); bool() in a test position
  S3  flag = 0 ... flag = 1 ... flag == 1  ->  boolean flag           (a local only assigned the integers 0 / 1 and only compared with them)
  S4  if T: ... else: pass                 ->  if T: ...              (and `pass` among other statements dropped)
  S5  t = E ; <statement reading t once>   ->  the statement with E   (t assigned once, read once, E evaluated first and unconditionally there)
  S6  f = False ; if A: f = True elif B: f = True     ->  f = A or B   (an if-tree whose leaves only assign boolean values to one flag)
  S7  if A: (only) if B: S                 ->  if A and B: S
  L1  i = c ; while i < N: BODY ; i += 1   ->  for i in range(c, N): BODY      (N not changed by BODY; every path through BODY increments once, last)
  L2  for i in range(len(xs)): ... xs[i]   ->  for x in xs / for i, x in enumerate(xs)
  L3  i = c ; for x in it: BODY ; i += 1   ->  for i, x in enumerate(it, c): BODY
  L4  for i in range(<small constant>)     ->  for i in (0, 1, ..)     (the CFG unrolls loops over literal tuples)
"""
from __future__ import annotations

import ast
import copy
from typing import Dict, List, Optional, Set

FUNC = (ast.FunctionDef, ast.AsyncFunctionDef, ast.ClassDef)
BOOL_FUNCS = {"bool", "isinstance", "issubclass", "callable", "hasattr", "any", "all"}
BOOL_METHODS = {"startswith", "endswith", "isdigit", "isalpha", "isalnum", "isspace", "islower", "isupper", "isnumeric", "isdecimal",
                "isidentifier", "is_dir", "is_file", "exists", "issubset", "issuperset", "isdisjoint"}


def own_nodes(fn: ast.AST):
    """All nodes of a function, not descending into nested function / class definitions."""
    stack = list(ast.iter_child_nodes(fn))
    while stack:
        n = stack.pop()
        yield n
        if isinstance(n, FUNC):
            continue
        stack.extend(ast.iter_child_nodes(n))


def params_of(fn) -> Set[str]:
    a = fn.args
    out = {x.arg for x in a.args + a.kwonlyargs + a.posonlyargs}
    if a.vararg:
        out.add(a.vararg.arg)
    if a.kwarg:
        out.add(a.kwarg.arg)
    return out


_ESC_CACHE: Dict[int, Set[str]] = {}


def escaping_names(fn) -> Set[str]:
    """Names declared global / nonlocal, or used by a nested function: not private to this function's straight-line code."""
    if id(fn) in _ESC_CACHE:
        return _ESC_CACHE[id(fn)]
    out = set()
    for n in ast.walk(fn):
        if isinstance(n, (ast.Global, ast.Nonlocal)):
            out |= set(n.names)
    for n in own_nodes(fn):
        if isinstance(n, FUNC) or isinstance(n, ast.Lambda):
            for x in ast.walk(n):
                if isinstance(x, ast.Name):
                    out.add(x.id)
    return out


def parents(fn) -> Dict[int, ast.AST]:
    out = {}
    for n in ast.walk(fn):
        for ch in ast.iter_child_nodes(n):
            out[id(ch)] = n
    return out


def names_in(fn, name: str):
    loads, stores = [], []
    for n in ast.walk(fn):
        if isinstance(n, ast.Name) and n.id == name:
            (loads if isinstance(n.ctx, ast.Load) else stores).append(n)
    return loads, stores


def bool_typed(e: ast.AST, bools: Set[str]) -> bool:
    if isinstance(e, ast.Constant):
        return isinstance(e.value, bool)
    if isinstance(e, ast.Compare):
        return True
    if isinstance(e, ast.UnaryOp) and isinstance(e.op, ast.Not):
        return True
    if isinstance(e, ast.BoolOp):
        return all(bool_typed(v, bools) for v in e.values)
    if isinstance(e, ast.IfExp):
        return bool_typed(e.body, bools) and bool_typed(e.orelse, bools)
    if isinstance(e, ast.Name):
        return e.id in bools
    if isinstance(e, ast.Call):
        if isinstance(e.func, ast.Name) and e.func.id in BOOL_FUNCS:
            return True
        if isinstance(e.func, ast.Attribute) and e.func.attr in BOOL_METHODS:
            return True
    return False


def plain_assign(st) -> Optional[str]:
    if isinstance(st, ast.Assign) and len(st.targets) == 1 and isinstance(st.targets[0], ast.Name):
        return st.targets[0].id
    return None


def boolean_locals(fn) -> Set[str]:
    par = params_of(fn) | escaping_names(fn)
    assigns: Dict[str, List[ast.AST]] = {}
    other_stores: Set[str] = set()
    claimed = set()
    for n in own_nodes(fn):
        t = plain_assign(n)
        if t is not None:
            assigns.setdefault(t, []).append(n.value)
            claimed.add(id(n.targets[0]))
    for n in own_nodes(fn):
        if isinstance(n, ast.Name) and isinstance(n.ctx, (ast.Store, ast.Del)) and id(n) not in claimed:
            other_stores.add(n.id)
    bools: Set[str] = set()
    for _ in range(4):
        new = {t for t, vs in assigns.items() if t not in par and t not in other_stores and all(bool_typed(v, bools) for v in vs)}
        if new == bools:
            break
        bools = new
    return bools


_FLIP = {ast.Eq: ast.NotEq, ast.NotEq: ast.Eq, ast.Is: ast.IsNot, ast.IsNot: ast.Is, ast.In: ast.NotIn, ast.NotIn: ast.In}


def neg(e: ast.AST) -> ast.AST:
    if isinstance(e, ast.UnaryOp) and isinstance(e.op, ast.Not):
        return e.operand
    if isinstance(e, ast.Compare) and len(e.ops) == 1 and type(e.ops[0]) in _FLIP:
        return ast.copy_location(ast.Compare(left=e.left, ops=[_FLIP[type(e.ops[0])]()], comparators=e.comparators), e)
    if isinstance(e, ast.Constant) and isinstance(e.value, bool):
        return ast.copy_location(ast.Constant(value=not e.value), e)
    return ast.copy_location(ast.UnaryOp(op=ast.Not(), operand=e), e)


_ALWAYS_OBJECTS = {"str", "int", "float", "bool", "list", "tuple", "dict", "set", "len", "repr", "round", "abs", "min", "max", "sorted"}


class _BoolCompare(ast.NodeTransformer):
    """S2: comparisons of a boolean with True / False, bool() of a boolean."""

    def __init__(self, bools, shadowed=frozenset()):
        self.bools = bools
        self.count = 0
        self.shadowed = shadowed

    def visit_FunctionDef(self, n):
        return n

    visit_AsyncFunctionDef = visit_ClassDef = visit_FunctionDef

    def visit_IfExp(self, n):
        self.generic_visit(n)
        if isinstance(n.test, ast.Constant) and isinstance(n.test.value, bool):
            self.count += 1
            return n.body if n.test.value else n.orelse
        return n

    def visit_Compare(self, n):
        self.generic_visit(n)
        if isinstance(n.left, ast.Constant) and all(isinstance(c, ast.Constant) for c in n.comparators):
            v = const_eval(n)
            if v is not _NOVALUE and isinstance(v, bool):
                self.count += 1
                return ast.copy_location(ast.Constant(value=v), n)      # `None is None`, `3 == 3`: decided
        if len(n.ops) == 1 and isinstance(n.left, ast.Name) and n.left.id in _ALWAYS_OBJECTS and n.left.id not in self.shadowed and isinstance(n.comparators[0], ast.Constant) \
                and n.comparators[0].value is None and isinstance(n.ops[0], (ast.Is, ast.IsNot)):
            self.count += 1
            return ast.copy_location(ast.Constant(value=isinstance(n.ops[0], ast.IsNot)), n)        # `str is None`: a builtin is never None
        if len(n.ops) == 1 and isinstance(n.comparators[0], ast.Constant) and isinstance(n.comparators[0].value, bool) and bool_typed(n.left, self.bools):
            c = n.comparators[0].value
            if isinstance(n.ops[0], (ast.Is, ast.Eq)):
                self.count += 1
                return n.left if c else neg(n.left)
            if isinstance(n.ops[0], (ast.IsNot, ast.NotEq)):
                self.count += 1
                return neg(n.left) if c else n.left
        return n

    def visit_Call(self, n):
        self.generic_visit(n)
        if isinstance(n.func, ast.Name) and n.func.id == "bool" and len(n.args) == 1 and not n.keywords and bool_typed(n.args[0], self.bools):
            self.count += 1
            return n.args[0]
        return n


def strip_bool_in_test(e: ast.AST) -> ast.AST:
    """bool(X) where only X's truth is asked."""
    if isinstance(e, ast.Call) and isinstance(e.func, ast.Name) and e.func.id == "bool" and len(e.args) == 1 and not e.keywords:
        return strip_bool_in_test(e.args[0])
    if isinstance(e, ast.UnaryOp) and isinstance(e.op, ast.Not):
        e.operand = strip_bool_in_test(e.operand)
        inner = e.operand
        if isinstance(inner, ast.UnaryOp) and isinstance(inner.op, ast.Not):
            return strip_bool_in_test(inner.operand)        # not not x: the same truth value
        if isinstance(inner, ast.Compare) and len(inner.ops) == 1 and type(inner.ops[0]) in _FLIP:
            return neg(inner)
    elif isinstance(e, ast.BoolOp):
        e.values = [strip_bool_in_test(v) for v in e.values]
    return e


def int_flags(fn) -> int:
    """S3: a local only ever assigned the constants 0 / 1 and only read in `flag == 0|1`, `flag != 0|1`, `if flag`, `not flag`."""
    par = params_of(fn) | escaping_names(fn)
    up = parents(fn)
    cands: Dict[str, List[ast.Assign]] = {}
    bad: Set[str] = set()
    claimed = set()
    for n in own_nodes(fn):
        t = plain_assign(n)
        if t is not None and isinstance(n.value, ast.Constant) and type(n.value.value) is int and n.value.value in (0, 1):
            cands.setdefault(t, []).append(n)
            claimed.add(id(n.targets[0]))
    for n in own_nodes(fn):
        if isinstance(n, ast.Name) and isinstance(n.ctx, (ast.Store, ast.Del)) and id(n) not in claimed:
            bad.add(n.id)
    count = 0
    for name, sts in cands.items():
        if name in par or name in bad:
            continue
        loads, _ = names_in(fn, name)
        plan = []
        ok = True
        for ld in loads:
            p = up.get(id(ld))
            if isinstance(p, ast.Compare) and p.left is ld and len(p.ops) == 1 and isinstance(p.comparators[0], ast.Constant) and type(p.comparators[0].value) is int \
                    and p.comparators[0].value in (0, 1) and isinstance(p.ops[0], (ast.Eq, ast.NotEq)):
                plan.append((p, ld, (p.comparators[0].value == 1) == isinstance(p.ops[0], ast.Eq)))
            elif isinstance(p, (ast.If, ast.While, ast.IfExp)) and p.test is ld:
                continue
            elif isinstance(p, ast.UnaryOp) and isinstance(p.op, ast.Not):
                continue
            else:
                ok = False
                break
        if not ok or not loads:
            continue
        for st in sts:
            st.value = ast.copy_location(ast.Constant(value=bool(st.value.value)), st.value)
        for cmp_node, ld, positive in plan:
            new = ld if positive else ast.copy_location(ast.UnaryOp(op=ast.Not(), operand=ld), ld)
            replace_child(up.get(id(cmp_node)), cmp_node, new)
            up[id(new)] = up.get(id(cmp_node))
        count += 1
    return count


def replace_child(parent: ast.AST, old: ast.AST, new: ast.AST) -> bool:
    if parent is None:
        return False
    for fld, val in ast.iter_fields(parent):
        if val is old:
            setattr(parent, fld, new)
            return True
        if isinstance(val, list):
            for i, x in enumerate(val):
                if x is old:
                    val[i] = new
                    return True
    return False


# ------------------------------------------------------------------------------------------------ evaluation order
IMPURE = (ast.Call, ast.Await, ast.Yield, ast.YieldFrom, ast.NamedExpr)


def evaluated_first(header: ast.AST, load: ast.AST) -> bool:
    """Is `load` evaluated unconditionally, before any call of `header` completes?"""
    state = {"found": False, "ok": False, "dirty": False}

    def walk(e, cond):
        if state["found"]:
            return
        if e is load:
            state["found"] = True
            state["ok"] = not cond and not state["dirty"]
            return
        if isinstance(e, ast.BoolOp):
            for i, v in enumerate(e.values):
                walk(v, cond or i > 0)
            return
        if isinstance(e, ast.IfExp):
            walk(e.test, cond)
            walk(e.body, True)
            walk(e.orelse, True)
            return
        if isinstance(e, ast.Compare):
            walk(e.left, cond)
            for i, c in enumerate(e.comparators):
                walk(c, cond or i > 0)
            return
        if isinstance(e, (ast.Lambda, ast.ListComp, ast.SetComp, ast.DictComp, ast.GeneratorExp)):
            if isinstance(e, ast.Lambda):
                walk(e.body, True)
            else:
                walk(e.generators[0].iter, cond)
                if not state["found"]:
                    for ch in ast.walk(e):
                        if ch is load:
                            state["found"] = True
                            state["ok"] = False
            return
        for ch in ast.iter_child_nodes(e):
            if isinstance(ch, ast.expr):
                walk(ch, cond)
            elif isinstance(ch, ast.keyword):
                walk(ch.value, cond)
        if isinstance(e, IMPURE) and not state["found"]:
            if isinstance(e, ast.Call) and isinstance(e.func, ast.Name) and e.func.id == "globals" and not e.args and not e.keywords:
                return
            if isinstance(e, ast.Call) and isinstance(e.func, (ast.Name, ast.Attribute)) and (e.func.id if isinstance(e.func, ast.Name) else e.func.attr) in ("itemgetter", "attrgetter", "methodcaller", "partial") \
                    and all(_simple(x) for x in e.args) and all(_simple(k.value) for k in e.keywords):
                return      # building a getter / partial application of plain values runs no user code
            state["dirty"] = True

    walk(header, False)
    return state["found"] and state["ok"]


def header_of(st: ast.stmt) -> Optional[ast.AST]:
    if isinstance(st, ast.If):
        return st.test
    if isinstance(st, ast.For) and isinstance(st.target, ast.Name):
        return st.iter
    if isinstance(st, (ast.Return, ast.Expr)) and st.value is not None:
        return st.value
    if isinstance(st, ast.Assign) and all(isinstance(t, ast.Name) for t in st.targets):
        return st.value
    if isinstance(st, ast.Assign) and len(st.targets) == 1 and isinstance(st.targets[0], ast.Attribute) and isinstance(st.targets[0].value, ast.Name):
        return st.value
    return None


# ------------------------------------------------------------------------------------------------ S6 flag trees
def ite(t: ast.AST, a: ast.AST, b: ast.AST, bools) -> ast.AST:
    def const(e, v):
        return isinstance(e, ast.Constant) and e.value is v
    tb = bool_typed(t, bools)
    if const(a, True) and const(b, False):
        return t if tb else ast.Call(func=ast.Name(id="bool", ctx=ast.Load()), args=[t], keywords=[])
    if const(a, False) and const(b, True):
        return neg(t)
    if const(a, True) and const(b, True):
        return None
    if tb:
        if const(a, True):
            return ast.BoolOp(op=ast.Or(), values=[t, b])
        if const(b, False):
            return ast.BoolOp(op=ast.And(), values=[t, a])
        if const(a, False):
            return ast.BoolOp(op=ast.And(), values=[neg(t), b])
        if const(b, True):
            return ast.BoolOp(op=ast.Or(), values=[neg(t), a])
    return ast.IfExp(test=t, body=a, orelse=b)


def flag_tree_value(stmts: List[ast.stmt], name: str, cur: Optional[ast.AST], bools) -> Optional[ast.AST]:
    """Value of `name` after stmts (an if-tree whose leaves only assign boolean expressions to it), None when not of that shape."""
    for st in stmts:
        if isinstance(st, ast.Pass):
            continue
        if plain_assign(st) == name:
            if not (bool_typed(st.value, bools | {name}) or const_branches(st.value)) or any(isinstance(n, ast.Name) and n.id == name for n in ast.walk(st.value)):
                return None
            cur = st.value
            continue
        if isinstance(st, ast.If):
            if any(isinstance(n, ast.Name) and n.id == name for n in ast.walk(st.test)):
                return None
            if cur is not None and not isinstance(cur, (ast.Constant, ast.Name)):
                return None         # the value so far would be evaluated in both branches
            a = flag_tree_value(st.body, name, copy.deepcopy(cur) if cur is not None else None, bools)
            b = flag_tree_value(st.orelse, name, copy.deepcopy(cur) if cur is not None else None, bools)
            if a is None or b is None:
                return None
            cur = ite(st.test, a, b, bools)
            if cur is None:
                return None
            continue
        return None
    return cur


def chain_comparisons(e: ast.AST) -> ast.AST:
    """`a <= v and v <= b`  ->  `a <= v <= b`  (v a plain name: reading it once or twice is the same)."""
    if isinstance(e, ast.BoolOp) and isinstance(e.op, ast.And):
        vals = list(e.values)
        k = 0
        while k + 1 < len(vals):
            x, y = vals[k], vals[k + 1]
            if isinstance(x, ast.Compare) and isinstance(y, ast.Compare) and isinstance(x.comparators[-1], ast.Name) and isinstance(y.left, ast.Name) \
                    and x.comparators[-1].id == y.left.id and all(isinstance(o, (ast.Lt, ast.LtE)) for o in x.ops + y.ops) or \
                    isinstance(x, ast.Compare) and isinstance(y, ast.Compare) and isinstance(x.comparators[-1], ast.Name) and isinstance(y.left, ast.Name) \
                    and x.comparators[-1].id == y.left.id and all(isinstance(o, (ast.Gt, ast.GtE)) for o in x.ops + y.ops):
                vals[k:k + 2] = [ast.copy_location(ast.Compare(left=x.left, ops=x.ops + y.ops, comparators=x.comparators + y.comparators), x)]
                continue
            k += 1
        if len(vals) == 1:
            return vals[0]
        e.values = vals
    return e


def flatten_boolop(e: ast.AST) -> ast.AST:
    if isinstance(e, ast.BoolOp):
        vals = []
        for v in e.values:
            v = flatten_boolop(v)
            if isinstance(v, ast.BoolOp) and type(v.op) is type(e.op):
                vals.extend(v.values)
            else:
                vals.append(v)
        e.values = vals
    return e


# ------------------------------------------------------------------------------------------------ S8 / T1
def flag_search(st: ast.For, known: Dict[str, bool], esc) -> Optional[ast.stmt]:
    """`flag = any(...)` / `flag = all(...)` for a loop that only flips one flag (of known value) at the first element passing a test."""
    if st.orelse or not isinstance(st.target, ast.Name) or st.target.id in esc:
        return None
    tests, flag = [], None
    for b in st.body:
        if isinstance(b, ast.If) and not b.orelse and len(b.body) == 2 and plain_assign(b.body[0]) and isinstance(b.body[0].value, ast.Constant) \
                and isinstance(b.body[0].value.value, bool) and isinstance(b.body[1], ast.Break) \
                and not any(isinstance(x, (ast.NamedExpr, ast.Await, ast.Yield, ast.YieldFrom)) for x in ast.walk(b.test)):
            f = plain_assign(b.body[0])
            if flag not in (None, f) or f not in known or known[f] is b.body[0].value.value or f in esc:
                return None
            if any(isinstance(x, ast.Name) and x.id == f for x in ast.walk(b.test)):
                return None
            flag = f
            tests.append(b.test)
        else:
            return None
    if flag is None:
        return None
    start = known[flag]
    if start:       # flag stays True unless some element passes a test: all(not C ...)
        conds = [neg(t) for t in tests]
        cond = conds[0] if len(conds) == 1 else ast.BoolOp(op=ast.And(), values=conds)
        fname = "all"
    else:
        cond = tests[0] if len(tests) == 1 else ast.BoolOp(op=ast.Or(), values=tests)
        fname = "any"
    gen = ast.GeneratorExp(elt=cond, generators=[ast.comprehension(target=st.target, iter=st.iter, ifs=[], is_async=0)])
    new = ast.copy_location(ast.Assign(targets=[ast.Name(id=flag, ctx=ast.Store())], value=ast.Call(func=ast.Name(id=fname, ctx=ast.Load()), args=[gen], keywords=[])), st)
    ast.fix_missing_locations(new)
    return new


def fold_known_flags(fn: ast.AST) -> int:
    """S8: `f = True ; ... ; if f: A else: B` with nothing in between assigning f  ->  `f = True ; ... ; A`."""
    esc = escaping_names(fn) | params_of(fn)
    count = [0]

    def stored(st) -> Set[str]:
        return {n.id for n in ast.walk(st) if isinstance(n, ast.Name) and isinstance(n.ctx, (ast.Store, ast.Del))} | \
            {h.name for h in ast.walk(st) if isinstance(h, ast.ExceptHandler) and h.name}

    def value_of(e, known):
        """True / False when the test is decided by the known flags, else None."""
        if isinstance(e, ast.Name) and e.id in known:
            return known[e.id]
        if isinstance(e, ast.UnaryOp) and isinstance(e.op, ast.Not):
            v = value_of(e.operand, known)
            return None if v is None else not v
        return None

    def simplify_test(e, known):
        if isinstance(e, ast.BoolOp):
            unit = isinstance(e.op, ast.And)
            vals = []
            for v in e.values:
                k = value_of(v, known)
                if k is None:
                    vals.append(simplify_test(v, known))
                elif k is unit:
                    count[0] += 1
                    continue
                else:
                    vals.append(ast.copy_location(ast.Constant(value=k), v))
                    break
            if not vals:
                return ast.copy_location(ast.Constant(value=unit), e)
            if len(vals) == 1:
                return vals[0]
            e.values = vals
        return e

    class IndexSubst(ast.NodeTransformer):
        def __init__(self, consts):
            self.consts = consts
            self.n = 0

        def visit_Subscript(self, n):
            self.generic_visit(n)
            if isinstance(n.ctx, ast.Load) and isinstance(n.slice, ast.Name) and n.slice.id in self.consts:
                n.slice = ast.copy_location(ast.Constant(value=self.consts[n.slice.id]), n.slice)
                self.n += 1
            return n

    def block(stmts, known: Dict[str, bool], consts: Optional[Dict[str, object]] = None):
        out = []
        known = dict(known)
        consts = {}      # integer / string constants just assigned in this block (used to resolve table[idx])
        for st in stmts:
            if isinstance(st, FUNC):
                out.append(st)
                continue
            if known and isinstance(st, ast.Return) and st.value is not None:
                class _Flags(ast.NodeTransformer):
                    def visit_Lambda(self, n):
                        return n

                    def visit_Name(self, n):
                        if isinstance(n.ctx, ast.Load) and n.id in known:
                            count[0] += 1
                            return ast.copy_location(ast.Constant(value=known[n.id]), n)
                        return n
                st.value = _Flags().visit(st.value)
            if consts and isinstance(st, (ast.Return, ast.Assign, ast.Expr)) and not (stored(st) & set(consts)):
                tr = IndexSubst(consts)
                tr.visit(st)
                count[0] += tr.n
            for nm in stored(st):
                consts.pop(nm, None)
            if not isinstance(st, (ast.Return, ast.Assign, ast.Expr, ast.Pass, ast.AugAssign)):
                consts.clear()
            t0 = plain_assign(st)
            if t0 and t0 not in esc and isinstance(st.value, ast.Constant) and type(st.value.value) in (int, str):
                consts[t0] = st.value.value
            if isinstance(st, ast.If):
                st.test = simplify_test(st.test, known)
                v = value_of(st.test, known)
                if v is None and isinstance(st.test, ast.Constant) and isinstance(st.test.value, bool):
                    v = st.test.value
                if v is not None:
                    count[0] += 1
                    taken = st.body if v else st.orelse
                    new = block(taken, known)
                    out.extend(new)
                    for x in new:
                        for nm in stored(x):
                            known.pop(nm, None)
                    for x in new:
                        t = plain_assign(x)
                        if t and t not in esc and isinstance(x.value, ast.Constant) and isinstance(x.value.value, bool):
                            known[t] = x.value.value
                    continue
                st.body = block(st.body, known)
                st.orelse = block(st.orelse, known) if st.orelse else []
            elif isinstance(st, ast.For) and flag_search(st, known, esc) is not None:
                # L6 with the flag's value known at the loop:  for x in xs: if C: flag = <other>; break   ->   flag = any(C ...) / all(not C ...)
                st = flag_search(st, known, esc)
                count[0] += 1
                for nm in stored(st):
                    known.pop(nm, None)
                out.append(st)
                continue
            elif isinstance(st, (ast.For, ast.While, ast.AsyncFor)):
                inner = {k: v for k, v in known.items() if k not in stored(st)}
                st.body = block(st.body, inner)
                st.orelse = block(st.orelse, inner) if st.orelse else []
            elif isinstance(st, ast.Try):
                inner = {k: v for k, v in known.items() if k not in stored(st)}
                st.body = block(st.body, known)
                for h in st.handlers:
                    h.body = block(h.body, inner)
                st.orelse = block(st.orelse, inner) if st.orelse else []
                st.finalbody = block(st.finalbody, inner) if st.finalbody else []
            elif isinstance(st, (ast.With, ast.AsyncWith)):
                st.body = block(st.body, known)
            for nm in stored(st):
                known.pop(nm, None)
            t = plain_assign(st)
            if t and t not in esc and isinstance(st.value, ast.Constant) and isinstance(st.value.value, bool):
                known[t] = st.value.value
            out.append(st)
        return out
    fn.body = block(fn.body, {}) or [ast.Pass()]
    return count[0]


def drop_dead_stores(fn: ast.AST) -> int:
    """S9: `flag = <constant>` directly before a return / raise that does not read it (and that no handler can see)."""
    esc = escaping_names(fn) | params_of(fn)
    seen_by_handlers = set()
    for n in ast.walk(fn):
        if isinstance(n, ast.Try):
            for part in [x for h in n.handlers for x in h.body] + list(n.finalbody):
                seen_by_handlers |= {x.id for x in ast.walk(part) if isinstance(x, ast.Name)}
    count = [0]

    def block(stmts):
        stmts = list(stmts)
        for st in stmts:
            if isinstance(st, FUNC):
                continue
            for fld in ("body", "orelse", "finalbody"):
                if getattr(st, fld, None):
                    setattr(st, fld, block(getattr(st, fld)))
            for h in getattr(st, "handlers", []) or []:
                h.body = block(h.body)
        if stmts and isinstance(stmts[-1], (ast.Return, ast.Raise)):
            read = {x.id for x in ast.walk(stmts[-1]) if isinstance(x, ast.Name)}
            k = len(stmts) - 2
            keep = []
            while k >= 0:
                st = stmts[k]
                t = plain_assign(st)
                if t is None or not isinstance(st.value, (ast.Constant, ast.Name)):
                    break
                if t in read or t in esc or t in seen_by_handlers:
                    keep.append(st)
                    read |= {x.id for x in ast.walk(st.value) if isinstance(x, ast.Name)}
                else:
                    count[0] += 1
                k -= 1
            stmts = stmts[:k + 1] + list(reversed(keep)) + [stmts[-1]]
        return stmts
    fn.body = block(fn.body)
    return count[0]


def drop_unused_locals(fn: ast.AST) -> int:
    """S11: `name = <constant / display of constants / plain name>` where name is never read anywhere in the function."""
    from .normalize import is_const_expr
    esc = escaping_names(fn) | params_of(fn)
    loaded = {n.id for n in ast.walk(fn) if isinstance(n, ast.Name) and isinstance(n.ctx, ast.Load)}
    if any(isinstance(n, ast.Call) and isinstance(n.func, ast.Name) and n.func.id in ("locals", "vars", "eval", "exec") for n in ast.walk(fn)):
        return 0
    count = [0]

    def block(stmts):
        out = []
        for st in stmts:
            if isinstance(st, FUNC):
                out.append(st)
                continue
            for fld in ("body", "orelse", "finalbody"):
                if getattr(st, fld, None):
                    setattr(st, fld, block(getattr(st, fld)) or [ast.Pass()])
            for h in getattr(st, "handlers", []) or []:
                h.body = block(h.body) or [ast.Pass()]
            t = plain_assign(st)
            if t and t not in esc and t not in loaded and (is_const_expr(st.value) or isinstance(st.value, ast.Name)):
                count[0] += 1
                continue
            out.append(st)
        return out
    fn.body = block(fn.body) or [ast.Pass()]
    return count[0]


def _leaves(stmts) -> bool:
    """Control never falls off the end of stmts (return / raise / continue / break on every path)."""
    for st in stmts:
        if isinstance(st, (ast.Return, ast.Raise, ast.Continue, ast.Break)):
            return True
        if isinstance(st, ast.If) and st.orelse and _leaves(st.body) and _leaves(st.orelse):
            return True
    return False


def _always_leaves(stmts) -> bool:
    for st in stmts:
        if isinstance(st, (ast.Return, ast.Raise)):
            return True
        if isinstance(st, ast.If) and st.orelse and _always_leaves(st.body) and _always_leaves(st.orelse):
            return True
    return False


def sink_loop_exit(fn: ast.AST) -> int:
    """T1: a loop followed by a short tail that always returns: every `break` of the loop is replaced by a copy of the tail
    (break jumps exactly there). Flags that only tell the tail how the loop was left then fold away (S8)."""
    count = [0]

    def replace_breaks(stmts, tail):
        out = []
        for st in stmts:
            if isinstance(st, ast.Break):
                out.extend(copy.deepcopy(tail))
                continue
            if isinstance(st, FUNC) or isinstance(st, (ast.For, ast.While, ast.AsyncFor)):
                out.append(st)
                continue
            for fld in ("body", "orelse", "finalbody"):
                if getattr(st, fld, None):
                    setattr(st, fld, replace_breaks(getattr(st, fld), tail))
            for h in getattr(st, "handlers", []) or []:
                h.body = replace_breaks(h.body, tail)
            out.append(st)
        return out

    def block(stmts):
        stmts = list(stmts)
        for i, st in enumerate(stmts):
            if isinstance(st, FUNC):
                continue
            for fld in ("body", "orelse", "finalbody"):
                if getattr(st, fld, None):
                    setattr(st, fld, block(getattr(st, fld)))
            for h in getattr(st, "handlers", []) or []:
                h.body = block(h.body)
            if isinstance(st, (ast.For, ast.While)) and not st.orelse:
                tail = stmts[i + 1:]
                brk = own_jumps(st.body, (ast.Break,))
                in_try = any(isinstance(x, ast.Try) and any(isinstance(y, ast.Break) for y in ast.walk(x)) for x in ast.walk(st))
                size = sum(1 for x in tail for _ in ast.walk(x))
                flags = set()
                for t in tail:
                    if isinstance(t, ast.If):
                        e = t.test.operand if isinstance(t.test, ast.UnaryOp) and isinstance(t.test.op, ast.Not) else t.test
                        if isinstance(e, ast.Name):
                            flags.add(e.id)

                def flagged(ss) -> bool:
                    """every break of the loop directly follows `flag = <constant>` for a flag the tail tests"""
                    for k, x in enumerate(ss):
                        if isinstance(x, ast.Break):
                            j, hit = k - 1, False
                            while j >= 0 and plain_assign(ss[j]):
                                if plain_assign(ss[j]) in flags and isinstance(ss[j].value, ast.Constant):
                                    hit = True
                                j -= 1
                            if not hit:
                                return False
                        elif isinstance(x, FUNC) or isinstance(x, (ast.For, ast.While, ast.AsyncFor)):
                            continue
                        else:
                            for fld in ("body", "orelse", "finalbody"):
                                if getattr(x, fld, None) and not flagged(getattr(x, fld)):
                                    return False
                            for h in getattr(x, "handlers", []) or []:
                                if not flagged(h.body):
                                    return False
                    return True
                lone_return = len(tail) == 1 and isinstance(tail[0], ast.Return) and size <= 40     # `break` then nothing but `return E`: the break is that return
                if tail and (flags or lone_return) and 1 <= len(brk) <= 4 and not in_try and _always_leaves(tail) and size <= 80 and not any(isinstance(x, FUNC) for t in tail for x in ast.walk(t)) \
                        and (lone_return or flagged(st.body)):
                    st.body = replace_breaks(st.body, tail)
                    count[0] += 1
        return stmts
    fn.body = block(fn.body)
    if count[0]:
        ast.fix_missing_locations(fn)
    return count[0]


# ------------------------------------------------------------------------------------------------ the statement-level pass
def simplify_defensive(fn: ast.AST) -> int:
    if not isinstance(fn, (ast.FunctionDef, ast.AsyncFunctionDef)):
        return 0
    had = id(fn) in _ESC_CACHE
    if not had:
        _ESC_CACHE[id(fn)] = escaping_names(fn)      # (nested functions and global declarations are not touched by these rewrites)
    try:
        return _simplify_defensive(fn)
    finally:
        if not had:
            _ESC_CACHE.pop(id(fn), None)


def _simplify_defensive(fn: ast.AST) -> int:
    total = 0
    for _round in range(6):
        count = [0]
        count[0] += int_flags(fn)
        count[0] += drop_dead_stores(fn)
        count[0] += drop_unused_locals(fn)
        count[0] += fold_known_flags(fn)
        bools = boolean_locals(fn)
        tr = _BoolCompare(bools, {n.id for n in ast.walk(fn) if isinstance(n, ast.Name) and isinstance(n.ctx, (ast.Store, ast.Del))} | params_of(fn))
        for i, st in enumerate(fn.body):
            fn.body[i] = tr.visit(st)
        count[0] += tr.count
        for node in list(ast.walk(fn)):
            if isinstance(node, ast.BoolOp) and isinstance(node.op, ast.And) and len(node.values) >= 2:
                before = len(node.values)
                r = chain_comparisons(node)
                if r is not node:
                    replace_child(parents(fn).get(id(node)), node, r)
                    count[0] += 1
                elif len(node.values) != before:
                    count[0] += 1
        par = params_of(fn) | escaping_names(fn)
        all_names = [n for n in ast.walk(fn) if isinstance(n, ast.Name)]

        def uses(name):
            return (sum(1 for n in all_names if n.id == name and isinstance(n.ctx, ast.Load)),
                    sum(1 for n in all_names if n.id == name and isinstance(n.ctx, (ast.Store, ast.Del))))

        # temporaries every read of which directly follows its own assignment (same block, next statement, read once there):
        # each such assignment/read pair can be joined on its own, however many pairs share the name
        adjacent: Dict[str, bool] = {}

        def survey(stmts):
            for k, st in enumerate(stmts):
                if isinstance(st, FUNC):
                    for n in ast.walk(st):
                        if isinstance(n, ast.Name):
                            adjacent[n.id] = False
                    continue
                hdr_nodes = []
                if isinstance(st, (ast.If, ast.While)):
                    hdr_nodes = [st.test]
                elif isinstance(st, (ast.For, ast.AsyncFor)):
                    hdr_nodes = [st.iter, st.target]
                elif isinstance(st, (ast.With, ast.AsyncWith)):
                    hdr_nodes = [x for it in st.items for x in (it.context_expr, it.optional_vars) if x is not None]
                elif isinstance(st, ast.Try):
                    hdr_nodes = [h.type for h in st.handlers if h.type is not None]
                elif isinstance(st, ast.Match):
                    hdr_nodes = [st.subject] + [c.guard for c in st.cases if c.guard is not None]
                else:
                    hdr_nodes = [st]
                prev = plain_assign(stmts[k - 1]) if k > 0 else None
                seen_here: Dict[str, int] = {}
                for h in hdr_nodes:
                    for n in ast.walk(h):
                        if isinstance(n, ast.Name) and isinstance(n.ctx, ast.Load):
                            seen_here[n.id] = seen_here.get(n.id, 0) + 1
                for nm, cnt in seen_here.items():
                    if nm != prev or cnt != 1:
                        adjacent[nm] = False
                    else:
                        adjacent.setdefault(nm, True)
                for fld in ("body", "orelse", "finalbody"):
                    if getattr(st, fld, None):
                        survey(getattr(st, fld))
                for h in getattr(st, "handlers", []) or []:
                    survey(h.body)
                if isinstance(st, ast.Match):
                    for c in st.cases:
                        survey(c.body)
        survey(fn.body)
        for n in ast.walk(fn):
            if isinstance(n, ast.Name) and isinstance(n.ctx, (ast.Store, ast.Del)):
                pass
        # every store of such a temporary must be a plain assignment
        claimed = {id(st.targets[0]) for st in own_nodes(fn) if plain_assign(st)}
        for n in own_nodes(fn):
            if isinstance(n, ast.Name) and isinstance(n.ctx, (ast.Store, ast.Del)) and id(n) not in claimed:
                adjacent[n.id] = False

        def block(stmts):
            out: List[ast.stmt] = []
            stmts = list(stmts)
            i = 0
            while i < len(stmts):
                st = stmts[i]
                if isinstance(st, FUNC):
                    out.append(st)
                    i += 1
                    continue
                for fld in ("body", "orelse", "finalbody"):
                    if getattr(st, fld, None):
                        setattr(st, fld, block(getattr(st, fld)))
                for h in getattr(st, "handlers", []) or []:
                    h.body = block(h.body)
                if isinstance(st, ast.Match):
                    for c in st.cases:
                        c.body = block(c.body)
                # S4
                if isinstance(st, ast.Pass) and (len(stmts) > 1):
                    count[0] += 1
                    i += 1
                    continue
                if isinstance(st, ast.If):
                    st.test = strip_bool_in_test(st.test)
                    if st.orelse and all(isinstance(x, ast.Pass) for x in st.orelse):
                        st.orelse = []
                        count[0] += 1
                    if st.orelse and all(isinstance(x, ast.Pass) for x in st.body):
                        st.test, st.body, st.orelse = neg(st.test), st.orelse, []
                        count[0] += 1
                    # S7
                    if not st.orelse and len(st.body) == 1 and isinstance(st.body[0], ast.If) and not st.body[0].orelse \
                            and not any(isinstance(x, ast.NamedExpr) for x in ast.walk(st.body[0].test)):
                        inner = st.body[0]
                        st.test = chain_comparisons(flatten_boolop(ast.copy_location(ast.BoolOp(op=ast.And(), values=[st.test, inner.test]), st.test)))
                        st.body = inner.body
                        count[0] += 1
                if isinstance(st, ast.While):
                    st.test = strip_bool_in_test(st.test)
                # S12  if A: ...return  else: REST   ->   if A: ...return ; REST
                if isinstance(st, ast.If) and st.orelse and _leaves(st.body):
                    rest = st.orelse
                    st.orelse = []
                    stmts[i + 1:i + 1] = rest
                    count[0] += 1
                # S1
                if isinstance(st, ast.Try) and st.handlers and not st.finalbody and all(len(h.body) == 1 and isinstance(h.body[0], ast.Raise) and h.body[0].exc is None for h in st.handlers):
                    count[0] += 1
                    stmts[i:i + 1] = list(st.body) + list(st.orelse)
                    continue
                # S6
                if isinstance(st, ast.If):
                    flag = None
                    prev = out[-1] if out else None
                    pname = plain_assign(prev) if prev is not None else None
                    targets = {plain_assign(x) for x in ast.walk(st) if isinstance(x, ast.Assign)}
                    if len(targets) == 1 and None not in targets:
                        flag = next(iter(targets))
                    if flag is not None and flag not in par:
                        start = None
                        if pname == flag and isinstance(prev.value, ast.Constant) or (pname == flag and bool_typed(prev.value, bools) and isinstance(prev.value, ast.Name)):
                            start = prev.value
                        val = flag_tree_value([st], flag, copy.deepcopy(start) if start is not None else None, bools | {flag})
                        if val is not None:
                            new = ast.copy_location(ast.Assign(targets=[ast.Name(id=flag, ctx=ast.Store())], value=flatten_boolop(val)), st)
                            ast.fix_missing_locations(new)
                            if start is not None:
                                out.pop()
                            stmts[i] = new
                            count[0] += 1
                            continue
                # S22  if F: A ; if not F or C: LEAVE   ->   if not F: LEAVE ; A ; if C: LEAVE      (F a plain flag that A does not assign)
                if isinstance(st, ast.If) and not st.orelse and _leaves(st.body) and out and isinstance(out[-1], ast.If) and not out[-1].orelse and isinstance(out[-1].test, ast.Name) \
                        and isinstance(st.test, ast.BoolOp) and isinstance(st.test.op, ast.Or) and len(st.test.values) >= 2 and isinstance(st.test.values[0], ast.UnaryOp) \
                        and isinstance(st.test.values[0].op, ast.Not) and isinstance(st.test.values[0].operand, ast.Name) and st.test.values[0].operand.id == out[-1].test.id \
                        and not stores_in(out[-1].body, out[-1].test.id) and not _leaves(out[-1].body) and out[-1].test.id not in par:
                    first = out.pop()
                    guard = ast.copy_location(ast.If(test=ast.UnaryOp(op=ast.Not(), operand=ast.Name(id=first.test.id, ctx=ast.Load())), body=copy.deepcopy(st.body), orelse=[]), first)
                    rest_test = st.test.values[1] if len(st.test.values) == 2 else ast.BoolOp(op=ast.Or(), values=st.test.values[1:])
                    st.test = rest_test
                    new_seq = [guard] + list(first.body) + [st]
                    for x in new_seq:
                        ast.fix_missing_locations(x)
                    stmts[i:i + 1] = new_seq
                    count[0] += 1
                    continue
                # S19  x = <constant> ; if C: x = E   ->   if C: x = E / else: x = <constant>     (a default that is overridden: each value under its own condition)
                if isinstance(st, ast.If) and not st.orelse and out and plain_assign(out[-1]) is not None and isinstance(out[-1].value, (ast.Constant, ast.Tuple)) \
                        and all(isinstance(x, ast.Constant) for x in (out[-1].value.elts if isinstance(out[-1].value, ast.Tuple) else [out[-1].value])):
                    xn = plain_assign(out[-1])
                    assigned_here = [x for x in ast.walk(st) if isinstance(x, ast.Name) and x.id == xn and isinstance(x.ctx, (ast.Store, ast.Del))]
                    reads_here = [x for x in ast.walk(st) if isinstance(x, ast.Name) and x.id == xn and isinstance(x.ctx, ast.Load)]
                    direct = [b for b in st.body if plain_assign(b) == xn]
                    if xn not in par and not reads_here and len(assigned_here) == 1 and len(direct) == 1 and st.body[-1] is direct[0] \
                            and not isinstance(direct[0].value, ast.Constant) and not isinstance(out[-1].value.value if isinstance(out[-1].value, ast.Constant) else None, bool):
                        st.orelse = [out.pop()]
                        count[0] += 1
                # M1  v = A ; if B < v: v = B   ->   v = min(A, B)      (likewise max)
                if isinstance(st, ast.If) and not st.orelse and len(st.body) == 1 and out and plain_assign(out[-1]) is not None and plain_assign(st.body[0]) == plain_assign(out[-1]) \
                        and isinstance(st.test, ast.Compare) and len(st.test.ops) == 1 and isinstance(st.test.ops[0], (ast.Lt, ast.Gt)):
                    v = plain_assign(out[-1])
                    A, B = out[-1].value, st.body[0].value
                    l, r = st.test.left, st.test.comparators[0]
                    same = lambda x, y: ast.dump(x) == ast.dump(y)      # noqa: E731
                    is_v = lambda x: isinstance(x, ast.Name) and x.id == v      # noqa: E731
                    kind = None
                    if same(l, B) and is_v(r):
                        kind = "min" if isinstance(st.test.ops[0], ast.Lt) else "max"
                    elif is_v(l) and same(r, B):
                        kind = "min" if isinstance(st.test.ops[0], ast.Gt) else "max"
                    if kind and v not in par and isinstance(A, (ast.Name, ast.Constant)) and isinstance(B, (ast.Name, ast.Constant)) and not is_v(A) and not is_v(B):
                        out[-1].value = ast.copy_location(ast.Call(func=ast.Name(id=kind, ctx=ast.Load()), args=[A, B], keywords=[]), A)
                        ast.fix_missing_locations(out[-1])
                        count[0] += 1
                        stmts[i] = out.pop()
                        continue
                # S6b  f = A ; if not f [and B]: f = C   ->   f = A or ([B and] C)
                if isinstance(st, ast.If) and not st.orelse and len(st.body) == 1 and out and plain_assign(out[-1]) is not None and plain_assign(st.body[0]) == plain_assign(out[-1]):
                    fl = plain_assign(out[-1])
                    A, Cv = out[-1].value, st.body[0].value
                    tests = list(st.test.values) if isinstance(st.test, ast.BoolOp) and isinstance(st.test.op, ast.And) else [st.test]
                    first = tests[0]
                    is_not_f = isinstance(first, ast.UnaryOp) and isinstance(first.op, ast.Not) and isinstance(first.operand, ast.Name) and first.operand.id == fl

                    def mentions(e):
                        return any(isinstance(n, ast.Name) and n.id == fl for n in ast.walk(e))
                    if fl not in par and is_not_f and bool_typed(A, bools) and bool_typed(Cv, bools) and not mentions(Cv) and not any(mentions(x) for x in tests[1:]) \
                            and all(bool_typed(x, bools) for x in tests[1:]):
                        rhs = Cv if len(tests) == 1 else ast.BoolOp(op=ast.And(), values=tests[1:] + [Cv])
                        out[-1].value = flatten_boolop(ast.copy_location(ast.BoolOp(op=ast.Or(), values=[A, rhs]), A))
                        ast.fix_missing_locations(out[-1])
                        count[0] += 1
                        stmts[i] = out.pop()
                        continue
                # S5
                t = plain_assign(st)
                if t is not None and t not in par and i + 1 < len(stmts) and not isinstance(st.value, (ast.Yield, ast.YieldFrom, ast.Await)):
                    nxt = stmts[i + 1]
                    hdr = header_of(nxt)
                    if hdr is not None and (uses(t) == (1, 1) or adjacent.get(t)):
                        lds = [n for n in ast.walk(hdr) if isinstance(n, ast.Name) and n.id == t and isinstance(n.ctx, ast.Load)]
                        if len(lds) == 1 and evaluated_first(hdr, lds[0]):
                            if hdr is lds[0]:
                                for fld in ("test", "value", "iter"):
                                    if getattr(nxt, fld, None) is hdr:
                                        setattr(nxt, fld, st.value)
                            else:
                                up = parents(hdr)
                                replace_child(up.get(id(lds[0])), lds[0], st.value)
                            count[0] += 1
                            i += 1
                            continue
                out.append(st)
                i += 1
                if isinstance(st, (ast.Return, ast.Raise, ast.Continue, ast.Break)) and i < len(stmts):
                    count[0] += 1       # S13: nothing after it in this block can run
                    break
            return out or [ast.Pass()]
        fn.body = block(fn.body)
        total += count[0]
        if not count[0]:
            break
    if total:
        ast.fix_missing_locations(fn)
    return total


# ------------------------------------------------------------------------------------------------ loops
def own_jumps(stmts, kinds=(ast.Break, ast.Continue)):
    """break / continue statements that belong to the loop whose body is `stmts`."""
    out = []

    def walk(ss):
        for st in ss:
            if isinstance(st, kinds):
                out.append(st)
            if isinstance(st, FUNC) or isinstance(st, (ast.For, ast.While, ast.AsyncFor)):
                if isinstance(st, (ast.For, ast.While, ast.AsyncFor)):
                    walk(st.orelse)
                continue
            for fld in ("body", "orelse", "finalbody"):
                walk(getattr(st, fld, []) or [])
            for h in getattr(st, "handlers", []) or []:
                walk(h.body)
            if isinstance(st, ast.Match):
                for c in st.cases:
                    walk(c.body)
    walk(stmts)
    return out


def is_incr(st, name) -> bool:
    return isinstance(st, ast.AugAssign) and isinstance(st.op, ast.Add) and isinstance(st.target, ast.Name) and st.target.id == name \
        and isinstance(st.value, ast.Constant) and type(st.value.value) is int and st.value.value == 1


def stores_in(stmts, name) -> List[ast.AST]:
    out = []
    for st in stmts:
        for n in ast.walk(st):
            if isinstance(n, ast.Name) and n.id == name and isinstance(n.ctx, (ast.Store, ast.Del)):
                out.append(n)
    return out


def loads_in(stmts, name) -> List[ast.AST]:
    out = []
    for st in stmts:
        for n in ast.walk(st):
            if isinstance(n, ast.Name) and n.id == name and isinstance(n.ctx, ast.Load):
                out.append(n)
    return out


def increments_last(body: List[ast.stmt], name: str) -> Optional[List[ast.stmt]]:
    """The body with its `name += 1` statements removed, if every path through one iteration increments exactly once, as its last
    action (last statement of the body, and immediately before every `continue`); None otherwise."""
    if not body or not is_incr(body[-1], name):
        return None
    removed = [0]

    def strip(ss, top):
        out = []
        for k, st in enumerate(ss):
            if is_incr(st, name):
                last_of_body = top and k == len(ss) - 1
                before_continue = k + 1 < len(ss) and isinstance(ss[k + 1], ast.Continue)
                if not (last_of_body or before_continue):
                    raise ValueError
                removed[0] += 1
                continue
            if isinstance(st, ast.Continue) and not (k > 0 and is_incr(ss[k - 1], name)):
                raise ValueError
            if isinstance(st, FUNC) or isinstance(st, (ast.For, ast.While, ast.AsyncFor)):
                if stores_in([st], name):
                    raise ValueError
                out.append(st)
                continue
            for fld in ("body", "orelse", "finalbody"):
                if getattr(st, fld, None):
                    setattr(st, fld, strip(getattr(st, fld), False) or [ast.Pass()])
            for h in getattr(st, "handlers", []) or []:
                h.body = strip(h.body, False) or [ast.Pass()]
            out.append(st)
        return out
    trial = copy.deepcopy(body)
    try:
        new = strip(trial, True)
    except ValueError:
        return None
    if stores_in(new, name):
        return None
    return new or [ast.Pass()]


def increments_first(body: List[ast.stmt], name: str) -> Optional[List[ast.stmt]]:
    """`x = xs[i]; i += 1; rest` where rest never mentions i."""
    for k, st in enumerate(body[:3]):
        if is_incr(st, name):
            rest = body[k + 1:]
            if stores_in(body[:k], name) or stores_in(rest, name) or loads_in(rest, name):
                return None
            if any(not isinstance(x, (ast.Assign, ast.Expr)) for x in body[:k]):
                return None
            return body[:k] + rest
    return None


def read_elsewhere(fn, loop: ast.stmt, name: str, init: Optional[ast.stmt]) -> bool:
    """Could a read of `name` outside the loop see a value the loop (or its initialisation) left in it?"""
    from .cfg import build_cfg, node_exprs
    from .defuse import reaching_defs
    try:
        cfg = build_cfg(fn)
    except Exception:
        return True
    inside = {id(n) for n in ast.walk(loop)}
    if init is not None:
        inside |= {id(n) for n in ast.walk(init)}
    RD = reaching_defs(cfg, list(params_of(fn)))
    def_nodes = set()
    for node in cfg.nodes:
        a = node.ast
        if a is not None and (id(a) in inside or (node.kind == "bind" and id(getattr(a, "target", None)) in inside)):
            def_nodes.add(node.id)
    for node in cfg.nodes:
        for e in node_exprs(node):
            for n in ast.walk(e):
                if isinstance(n, ast.Name) and n.id == name and isinstance(n.ctx, ast.Load) and id(n) not in inside:
                    for (x, d) in RD.get(node.id) or ():
                        if x == name and d in def_nodes:
                            return True
    return False


def unchanged_sequence(body: List[ast.stmt], xs: str) -> bool:
    """`xs` is only indexed / measured in body: never rebound, never passed on, no method called on it."""
    if stores_in(body, xs):
        return False
    for st in body:
        up = parents(st)
        for n in ast.walk(st):
            if isinstance(n, ast.Name) and n.id == xs:
                p = up.get(id(n))
                if isinstance(p, ast.Subscript) and p.value is n and isinstance(p.ctx, ast.Load):
                    continue
                if isinstance(p, ast.Call) and isinstance(p.func, ast.Name) and p.func.id == "len" and p.args == [n]:
                    continue
                return False
    return True


def bound_ok(N: ast.AST, body: List[ast.stmt]) -> bool:
    if isinstance(N, ast.Constant) and type(N.value) is int:
        return True
    if isinstance(N, ast.Name):
        return not stores_in(body, N.id)
    if isinstance(N, ast.Call) and isinstance(N.func, ast.Name) and N.func.id == "len" and len(N.args) == 1 and isinstance(N.args[0], ast.Name) and not N.keywords:
        return unchanged_sequence(body, N.args[0].id)
    return False


def find_init(out: List[ast.stmt], name: str):
    """Index in `out` (the statements before the loop, same block) of `name = <int constant>` with nothing mentioning name after it."""
    for k in range(len(out) - 1, -1, -1):
        st = out[k]
        if plain_assign(st) == name and isinstance(st.value, ast.Constant) and type(st.value.value) is int:
            return k
        if any(isinstance(n, ast.Name) and n.id == name for n in ast.walk(st)) or isinstance(st, FUNC):
            return None
    return None


def length_source(fn, n_name: str, loop=None) -> Optional[str]:
    """xs when the local n_name is assigned exactly once, as len(xs), and xs is bound at most once in the function."""
    loads, stores = names_in(fn, n_name)
    defs = [st for st in own_nodes(fn) if plain_assign(st) == n_name]
    if len(stores) != 1 or len(defs) != 1:
        return None
    v = defs[0].value
    if isinstance(v, ast.Call) and isinstance(v.func, ast.Name) and v.func.id == "len" and len(v.args) == 1 and isinstance(v.args[0], ast.Name):
        xs = v.args[0].id
        if len(names_in(fn, xs)[1]) <= 1:
            return xs
        if loop is not None:
            from .normalize import _same_definitions
            uses = [x for x in ast.walk(loop) if isinstance(x, ast.Name) and x.id == xs and isinstance(x.ctx, ast.Load)]
            if uses and _same_definitions(fn, defs[0], uses, {xs}):
                return xs
    return None


def local_const_len(fn, xs: str) -> Optional[int]:
    """Length of the tuple / string display a local is bound to exactly once."""
    _, stores = names_in(fn, xs)
    defs = [st for st in own_nodes(fn) if plain_assign(st) == xs]
    if len(stores) != 1 or len(defs) != 1 or xs in params_of(fn):
        return None
    v = defs[0].value
    if isinstance(v, ast.Tuple) and not any(isinstance(e, ast.Starred) for e in v.elts):
        return len(v.elts)
    if isinstance(v, ast.Constant) and isinstance(v.value, str):
        return len(v.value)
    return None


def const_int(fn, e: ast.AST) -> Optional[int]:
    if isinstance(e, ast.Constant) and type(e.value) is int:
        return e.value
    if isinstance(e, ast.Name):
        _, stores = names_in(fn, e.id)
        defs = [st for st in own_nodes(fn) if plain_assign(st) == e.id]
        if len(stores) == 1 and len(defs) == 1 and e.id not in params_of(fn):
            v = defs[0].value
            if isinstance(v, ast.Constant) and type(v.value) is int:
                return v.value
            if isinstance(v, ast.Call) and isinstance(v.func, ast.Name) and v.func.id == "len" and len(v.args) == 1 and isinstance(v.args[0], ast.Name):
                return local_const_len(fn, v.args[0].id)
    if isinstance(e, ast.Call) and isinstance(e.func, ast.Name) and e.func.id == "len" and len(e.args) == 1 and isinstance(e.args[0], ast.Name) and not e.keywords:
        return local_const_len(fn, e.args[0].id)
    return None


def recover_loops(fn: ast.AST) -> int:
    if not isinstance(fn, (ast.FunctionDef, ast.AsyncFunctionDef)):
        return 0
    count = [0]
    esc = escaping_names(fn) | params_of(fn)

    def range_call(lo: int, hi: ast.AST) -> ast.AST:
        args = [hi] if lo == 0 else [ast.Constant(value=lo), hi]
        return ast.Call(func=ast.Name(id="range", ctx=ast.Load()), args=args, keywords=[])

    def block(stmts):
        out: List[ast.stmt] = []
        for st in list(stmts):
            if isinstance(st, FUNC):
                out.append(st)
                continue
            for fld in ("body", "orelse", "finalbody"):
                if getattr(st, fld, None):
                    setattr(st, fld, block(getattr(st, fld)))
            for h in getattr(st, "handlers", []) or []:
                h.body = block(h.body)
            # L10  for x in (A if c else B): BODY   ->   if c: for x in A: BODY / else: for x in B: BODY
            if isinstance(st, ast.For) and not st.orelse and isinstance(st.iter, ast.IfExp) and not own_jumps(st.body, (ast.Break,)) and sum(1 for _ in ast.walk(st)) <= 200:
                def split(it):
                    if isinstance(it, ast.IfExp):
                        return [ast.copy_location(ast.If(test=it.test, body=split(it.body), orelse=split(it.orelse)), st)]
                    return [ast.copy_location(ast.For(target=copy.deepcopy(st.target), iter=it, body=copy.deepcopy(st.body), orelse=[], type_comment=None), st)]
                new = block(split(st.iter))
                for x in new:
                    ast.fix_missing_locations(x)
                out.extend(new)
                count[0] += 1
                continue
            # L12  for x in (): BODY   ->   nothing
            if isinstance(st, ast.For) and not st.orelse and isinstance(st.iter, (ast.Tuple, ast.List)) and not st.iter.elts:
                count[0] += 1
                continue
            # L11  for x in (E for y in T if c): BODY   ->   for y in T: if c: x = E ; BODY
            if isinstance(st, ast.For) and not st.orelse and isinstance(st.iter, ast.GeneratorExp) and len(st.iter.generators) == 1 and not st.iter.generators[0].is_async \
                    and isinstance(st.target, ast.Name):
                g = st.iter.generators[0]
                inner_names = {t.id for t in ast.walk(g.target) if isinstance(t, ast.Name)}
                used_outside = any(isinstance(n, ast.Name) and n.id in inner_names and not any(n is y for y in ast.walk(st.iter)) for n in ast.walk(fn))
                if not used_outside or (isinstance(st.iter.elt, ast.Name) and isinstance(g.target, ast.Name) and st.iter.elt.id == g.target.id and g.target.id == st.target.id):
                    body = list(st.body)
                    if not (isinstance(st.iter.elt, ast.Name) and st.iter.elt.id == st.target.id and isinstance(g.target, ast.Name) and g.target.id == st.target.id):
                        body = [ast.copy_location(ast.Assign(targets=[ast.Name(id=st.target.id, ctx=ast.Store())], value=st.iter.elt), st)] + body
                    if g.ifs:
                        cond = g.ifs[0] if len(g.ifs) == 1 else ast.BoolOp(op=ast.And(), values=list(g.ifs))
                        body = [ast.copy_location(ast.If(test=cond, body=body, orelse=[]), st)]
                    new = ast.copy_location(ast.For(target=g.target, iter=g.iter, body=body, orelse=[], type_comment=None), st)
                    ast.fix_missing_locations(new)
                    st = new
                    count[0] += 1
            # L1 while-index loop
            if isinstance(st, ast.While) and not st.orelse and isinstance(st.test, ast.Compare) and len(st.test.ops) == 1 and isinstance(st.test.ops[0], ast.Lt) \
                    and isinstance(st.test.left, ast.Name) and st.test.left.id not in esc:
                v = st.test.left.id
                N = st.test.comparators[0]
                k = find_init(out, v)
                if k is not None and not any(isinstance(n, ast.Name) and n.id == v for n in ast.walk(N)):
                    new_body = increments_last(st.body, v)
                    if new_body is None:
                        new_body = increments_first(st.body, v)
                    if new_body is not None and bound_ok(N, new_body) and not read_elsewhere(fn, st, v, out[k]):
                        lo = out[k].value.value
                        loop = ast.copy_location(ast.For(target=ast.Name(id=v, ctx=ast.Store()), iter=range_call(lo, N), body=new_body, orelse=[], type_comment=None), st)
                        del out[k]
                        st = loop
                        count[0] += 1
            # L3 manual counter beside a for loop
            if isinstance(st, ast.For) and not st.orelse and st.body and isinstance(st.body[-1], ast.AugAssign) and isinstance(st.body[-1].target, ast.Name):
                v = st.body[-1].target.id
                k = find_init(out, v) if v not in esc else None
                if k is not None and is_incr(st.body[-1], v) and not any(isinstance(n, ast.Name) and n.id == v for n in ast.walk(st.iter)) \
                        and not any(isinstance(n, ast.Name) and n.id == v for n in ast.walk(st.target)):
                    new_body = increments_last(st.body, v)
                    if new_body is not None and not read_elsewhere(fn, st, v, out[k]):
                        lo = out[k].value.value
                        it = ast.Call(func=ast.Name(id="enumerate", ctx=ast.Load()), args=[st.iter] + ([ast.Constant(value=lo)] if lo else []), keywords=[])
                        st.target = ast.Tuple(elts=[ast.Name(id=v, ctx=ast.Store()), st.target], ctx=ast.Store())
                        st.iter = it
                        st.body = new_body
                        del out[k]
                        count[0] += 1
            # L2 index loop over a sequence
            if isinstance(st, ast.For) and not st.orelse and isinstance(st.target, ast.Name) and isinstance(st.iter, ast.Call) and isinstance(st.iter.func, ast.Name) \
                    and st.iter.func.id == "range" and not st.iter.keywords and 1 <= len(st.iter.args) <= 2 and st.target.id not in esc:
                v = st.target.id
                args = st.iter.args
                lo_ok = len(args) == 1 or (isinstance(args[0], ast.Constant) and args[0].value == 0)
                N = args[-1]
                xs = None
                if isinstance(N, ast.Call) and isinstance(N.func, ast.Name) and N.func.id == "len" and len(N.args) == 1 and isinstance(N.args[0], ast.Name):
                    xs = N.args[0].id
                elif isinstance(N, ast.Name):
                    xs = length_source(fn, N.id, st)
                if lo_ok and xs is not None and not stores_in(st.body, v) and unchanged_sequence(st.body, xs) and not read_elsewhere(fn, st, v, None):
                    up = parents(st)
                    idx_loads = [n for n in loads_in(st.body, v) if isinstance(up.get(id(n)), ast.Subscript) and up[id(n)].slice is n and isinstance(up[id(n)].value, ast.Name)
                                 and up[id(n)].value.id == xs and isinstance(up[id(n)].ctx, ast.Load)]
                    other = [n for n in loads_in(st.body, v) if n not in idx_loads]
                    if idx_loads:
                        item = f"{xs}__item"
                        first = st.body[0]
                        body = st.body
                        if plain_assign(first) and isinstance(first.value, ast.Subscript) and first.value.slice in idx_loads and first.value.slice is first.value.slice \
                                and isinstance(first.value.value, ast.Name) and first.value.value.id == xs and len(stores_in(st.body, plain_assign(first))) == 1 \
                                and plain_assign(first) not in esc:
                            item = plain_assign(first)
                            body = st.body[1:] or [ast.Pass()]
                        for n in idx_loads:
                            sub = up[id(n)]
                            replace_child(up.get(id(sub)), sub, ast.copy_location(ast.Name(id=item, ctx=ast.Load()), sub))
                        if other:
                            st.target = ast.Tuple(elts=[ast.Name(id=v, ctx=ast.Store()), ast.Name(id=item, ctx=ast.Store())], ctx=ast.Store())
                            st.iter = ast.Call(func=ast.Name(id="enumerate", ctx=ast.Load()), args=[ast.Name(id=xs, ctx=ast.Load())], keywords=[])
                        else:
                            st.target = ast.Name(id=item, ctx=ast.Store())
                            st.iter = ast.Name(id=xs, ctx=ast.Load())
                        st.body = body
                        count[0] += 1
            # L4 small constant trip count
            if isinstance(st, ast.For) and not st.orelse and isinstance(st.iter, ast.Call) and isinstance(st.iter.func, ast.Name) and st.iter.func.id == "range" \
                    and not st.iter.keywords and 1 <= len(st.iter.args) <= 2:
                lo = 0 if len(st.iter.args) == 1 else const_int(fn, st.iter.args[0])
                hi = const_int(fn, st.iter.args[-1])
                if lo is not None and hi is not None and 0 < hi - lo <= 8:
                    st.iter = ast.copy_location(ast.Tuple(elts=[ast.Constant(value=i) for i in range(lo, hi)], ctx=ast.Load()), st.iter)
                    count[0] += 1
            out.append(st)
        return out
    fn.body = block(fn.body)
    if count[0]:
        ast.fix_missing_locations(fn)
    return count[0]


# ------------------------------------------------------------------------------------------------ functional spellings
"""F-rules (applied bottom-up on every call, to a fixed point, by the expression pass of the inliner):

  F1  operator.eq(a, b) / operator.add(a, b) / operator.getitem(a, k) / operator.not_(a) ...   ->  a == b / a + b / a[k] / not a
  F2  partial(f, a)(b)                      ->  f(a, b)
  F3  itemgetter(k)(x) / attrgetter("a")(x) / methodcaller("m", a)(x)     ->  x[k] / x.a / x.m(a)
  F4  (lambda p: E)(a)                      ->  E with a for p          (a a name / constant, or p used once and evaluated first)
  F5  map(f, xs) / filter(p, xs)            ->  (f(x) for x in xs) / (x for x in xs if p(x)); nested ones fused
  F6  next((E for x in <display> if C), d)  ->  E0 if C0 else (E1 if C1 else ... d)
  F7  reduce(f, <display>[, init])          ->  the fold written out
  F8  chain(<display>, <display>)           ->  one display;  format(v, "spec") -> f"{v:spec}";  getattr(x, "name") -> x.name;
      list(<generator expression>)          ->  [list comprehension]
"""
BIN_OPS = {"add": ast.Add, "concat": ast.Add, "sub": ast.Sub, "mul": ast.Mult, "truediv": ast.Div, "floordiv": ast.FloorDiv, "mod": ast.Mod, "pow": ast.Pow,
           "and_": ast.BitAnd, "or_": ast.BitOr, "xor": ast.BitXor, "lshift": ast.LShift, "rshift": ast.RShift, "matmul": ast.MatMult}
CMP_OPS = {"eq": ast.Eq, "ne": ast.NotEq, "lt": ast.Lt, "le": ast.LtE, "gt": ast.Gt, "ge": ast.GtE, "is_": ast.Is, "is_not": ast.IsNot}
_FUNCTIONAL_NAMES = set(BIN_OPS) | set(CMP_OPS) | {"contains", "not_", "neg", "truth", "getitem", "map", "filter", "next", "any", "reduce", "chain", "format", "getattr", "list", "str"}
PURE_MAKERS = {"functools.partial", "operator.itemgetter", "operator.attrgetter", "operator.methodcaller"}
_fresh = [0]


def fresh(prefix: str) -> str:
    _fresh[0] += 1
    return f"{prefix}__f{_fresh[0]}"


def _simple(e: ast.AST) -> bool:
    if isinstance(e, (ast.Name, ast.Constant)):
        return True
    if isinstance(e, ast.Attribute):
        return _simple(e.value)
    if isinstance(e, ast.UnaryOp) and isinstance(e.operand, ast.Constant):
        return True
    return False


def plain_lambda(f: ast.AST, arity: int) -> bool:
    return isinstance(f, ast.Lambda) and not f.args.vararg and not f.args.kwarg and not f.args.kwonlyargs and not f.args.defaults \
        and len(f.args.posonlyargs) + len(f.args.args) == arity


def lambda_params(f: ast.Lambda) -> List[str]:
    return [a.arg for a in f.args.posonlyargs + f.args.args]


def uses_of(e: ast.AST, name: str):
    """(number of loads of name in e, any of them inside a nested lambda / comprehension)"""
    n, nested = 0, False

    def walk(x, inner):
        nonlocal n, nested
        if isinstance(x, ast.Name) and x.id == name and isinstance(x.ctx, ast.Load):
            n += 1
            nested = nested or inner
        for ch in ast.iter_child_nodes(x):
            walk(ch, inner or isinstance(x, (ast.Lambda, ast.ListComp, ast.SetComp, ast.DictComp, ast.GeneratorExp)))
    walk(e, False)
    return n, nested


def apply_callable(f: ast.AST, args: List[ast.AST]) -> Optional[ast.AST]:
    """The expression `f(*args)` with a lambda's body written out where that evaluates the same."""
    from .normalize import Subst
    if isinstance(f, ast.Lambda):
        if not plain_lambda(f, len(args)):
            return None
        ps = lambda_params(f)
        for p, a in zip(ps, args):
            if _simple(a):
                continue
            cnt, nested = uses_of(f.body, p)
            if len(args) == 1 and cnt == 1 and not nested:
                continue
            if cnt == 0 and not any(isinstance(x, (ast.Call, ast.NamedExpr, ast.Await, ast.Yield, ast.YieldFrom)) for x in ast.walk(a)):
                continue        # the parameter is ignored and computing the argument runs no code
            return None
        return Subst(dict(zip(ps, [copy.deepcopy(a) for a in args]))).visit(copy.deepcopy(f.body))
    return ast.Call(func=copy.deepcopy(f), args=[copy.deepcopy(a) for a in args], keywords=[])


def mappable(f: ast.AST, resolve) -> bool:
    if isinstance(f, (ast.Lambda, ast.Name, ast.Attribute)):
        return True
    return isinstance(f, ast.Call) and resolve(f.func) in PURE_MAKERS


def single_gen(e: ast.AST) -> bool:
    return isinstance(e, ast.GeneratorExp) and len(e.generators) == 1 and not e.generators[0].is_async


def bind_pattern(target, value, out) -> bool:
    if isinstance(target, ast.Name):
        out[target.id] = value
        return True
    if isinstance(target, (ast.Tuple, ast.List)) and isinstance(value, (ast.Tuple, ast.List)) and len(target.elts) == len(value.elts) \
            and not any(isinstance(x, ast.Starred) for x in list(target.elts) + list(value.elts)):
        return all(bind_pattern(t, v, out) for t, v in zip(target.elts, value.elts))
    return False


def simplify_boolop(e: ast.AST) -> ast.AST:
    if isinstance(e, ast.BoolOp):
        e = flatten_boolop(e)
        unit = isinstance(e.op, ast.And)
        vals = [v for v in e.values[:-1] if not (isinstance(v, ast.Constant) and v.value is unit)] + [e.values[-1]]
        if len(vals) == 1:
            return vals[0]
        e.values = vals
    return e


def defunctionalize_call(n: ast.Call, resolve) -> Optional[ast.AST]:
    from .normalize import Subst, is_const_expr
    f = n.func
    # a call of a conditional expression choosing the callee: the call is made in each branch (the test is evaluated first either way)
    if isinstance(f, ast.IfExp) and not any(isinstance(x, ast.Starred) for x in n.args):      # (only one branch runs: the arguments are still evaluated once, after the test)
        def push(e):
            if isinstance(e, ast.IfExp):
                return ast.IfExp(test=e.test, body=push(e.body), orelse=push(e.orelse))
            return ast.Call(func=e, args=copy.deepcopy(n.args), keywords=copy.deepcopy(n.keywords))
        return push(f)
    # F4 immediately applied lambda
    if isinstance(f, ast.Lambda) and not n.keywords and not any(isinstance(a, ast.Starred) for a in n.args):
        return apply_callable(f, list(n.args))
    if isinstance(f, ast.Call) and not any(isinstance(a, ast.Starred) for a in n.args + f.args):
        last = f.func.id if isinstance(f.func, ast.Name) else getattr(f.func, "attr", None)
        if last not in ("partial", "itemgetter", "attrgetter", "methodcaller"):
            return None
        fq = resolve(f.func)
        # F2
        if fq == "functools.partial" and f.args and not any(k.arg is None for k in f.keywords + n.keywords):
            return ast.Call(func=f.args[0], args=list(f.args[1:]) + list(n.args), keywords=list(f.keywords) + list(n.keywords))
        # F3
        if fq == "operator.itemgetter" and len(n.args) == 1 and not n.keywords and f.args and not f.keywords:
            subs = [ast.Subscript(value=copy.deepcopy(n.args[0]), slice=k, ctx=ast.Load()) for k in f.args]
            if len(subs) == 1:
                return subs[0]
            if _simple(n.args[0]):
                return ast.Tuple(elts=subs, ctx=ast.Load())
            return None
        if fq == "operator.attrgetter" and len(n.args) == 1 and not n.keywords and len(f.args) == 1 and isinstance(f.args[0], ast.Constant) and isinstance(f.args[0].value, str) \
                and all(p.isidentifier() for p in f.args[0].value.split(".")):
            e = n.args[0]
            for p in f.args[0].value.split("."):
                e = ast.Attribute(value=e, attr=p, ctx=ast.Load())
            return e
        if fq == "operator.methodcaller" and len(n.args) == 1 and not n.keywords and f.args and isinstance(f.args[0], ast.Constant) and isinstance(f.args[0].value, str) \
                and f.args[0].value.isidentifier():
            return ast.Call(func=ast.Attribute(value=n.args[0], attr=f.args[0].value, ctx=ast.Load()), args=list(f.args[1:]), keywords=list(f.keywords))
        return None
    if not isinstance(f, (ast.Name, ast.Attribute)):
        return None
    a = n.args
    if isinstance(f, ast.Attribute) and f.attr == "join" and isinstance(f.value, ast.Constant) and f.value.value == "" and len(a) == 1 and not n.keywords \
            and isinstance(a[0], (ast.Tuple, ast.List)) and a[0].elts and all(isinstance(x, (ast.JoinedStr, ast.Constant)) and (not isinstance(x, ast.Constant) or isinstance(x.value, str)) for x in a[0].elts):
        vals = []
        for x in a[0].elts:
            vals += list(x.values) if isinstance(x, ast.JoinedStr) else [x]
        return ast.JoinedStr(values=vals)
    last = f.id if isinstance(f, ast.Name) else f.attr
    if last not in _FUNCTIONAL_NAMES:
        return None
    q = resolve(f)
    if not q or any(isinstance(a, ast.Starred) for a in n.args):
        return None
    # F1
    if q.startswith("operator.") and not n.keywords:
        op = q.split(".", 1)[1]
        if op in BIN_OPS and len(a) == 2:
            return ast.BinOp(left=a[0], op=BIN_OPS[op](), right=a[1])
        if op in CMP_OPS and len(a) == 2:
            return ast.Compare(left=a[0], ops=[CMP_OPS[op]()], comparators=[a[1]])
        if op == "contains" and len(a) == 2 and _simple(a[0]) and _simple(a[1]):
            return ast.Compare(left=a[1], ops=[ast.In()], comparators=[a[0]])
        if op == "not_" and len(a) == 1:
            return ast.UnaryOp(op=ast.Not(), operand=a[0])
        if op == "neg" and len(a) == 1:
            return ast.UnaryOp(op=ast.USub(), operand=a[0])
        if op == "truth" and len(a) == 1:
            return ast.Call(func=ast.Name(id="bool", ctx=ast.Load()), args=[a[0]], keywords=[])
        if op == "getitem" and len(a) == 2:
            return ast.Subscript(value=a[0], slice=a[1], ctx=ast.Load())
        return None
    # F5
    if q == "builtins.map" and not n.keywords and len(a) >= 2 and mappable(a[0], resolve):
        fn_, its = a[0], a[1:]
        if len(its) == 1:
            src = its[0]
            if single_gen(src):
                g = src.generators[0]
                elt = apply_callable(fn_, [src.elt])
                if elt is not None:
                    return ast.GeneratorExp(elt=elt, generators=[g])
            if isinstance(fn_, ast.Lambda) and plain_lambda(fn_, 1):
                p = lambda_params(fn_)[0]
                return ast.GeneratorExp(elt=fn_.body, generators=[ast.comprehension(target=ast.Name(id=p, ctx=ast.Store()), iter=src, ifs=[], is_async=0)])
            x = fresh("x")
            elt = apply_callable(fn_, [ast.Name(id=x, ctx=ast.Load())])
            if elt is None:
                return None
            return ast.GeneratorExp(elt=elt, generators=[ast.comprehension(target=ast.Name(id=x, ctx=ast.Store()), iter=src, ifs=[], is_async=0)])
        names = [fresh("x") for _ in its]
        elt = apply_callable(fn_, [ast.Name(id=x, ctx=ast.Load()) for x in names])
        if elt is None:
            return None
        tgt = ast.Tuple(elts=[ast.Name(id=x, ctx=ast.Store()) for x in names], ctx=ast.Store())
        return ast.GeneratorExp(elt=elt, generators=[ast.comprehension(target=tgt, iter=ast.Call(func=ast.Name(id="zip", ctx=ast.Load()), args=list(its), keywords=[]), ifs=[], is_async=0)])
    if q == "builtins.filter" and not n.keywords and len(a) == 2 and (mappable(a[0], resolve) or (isinstance(a[0], ast.Constant) and a[0].value is None)):
        p_, src = a
        if single_gen(src) and isinstance(src.elt, ast.Name) and isinstance(src.generators[0].target, ast.Name) and src.elt.id == src.generators[0].target.id:
            g = src.generators[0]
            x = g.target.id
            cond = ast.Name(id=x, ctx=ast.Load()) if isinstance(p_, ast.Constant) else apply_callable(p_, [ast.Name(id=x, ctx=ast.Load())])
            if cond is None:
                return None
            g.ifs = list(g.ifs) + [cond]
            return src
        if isinstance(p_, ast.Lambda) and plain_lambda(p_, 1):
            x = lambda_params(p_)[0]
            cond = p_.body
        else:
            x = fresh("x")
            cond = ast.Name(id=x, ctx=ast.Load()) if isinstance(p_, ast.Constant) else apply_callable(p_, [ast.Name(id=x, ctx=ast.Load())])
            if cond is None:
                return None
        return ast.GeneratorExp(elt=ast.Name(id=x, ctx=ast.Load()), generators=[ast.comprehension(target=ast.Name(id=x, ctx=ast.Store()), iter=src, ifs=[cond], is_async=0)])
    # F11  any(x == ',' or x == ' ' for x in s)  ->  ',' in s or ' ' in s     (one-character string constants: element test and substring test coincide)
    if q == "builtins.any" and not n.keywords and len(a) == 1 and single_gen(a[0]) and not a[0].generators[0].ifs and isinstance(a[0].generators[0].target, ast.Name) \
            and _simple(a[0].generators[0].iter):
        x = a[0].generators[0].target.id
        parts = list(a[0].elt.values) if isinstance(a[0].elt, ast.BoolOp) and isinstance(a[0].elt.op, ast.Or) else [a[0].elt]
        ks = []
        for pt in parts:
            if isinstance(pt, ast.Compare) and len(pt.ops) == 1 and isinstance(pt.ops[0], ast.Eq):
                l, r = pt.left, pt.comparators[0]
                if isinstance(r, ast.Name) and r.id == x:
                    l, r = r, l
                if isinstance(l, ast.Name) and l.id == x and isinstance(r, ast.Constant) and isinstance(r.value, str) and len(r.value) == 1:
                    ks.append(r)
                    continue
            ks = None
            break
        if ks:
            tests = [ast.Compare(left=k, ops=[ast.In()], comparators=[copy.deepcopy(a[0].generators[0].iter)]) for k in ks]
            return tests[0] if len(tests) == 1 else ast.BoolOp(op=ast.Or(), values=tests)
        it = a[0].generators[0].iter
        e0 = a[0].elt
        if isinstance(it, ast.Constant) and isinstance(it.value, str) and isinstance(e0, ast.Compare) and len(e0.ops) == 1 and isinstance(e0.ops[0], ast.Eq):
            # any(d == c for d in "0123456789")  ->  c in "0123456789"   (c an element of a string being scanned: one character)
            l, r = e0.left, e0.comparators[0]
            if isinstance(r, ast.Name) and r.id == x:
                l, r = r, l
            if isinstance(l, ast.Name) and l.id == x and isinstance(r, ast.Name) and r.id != x and (r.id.endswith("__item") or len(r.id) <= 2):
                return ast.Compare(left=r, ops=[ast.In()], comparators=[it])
    if q == "builtins.next" and not n.keywords and 1 <= len(a) <= 2 and isinstance(a[0], ast.IfExp) and (len(a) == 1 or _simple(a[1])):
        def push_next(e):
            if isinstance(e, ast.IfExp):
                return ast.IfExp(test=e.test, body=push_next(e.body), orelse=push_next(e.orelse))
            return ast.Call(func=copy.deepcopy(f), args=[e] + [copy.deepcopy(x) for x in a[1:]], keywords=[])
        return push_next(a[0])
    # F6
    if q == "builtins.next" and not n.keywords and 1 <= len(a) <= 2 and single_gen(a[0]):
        g = a[0].generators[0]
        it = g.iter
        if isinstance(it, (ast.Tuple, ast.List)) and 1 <= len(it.elts) <= 16 and all(is_const_expr(x) or _simple(x) for x in it.elts) and (len(a) == 2 or not g.ifs):
            result = a[1] if len(a) == 2 else None
            for x in reversed(it.elts):
                m: Dict[str, ast.AST] = {}
                if not bind_pattern(g.target, x, m):
                    return None
                elt = Subst(m).visit(copy.deepcopy(a[0].elt))
                if not g.ifs:
                    result = elt
                    continue
                conds = [Subst(m).visit(copy.deepcopy(c)) for c in g.ifs]
                cond = conds[0] if len(conds) == 1 else ast.BoolOp(op=ast.And(), values=conds)
                result = ast.IfExp(test=cond, body=elt, orelse=result)
            return result
        return None
    # F7
    if q == "functools.reduce" and not n.keywords and 2 <= len(a) <= 3 and isinstance(a[1], (ast.Tuple, ast.List)) and 1 <= len(a[1].elts) <= 16 \
            and not any(isinstance(x, ast.Starred) for x in a[1].elts):
        elts = list(a[1].elts)
        acc = a[2] if len(a) == 3 else elts.pop(0)
        fq = resolve(a[0]) if isinstance(a[0], (ast.Name, ast.Attribute)) else None
        for x in elts:
            if isinstance(a[0], ast.Lambda) and plain_lambda(a[0], 2):
                pa, px = lambda_params(a[0])
                ca, na = uses_of(a[0].body, pa)
                cx, nx = uses_of(a[0].body, px)
                if (ca > 1 and not _simple(acc)) or na or (cx > 1 and not (_simple(x) or is_const_expr(x))) or nx:
                    return None
                acc = simplify_boolop(Subst({pa: acc, px: copy.deepcopy(x)}).visit(copy.deepcopy(a[0].body)))
            elif fq and fq.startswith("operator.") and fq.split(".", 1)[1] in BIN_OPS:
                acc = ast.BinOp(left=acc, op=BIN_OPS[fq.split(".", 1)[1]](), right=copy.deepcopy(x))
            else:
                return None
        return acc
    # F8
    if q == "itertools.chain" and not n.keywords and a and all(isinstance(x, (ast.Tuple, ast.List)) and not any(isinstance(y, ast.Starred) for y in x.elts) for x in a):
        return ast.Tuple(elts=[y for x in a for y in x.elts], ctx=ast.Load())
    if q == "builtins.format" and not n.keywords and 1 <= len(a) <= 2 and (len(a) == 1 or (isinstance(a[1], ast.Constant) and isinstance(a[1].value, str))):
        spec = ast.JoinedStr(values=[ast.Constant(value=a[1].value)]) if len(a) == 2 and a[1].value else None
        return ast.JoinedStr(values=[ast.FormattedValue(value=a[0], conversion=-1, format_spec=spec)])
    if q == "builtins.str" and not n.keywords and len(a) == 1 and isinstance(a[0], ast.Constant) and isinstance(a[0].value, str):
        return a[0]
    if q == "builtins.getattr" and not n.keywords and len(a) == 2 and isinstance(a[1], ast.Constant) and isinstance(a[1].value, str) and a[1].value.isidentifier():
        return ast.Attribute(value=a[0], attr=a[1].value, ctx=ast.Load())
    if q == "builtins.list" and not n.keywords and len(a) == 1 and isinstance(a[0], ast.GeneratorExp):
        return ast.ListComp(elt=a[0].elt, generators=a[0].generators)
    return None


def const_branches(e: ast.AST, depth: int = 0) -> bool:
    """A conditional expression all of whose leaves are constants."""
    if isinstance(e, ast.IfExp) and depth < 6:
        return const_branches(e.body, depth + 1) and const_branches(e.orelse, depth + 1)
    return isinstance(e, ast.Constant)


def subscript_rules(n: ast.Subscript, root, resolve) -> Optional[ast.AST]:
    """F9  T[k1 if c else k2]      ->  T[k1] if c else T[k2]     (T a display of constants / function names, or globals())
       F10 {k: v, ...}[<constant>]  ->  v                         globals()["name"] -> name"""
    from .normalize import is_const_expr
    v, k = n.value, n.slice
    is_globals = isinstance(v, ast.Call) and isinstance(v.func, ast.Name) and v.func.id == "globals" and not v.args and not v.keywords and resolve(v.func) == "builtins.globals"
    plain_table = isinstance(v, (ast.Dict, ast.Tuple)) and all(isinstance(x, (ast.Name, ast.Constant, ast.Lambda)) or is_const_expr(x) for x in (v.values if isinstance(v, ast.Dict) else v.elts)) \
        and (not isinstance(v, ast.Dict) or all(kk is not None and is_const_expr(kk) for kk in v.keys))
    if isinstance(k, ast.IfExp) and const_branches(k) and (is_globals or plain_table):
        def push(e):
            if isinstance(e, ast.IfExp):
                return ast.IfExp(test=e.test, body=push(e.body), orelse=push(e.orelse))
            return ast.Subscript(value=copy.deepcopy(v), slice=e, ctx=ast.Load())
        return push(k)
    if isinstance(k, ast.Constant):
        if is_globals and isinstance(k.value, str) and k.value.isidentifier():
            local = {x.id for x in ast.walk(root) if isinstance(x, ast.Name) and isinstance(x.ctx, (ast.Store, ast.Del))} if isinstance(root, (ast.FunctionDef, ast.AsyncFunctionDef)) else set()
            if isinstance(root, (ast.FunctionDef, ast.AsyncFunctionDef)):
                local |= params_of(root)
            if k.value not in local:
                return ast.Name(id=k.value, ctx=ast.Load())
        if isinstance(v, ast.Dict) and plain_table:
            hits = [val for kk, val in zip(v.keys, v.values) if isinstance(kk, ast.Constant) and type(kk.value) is type(k.value) and kk.value == k.value]
            if len(hits) == 1 and all(isinstance(kk, ast.Constant) for kk in v.keys):
                return hits[0]
    return None


def hoist_lambda_calls(fn: ast.AST) -> int:
    """`return (lambda v: E)(ARG)` -> `v = ARG; return E` (the argument is evaluated first either way); a conditional expression
    choosing between whole results is first written as an if statement so that each branch can be treated on its own."""
    from .normalize import Subst
    if not isinstance(fn, (ast.FunctionDef, ast.AsyncFunctionDef)):
        return 0
    count = [0]
    taken = {n.id for n in ast.walk(fn) if isinstance(n, ast.Name)} | params_of(fn)

    def has_lambda_call(e):
        return any(isinstance(x, ast.Call) and isinstance(x.func, ast.Lambda) for x in ast.walk(e))

    def expand(st) -> Optional[List[ast.stmt]]:
        hdr = header_of(st) if not isinstance(st, ast.If) else None
        if hdr is None:
            return None
        if isinstance(hdr, ast.IfExp) and has_lambda_call(hdr) and isinstance(st, (ast.Return, ast.Assign, ast.Expr)):
            a, b = copy.copy(st), copy.copy(st)
            a.value, b.value = hdr.body, hdr.orelse
            return [ast.copy_location(ast.If(test=hdr.test, body=expand(a) or [a], orelse=expand(b) or [b]), st)]
        for c in ast.walk(hdr):
            if isinstance(c, ast.Call) and isinstance(c.func, ast.Lambda) and not c.keywords and plain_lambda(c.func, len(c.args)) \
                    and not any(isinstance(x, ast.Starred) for x in c.args) and evaluated_first(hdr, c):
                pre, ren = [], {}
                for p, arg in zip(lambda_params(c.func), c.args):
                    name = p if p not in taken else fresh(p)
                    taken.add(name)
                    ren[p] = ast.Name(id=name, ctx=ast.Load())
                    pre.append(ast.copy_location(ast.Assign(targets=[ast.Name(id=name, ctx=ast.Store())], value=arg), st))
                body = Subst(ren).visit(copy.deepcopy(c.func.body))
                if hdr is c:
                    st.value = body
                else:
                    replace_child(parents(hdr).get(id(c)), c, body)
                for x in pre:
                    ast.fix_missing_locations(x)
                return pre + [st]
        return None

    def block(stmts):
        out = []
        for st in stmts:
            if isinstance(st, FUNC):
                out.append(st)
                continue
            for fld in ("body", "orelse", "finalbody"):
                if getattr(st, fld, None):
                    setattr(st, fld, block(getattr(st, fld)))
            for h in getattr(st, "handlers", []) or []:
                h.body = block(h.body)
            r = expand(st)
            if r is not None:
                count[0] += 1
                out.extend(block(r) if len(r) == 1 and isinstance(r[0], ast.If) else r)
            else:
                out.append(st)
        return out
    fn.body = block(fn.body)
    if count[0]:
        ast.fix_missing_locations(fn)
    return count[0]


# ------------------------------------------------------------------------------------------------ L5 / L6
def eliminate_jumps(stmts: List[ast.stmt], cont: List[ast.stmt]) -> List[ast.stmt]:
    """One iteration of a loop body as straight-line code: `continue` and falling off the end go on with `cont` (the remaining
    iterations), `break` goes on with nothing (what follows the loop follows this code)."""
    if not stmts:
        return copy.deepcopy(cont)
    st, rest = stmts[0], list(stmts[1:])
    if isinstance(st, ast.Break):
        return []
    if isinstance(st, ast.Continue):
        return copy.deepcopy(cont)
    if not own_jumps([st]):
        if isinstance(st, (ast.Return, ast.Raise)):
            return [st]
        return [st] + eliminate_jumps(rest, cont)
    if isinstance(st, ast.If):
        new = ast.copy_location(ast.If(test=st.test, body=eliminate_jumps(list(st.body) + copy.deepcopy(rest), cont) or [ast.Pass()],
                                       orelse=eliminate_jumps(list(st.orelse) + rest, cont)), st)
        return [new]
    raise ValueError("jump inside " + type(st).__name__)


def unroll_search_loops(fn: ast.AST) -> int:
    """L5: `for i in (0, 1, 2): if p(xs[i]): found = i; break` over a literal tuple of constants (at most 8) whose body leaves
    with `break`: written out as the if/else chain it abbreviates, the loop variable replaced by each constant."""
    from .normalize import Subst
    if not isinstance(fn, (ast.FunctionDef, ast.AsyncFunctionDef)):
        return 0
    count = [0]

    def const_elt(e):
        return isinstance(e, ast.Constant) or (isinstance(e, ast.Tuple) and all(isinstance(x, ast.Constant) for x in e.elts))

    def block(stmts):
        out = []
        for st in stmts:
            if isinstance(st, FUNC):
                out.append(st)
                continue
            for fld in ("body", "orelse", "finalbody"):
                if getattr(st, fld, None):
                    setattr(st, fld, block(getattr(st, fld)))
            for h in getattr(st, "handlers", []) or []:
                h.body = block(h.body)
            if isinstance(st, ast.For) and not st.orelse:
                it = st.iter
                enum = isinstance(it, ast.Call) and isinstance(it.func, ast.Name) and it.func.id == "enumerate" and len(it.args) == 1 and not it.keywords
                src = it.args[0] if enum else it
                if isinstance(src, ast.Name):
                    k = local_const_len(fn, src.id)
                    d = next((x.value for x in own_nodes(fn) if plain_assign(x) == src.id), None) if k is not None else None
                    src = d if isinstance(d, ast.Tuple) else src
                if isinstance(src, ast.Tuple) and all(const_elt(e) for e in src.elts) and (enum or src is not st.iter):
                    elts = [ast.Tuple(elts=[ast.Constant(value=i), copy.deepcopy(e)], ctx=ast.Load()) for i, e in enumerate(src.elts)] if enum else [copy.deepcopy(e) for e in src.elts]
                    early = own_jumps(st.body, (ast.Break,)) or any(isinstance(x, ast.Return) for b in st.body for x in ast.walk(b))
                    if early and 1 <= len(elts) <= 8:
                        st.iter = ast.copy_location(ast.Tuple(elts=elts, ctx=ast.Load()), st.iter)
                        ast.fix_missing_locations(st)
            if isinstance(st, ast.For) and not st.orelse and isinstance(st.iter, ast.Tuple) and 1 <= len(st.iter.elts) <= 8 and all(const_elt(e) for e in st.iter.elts) \
                    and (own_jumps(st.body, (ast.Break,)) or any(isinstance(x, ast.Return) for b in st.body for x in ast.walk(b))) \
                    and not any(isinstance(x, (ast.Try, ast.With)) and own_jumps([x]) for x in ast.walk(st)):
                names = [n.id for n in ast.walk(st.target) if isinstance(n, ast.Name)]
                if not any(stores_in(st.body, nm) for nm in names) and sum(1 for b in st.body for _ in ast.walk(b)) <= 120:
                    try:
                        cont: List[ast.stmt] = []
                        for elt in reversed(st.iter.elts):
                            m: Dict[str, ast.AST] = {}
                            if not bind_pattern(st.target, elt, m):
                                raise ValueError("target")
                            body = [Subst(m).visit(copy.deepcopy(b)) for b in st.body]
                            inside = {id(x) for x in ast.walk(st)}
                            live = {n.id for n in ast.walk(fn) if isinstance(n, ast.Name) and isinstance(n.ctx, ast.Load) and id(n) not in inside}
                            binds = [ast.copy_location(ast.Assign(targets=[ast.Name(id=k, ctx=ast.Store())], value=copy.deepcopy(v)), st) for k, v in m.items() if k in live]
                            cont = binds + eliminate_jumps(body, cont)
                            if sum(1 for b in cont for _ in ast.walk(b)) > 1500:
                                raise ValueError("size")
                        for x in cont:
                            ast.fix_missing_locations(x)
                        out.extend(cont)
                        count[0] += 1
                        continue
                    except ValueError:
                        pass
            out.append(st)
        return out
    fn.body = block(fn.body)
    if count[0]:
        ast.fix_missing_locations(fn)
    return count[0]


def search_loops_to_any(fn: ast.AST) -> int:
    """L6: `flag = False ; for x in xs: if C1: flag = True; break ...`  ->  `flag = any(C1 or ... for x in xs)` -- a loop whose only
    effect is to set one boolean flag and stop at the first element that satisfies a test."""
    if not isinstance(fn, (ast.FunctionDef, ast.AsyncFunctionDef)):
        return 0
    esc = escaping_names(fn) | params_of(fn)
    count = [0]

    def block(stmts):
        out = []
        for st in stmts:
            if isinstance(st, FUNC):
                out.append(st)
                continue
            for fld in ("body", "orelse", "finalbody"):
                if getattr(st, fld, None):
                    setattr(st, fld, block(getattr(st, fld)))
            for h in getattr(st, "handlers", []) or []:
                h.body = block(h.body)
            fk = None
            if isinstance(st, ast.For) and not st.orelse and isinstance(st.target, ast.Name):
                # the flag the loop sets: initialised by the closest preceding `flag = <bool>` with only unrelated plain assignments in between
                wanted = {plain_assign(b.body[0]) for b in st.body if isinstance(b, ast.If) and b.body and plain_assign(b.body[0])}
                for k in range(len(out) - 1, -1, -1):
                    t = plain_assign(out[k])
                    if t is None:
                        break
                    if t in wanted and isinstance(out[k].value, ast.Constant) and isinstance(out[k].value.value, bool):
                        fk = k
                        break
                    if any(isinstance(x, ast.Name) and x.id in wanted for x in ast.walk(out[k])) or any(isinstance(x, (ast.Call,)) and not (isinstance(x.func, ast.Name) and x.func.id == "len") for x in ast.walk(out[k])):
                        break
            if fk is not None:
                flag, start = plain_assign(out[fk]), out[fk].value.value
                tests = []
                ok = flag not in esc and st.target.id not in esc and st.target.id != flag
                for b in st.body:
                    if isinstance(b, ast.If) and not b.orelse and len(b.body) == 2 and plain_assign(b.body[0]) == flag and isinstance(b.body[0].value, ast.Constant) \
                            and b.body[0].value.value is (not start) and isinstance(b.body[1], ast.Break) \
                            and not any(isinstance(x, (ast.Call, ast.NamedExpr, ast.Await, ast.Yield)) for x in ast.walk(b.test)) \
                            and not any(isinstance(x, ast.Name) and x.id == flag for x in ast.walk(b.test)):
                        tests.append(b.test)
                    else:
                        ok = False
                loads_after = [n for n in ast.walk(fn) if isinstance(n, ast.Name) and n.id == st.target.id and isinstance(n.ctx, ast.Load) and not any(n is x for x in ast.walk(st))]
                if ok and tests and not loads_after:
                    cond = tests[0] if len(tests) == 1 else ast.BoolOp(op=ast.Or(), values=tests)
                    gen = ast.GeneratorExp(elt=cond, generators=[ast.comprehension(target=st.target, iter=st.iter, ifs=[], is_async=0)])
                    val = ast.Call(func=ast.Name(id="any", ctx=ast.Load()), args=[gen], keywords=[])
                    if start:
                        val = ast.UnaryOp(op=ast.Not(), operand=val)
                    del out[fk]
                    out.append(ast.copy_location(ast.Assign(targets=[ast.Name(id=flag, ctx=ast.Store())], value=val), st))
                    ast.fix_missing_locations(out[-1])
                    count[0] += 1
                    continue
            # L9  for x in S: if C: continue ; raise R   ->   if not all(C for x in S): raise R      (R does not mention x)
            if isinstance(st, ast.For) and not st.orelse and isinstance(st.target, ast.Name) and st.target.id not in esc:
                x = st.target.id
                b = st.body
                cond = kind = R = None
                if len(b) == 2 and isinstance(b[0], ast.If) and not b[0].orelse and len(b[0].body) == 1 and isinstance(b[0].body[0], ast.Continue) and isinstance(b[1], ast.Raise):
                    cond, kind, R = b[0].test, "all", b[1]
                elif len(b) == 1 and isinstance(b[0], ast.If) and not b[0].orelse and len(b[0].body) == 1 and isinstance(b[0].body[0], ast.Raise):
                    cond, kind, R = b[0].test, "any", b[0].body[0]
                loads_after = [n for n in ast.walk(fn) if isinstance(n, ast.Name) and n.id == x and isinstance(n.ctx, ast.Load) and not any(n is y for y in ast.walk(st))]
                if cond is not None and not loads_after and not any(isinstance(n, ast.Name) and n.id == x for n in ast.walk(R)) \
                        and not any(isinstance(n, (ast.NamedExpr, ast.Await, ast.Yield, ast.YieldFrom)) for n in ast.walk(cond)):
                    gen = ast.GeneratorExp(elt=cond, generators=[ast.comprehension(target=st.target, iter=st.iter, ifs=[], is_async=0)])
                    call = ast.Call(func=ast.Name(id=kind, ctx=ast.Load()), args=[gen], keywords=[])
                    test = call if kind == "any" else ast.UnaryOp(op=ast.Not(), operand=call)
                    new = ast.copy_location(ast.If(test=test, body=[R], orelse=[]), st)
                    ast.fix_missing_locations(new)
                    out.append(new)
                    count[0] += 1
                    continue
            out.append(st)
        return out
    fn.body = block(fn.body)
    return count[0]


def fold_local_tables(fn: ast.AST) -> int:
    """`xs = ("a", "b")` (the only binding of a local) ... `xs[1]`  ->  `"b"`."""
    if not isinstance(fn, (ast.FunctionDef, ast.AsyncFunctionDef)):
        return 0
    from .normalize import is_const_expr
    par = params_of(fn) | escaping_names(fn)
    tables: Dict[str, ast.Tuple] = {}
    for st in own_nodes(fn):
        t = plain_assign(st)
        if t and t not in par and isinstance(st.value, ast.Tuple) and st.value.elts and all(is_const_expr(x) for x in st.value.elts) and len(names_in(fn, t)[1]) == 1:
            tables[t] = st.value
    if not tables:
        return 0
    count = [0]

    class T(ast.NodeTransformer):
        def visit_Subscript(self, n):
            self.generic_visit(n)
            if isinstance(n.ctx, ast.Load) and isinstance(n.value, ast.Name) and n.value.id in tables and isinstance(n.slice, ast.Constant) and type(n.slice.value) is int:
                tb = tables[n.value.id]
                if -len(tb.elts) <= n.slice.value < len(tb.elts):
                    count[0] += 1
                    return ast.copy_location(copy.deepcopy(tb.elts[n.slice.value]), n)
            return n
    T().visit(fn)
    if count[0]:
        ast.fix_missing_locations(fn)
    return count[0]


# ------------------------------------------------------------------------------------------------ T2 dispatch on a constant just assigned
_NOVALUE = object()


def const_eval(e: ast.AST):
    """Value of an expression built from constants, comparisons, not/and/or, unary minus and tuples of those; _NOVALUE otherwise."""
    import operator as _op
    if isinstance(e, ast.Constant):
        return e.value
    if isinstance(e, ast.Tuple):
        vs = [const_eval(x) for x in e.elts]
        return _NOVALUE if any(v is _NOVALUE for v in vs) else tuple(vs)
    if isinstance(e, ast.UnaryOp):
        v = const_eval(e.operand)
        if v is _NOVALUE:
            return v
        if isinstance(e.op, ast.Not):
            return not v
        if isinstance(e.op, ast.USub) and type(v) in (int, float):
            return -v
        return _NOVALUE
    if isinstance(e, ast.BoolOp):
        last = _NOVALUE
        for x in e.values:
            last = const_eval(x)
            if last is _NOVALUE:
                return last
            if isinstance(e.op, ast.And) and not last or isinstance(e.op, ast.Or) and last:
                return last
        return last
    if isinstance(e, ast.Compare):
        ops = {ast.Eq: _op.eq, ast.NotEq: _op.ne, ast.Lt: _op.lt, ast.LtE: _op.le, ast.Gt: _op.gt, ast.GtE: _op.ge, ast.Is: _op.is_, ast.IsNot: _op.is_not,
               ast.In: lambda a, b: a in b, ast.NotIn: lambda a, b: a not in b}
        left = const_eval(e.left)
        for o, c in zip(e.ops, e.comparators):
            right = const_eval(c)
            if left is _NOVALUE or right is _NOVALUE or type(o) not in ops:
                return _NOVALUE
            try:
                if not ops[type(o)](left, right):
                    return False
            except TypeError:
                return _NOVALUE
            left = right
        return True
    return _NOVALUE


def dispatch_on_constant(fn: ast.AST) -> int:
    """T2: an if-tree whose leaves assign constants to one local v, followed by `if <test of v and constants>: ...`: the second
    statement is decided in each leaf (v is known there) and what it selects is moved into the leaf."""
    from .normalize import Subst
    if not isinstance(fn, (ast.FunctionDef, ast.AsyncFunctionDef)):
        return 0
    esc = escaping_names(fn) | params_of(fn)
    count = [0]

    def const_tree(stmts, v) -> Optional[int]:
        """number of leaves if stmts is (assignments of constants to v | if-trees of those), else None"""
        n = 0
        for st in stmts:
            if plain_assign(st) == v and const_eval(st.value) is not _NOVALUE and isinstance(st.value, (ast.Constant, ast.UnaryOp)):
                n += 1
            elif isinstance(st, ast.If) and not any(isinstance(x, ast.Name) and x.id == v for x in ast.walk(st.test)):
                a = const_tree(st.body, v)
                b = const_tree(st.orelse, v) if st.orelse else 0
                if a is None or b is None:
                    return None
                n += a + b
            elif isinstance(st, ast.Pass):
                continue
            else:
                return None
        return n

    def test_of_v(e, v) -> bool:
        return all(isinstance(x, (ast.Compare, ast.BoolOp, ast.UnaryOp, ast.Constant, ast.Tuple, ast.boolop, ast.cmpop, ast.unaryop, ast.expr_context)) or (isinstance(x, ast.Name) and x.id == v)
                   for x in ast.walk(e)) and any(isinstance(x, ast.Name) and x.id == v for x in ast.walk(e))

    def specialise(S: ast.If, v, c) -> Optional[List[ast.stmt]]:
        m = {v: ast.Constant(value=c)}
        val = const_eval(Subst(m).visit(copy.deepcopy(S.test)))
        if val is _NOVALUE:
            return None
        taken = S.body if val else S.orelse
        if any(stores_in([x], v) for x in taken):
            return None
        return [Subst(m).visit(copy.deepcopy(x)) for x in taken]

    def push(stmts, v, cur, S) -> Optional[List[ast.stmt]]:
        """stmts (a const tree) with S decided at the end of every path; cur = value of v on entry"""
        out = []
        for k, st in enumerate(stmts):
            if plain_assign(st) == v:
                cur = const_eval(st.value)
                out.append(st)
            elif isinstance(st, ast.If):
                rest = stmts[k + 1:]
                a = push(list(st.body) + copy.deepcopy(rest), v, cur, S)
                b = push(list(st.orelse) + rest, v, cur, S)
                if a is None or b is None:
                    return None
                out.append(ast.copy_location(ast.If(test=st.test, body=a or [ast.Pass()], orelse=b), st))
                return out
            else:
                out.append(st)
        if cur is _NOVALUE:
            return None
        tail = specialise(S, v, cur)
        if tail is None:
            return None
        return out + tail

    def block(stmts):
        stmts = list(stmts)
        for st in stmts:
            if isinstance(st, FUNC):
                continue
            for fld in ("body", "orelse", "finalbody"):
                if getattr(st, fld, None):
                    setattr(st, fld, block(getattr(st, fld)))
            for h in getattr(st, "handlers", []) or []:
                h.body = block(h.body)
        # T3: the tree's leaves assign constants to several locals and what follows always leaves: the tail is copied into every leaf
        for i, st in enumerate(stmts):
            if not isinstance(st, ast.If) or i + 1 >= len(stmts):
                continue
            rest = stmts[i + 1:]
            assigned = {plain_assign(x) for x in ast.walk(st) if isinstance(x, ast.Assign)}
            if None in assigned or len(assigned) < 2 or assigned & esc or not _leaves(rest):
                continue

            def only_consts(ss) -> Optional[int]:
                n = 0
                for x in ss:
                    if plain_assign(x) and const_eval(x.value) is not _NOVALUE and isinstance(x.value, (ast.Constant, ast.UnaryOp)):
                        continue
                    if isinstance(x, ast.Pass):
                        continue
                    if isinstance(x, ast.If) and not any(isinstance(y, ast.Name) and y.id in assigned for y in ast.walk(x.test)):
                        a = only_consts(x.body)
                        b = only_consts(x.orelse)
                        if a is None or b is None:
                            return None
                        n += a + b - 1
                        continue
                    return None
                return n + 1
            leaves = only_consts([st])
            size = sum(1 for x in rest for _ in ast.walk(x))
            reads = any(isinstance(y, ast.Name) and y.id in assigned and isinstance(y.ctx, ast.Load) for x in rest for y in ast.walk(x))
            if leaves is None or leaves > 9 or size > 70 or not reads or any(isinstance(y, FUNC) for x in rest for y in ast.walk(x)):
                continue

            def with_tail(ss):
                out = []
                for k, x in enumerate(ss):
                    if isinstance(x, ast.If):
                        after = ss[k + 1:]
                        out.append(ast.copy_location(ast.If(test=x.test, body=with_tail(list(x.body) + copy.deepcopy(after)), orelse=with_tail(list(x.orelse) + after)), x))
                        return out
                    out.append(x)
                return out + copy.deepcopy(rest)
            new = with_tail([st])
            for x in new:
                ast.fix_missing_locations(x)
            stmts[i:] = new
            count[0] += 1
            break
        i = 0
        while i + 1 < len(stmts):
            st, S = stmts[i], stmts[i + 1]
            if isinstance(st, ast.If) and isinstance(S, ast.If):
                targets = {plain_assign(x) for x in ast.walk(st) if isinstance(x, ast.Assign)}
                v = next(iter(targets)) if len(targets) == 1 else None
                if v and v not in esc and test_of_v(S.test, v):
                    leaves = const_tree([st], v)
                    init = _NOVALUE
                    if i > 0 and plain_assign(stmts[i - 1]) == v and isinstance(stmts[i - 1].value, (ast.Constant, ast.UnaryOp)):
                        init = const_eval(stmts[i - 1].value)
                    size = sum(1 for _ in ast.walk(S))
                    if leaves and leaves <= 10 and size <= 80:
                        new = push([st], v, init, S)
                        if new is not None:
                            for x in new:
                                ast.fix_missing_locations(x)
                            stmts[i:i + 2] = new
                            count[0] += 1
                            continue
            i += 1
        return stmts
    fn.body = block(fn.body)
    if count[0]:
        ast.fix_missing_locations(fn)
    return count[0]


# ------------------------------------------------------------------------------------------------ L7 / L8 / S14 / S15
def needs_statements(e: ast.AST) -> bool:
    """Does the expression call a private helper (a leading underscore in the called name) -- something that may only be expressible as statements?"""
    for x in ast.walk(e):
        if isinstance(x, ast.Call):
            nm = x.func.id if isinstance(x.func, ast.Name) else (x.func.attr if isinstance(x.func, ast.Attribute) else "")
            if nm.startswith("_") and not nm.startswith("__"):
                return True
    return False


def accumulate_to_join(fn: ast.AST) -> int:
    """L7: `acc = "" ; for x in xs: acc = acc + E` (or `acc += E`)  ->  `acc = "".join(E for x in xs)`."""
    if not isinstance(fn, (ast.FunctionDef, ast.AsyncFunctionDef)):
        return 0
    esc = escaping_names(fn) | params_of(fn)
    count = [0]

    def block(stmts):
        out = []
        for st in stmts:
            if isinstance(st, FUNC):
                out.append(st)
                continue
            for fld in ("body", "orelse", "finalbody"):
                if getattr(st, fld, None):
                    setattr(st, fld, block(getattr(st, fld)))
            for h in getattr(st, "handlers", []) or []:
                h.body = block(h.body)
            if isinstance(st, ast.AugAssign) and isinstance(st.op, ast.Add) and isinstance(st.target, ast.Name) and isinstance(st.value, ast.IfExp) \
                    and not any(isinstance(x, (ast.Call, ast.NamedExpr)) for x in ast.walk(st.value.test)) and needs_statements(st.value):
                # acc += (A if c else B)   ->   if c: acc += A / else: acc += B
                a, b = copy.copy(st), copy.copy(st)
                a.value, b.value = st.value.body, st.value.orelse
                new = ast.copy_location(ast.If(test=st.value.test, body=block([a]), orelse=block([b])), st)
                ast.fix_missing_locations(new)
                out.append(new)
                count[0] += 1
                continue
            if isinstance(st, ast.AugAssign) and isinstance(st.op, ast.Add) and isinstance(st.target, ast.Name) and isinstance(st.value, ast.Call) \
                    and isinstance(st.value.func, ast.Attribute) and st.value.func.attr == "join" and isinstance(st.value.func.value, ast.Constant) and st.value.func.value.value == "" \
                    and len(st.value.args) == 1 and not st.value.keywords and isinstance(st.value.args[0], (ast.GeneratorExp, ast.ListComp)) and len(st.value.args[0].generators) == 1 \
                    and needs_statements(st.value.args[0].elt) and not any(isinstance(x, ast.Name) and x.id == st.target.id for x in ast.walk(st.value)):
                # acc += "".join(f(x) for x in xs)   ->   for x in xs: acc += f(x)      (f is a helper that has to be spliced in as statements)
                g = st.value.args[0].generators[0]
                body = [ast.copy_location(ast.AugAssign(target=st.target, op=ast.Add(), value=st.value.args[0].elt), st)]
                if g.ifs:
                    cond = g.ifs[0] if len(g.ifs) == 1 else ast.BoolOp(op=ast.And(), values=list(g.ifs))
                    body = [ast.copy_location(ast.If(test=cond, body=body, orelse=[]), st)]
                new = ast.copy_location(ast.For(target=g.target, iter=g.iter, body=body, orelse=[], type_comment=None), st)
                ast.fix_missing_locations(new)
                out.append(new)
                count[0] += 1
                continue
            if isinstance(st, ast.For) and not st.orelse and len(st.body) == 1 and isinstance(st.target, ast.Name) and out and plain_assign(out[-1]) \
                    and isinstance(out[-1].value, ast.Constant) and out[-1].value.value == "":
                acc = plain_assign(out[-1])
                b = st.body[0]
                piece = None
                if isinstance(b, ast.AugAssign) and isinstance(b.op, ast.Add) and isinstance(b.target, ast.Name) and b.target.id == acc:
                    piece = b.value
                elif plain_assign(b) == acc and isinstance(b.value, ast.BinOp) and isinstance(b.value.op, ast.Add) and isinstance(b.value.left, ast.Name) and b.value.left.id == acc:
                    piece = b.value.right
                if piece is not None and acc not in esc and st.target.id not in esc and not any(isinstance(x, ast.Name) and x.id == acc for x in ast.walk(piece)) \
                        and not any(isinstance(x, ast.Name) and x.id == acc for x in ast.walk(st.iter)):
                    gen = ast.GeneratorExp(elt=piece, generators=[ast.comprehension(target=st.target, iter=st.iter, ifs=[], is_async=0)])
                    out[-1] = ast.copy_location(ast.Assign(targets=[ast.Name(id=acc, ctx=ast.Store())],
                                                           value=ast.Call(func=ast.Attribute(value=ast.Constant(value=""), attr="join", ctx=ast.Load()), args=[gen], keywords=[])), st)
                    ast.fix_missing_locations(out[-1])
                    count[0] += 1
                    continue
            out.append(st)
        return out
    fn.body = block(fn.body)
    return count[0]


def propagate_string_constants(fn: ast.AST) -> int:
    """S14: `digits = "0123456789"` -- the only binding of a local, a string constant -- is written out where it is read."""
    if not isinstance(fn, (ast.FunctionDef, ast.AsyncFunctionDef)):
        return 0
    esc = escaping_names(fn) | params_of(fn)
    consts = {}
    for st in own_nodes(fn):
        t = plain_assign(st)
        if t and t not in esc and isinstance(st.value, ast.Constant) and isinstance(st.value.value, str) and len(names_in(fn, t)[1]) == 1:
            consts[t] = st
    if not consts:
        return 0
    up = parents(fn)
    n = 0
    for name, st in consts.items():
        loads = names_in(fn, name)[0]
        # only where the string is searched or iterated (a test `x in digits`, a loop / comprehension over it): elsewhere the name documents more than the literal
        uses = []
        for ld in loads:
            p = up.get(id(ld))
            if isinstance(p, ast.Compare) and ld in p.comparators and any(isinstance(o, (ast.In, ast.NotIn)) for o in p.ops):
                uses.append(ld)
            elif isinstance(p, ast.comprehension) and p.iter is ld:
                uses.append(ld)
            elif isinstance(p, ast.For) and p.iter is ld:
                uses.append(ld)
        if len(uses) != len(loads) or not loads:
            continue
        for ld in loads:
            replace_child(up.get(id(ld)), ld, ast.copy_location(ast.Constant(value=st.value.value), ld))
        n += 1
    return n


def unroll_index_loops(fn: ast.AST) -> int:
    """L8: `for k in (0, 1, 2): xs[k] = f(k)` -- a loop over a literal tuple of small integers whose body is straight-line code that uses the
    variable as an index or in arithmetic -- written out with the constant in place (and constant arithmetic folded)."""
    from .normalize import Subst
    if not isinstance(fn, (ast.FunctionDef, ast.AsyncFunctionDef)):
        return 0
    count = [0]

    class Fold(ast.NodeTransformer):
        def visit_BinOp(self, n):
            self.generic_visit(n)
            if isinstance(n.left, ast.Constant) and isinstance(n.right, ast.Constant) and type(n.left.value) is int and type(n.right.value) is int \
                    and isinstance(n.op, (ast.Add, ast.Sub, ast.Mult)):
                a, b = n.left.value, n.right.value
                v = a + b if isinstance(n.op, ast.Add) else (a - b if isinstance(n.op, ast.Sub) else a * b)
                if abs(v) < 10 ** 6:
                    return ast.copy_location(ast.Constant(value=v), n)
            return n

    def block(stmts):
        out = []
        for st in stmts:
            if isinstance(st, FUNC):
                out.append(st)
                continue
            for fld in ("body", "orelse", "finalbody"):
                if getattr(st, fld, None):
                    setattr(st, fld, block(getattr(st, fld)))
            for h in getattr(st, "handlers", []) or []:
                h.body = block(h.body)
            if isinstance(st, ast.For) and not st.orelse and all(isinstance(b, (ast.Assign, ast.AugAssign, ast.Expr)) for b in st.body) and len(st.body) <= 4:
                # a loop driven by a table of functions / names: for i, f in enumerate((g, h)): out.append(f(xs[i]))
                it = st.iter
                enum = isinstance(it, ast.Call) and isinstance(it.func, ast.Name) and it.func.id == "enumerate" and len(it.args) == 1 and not it.keywords
                src = it.args[0] if enum else it
                if isinstance(src, ast.Name) and src.id not in params_of(fn) and len(names_in(fn, src.id)[1]) == 1:
                    d = next((x.value for x in own_nodes(fn) if plain_assign(x) == src.id), None)
                    if isinstance(d, ast.Tuple) and len(names_in(fn, src.id)[0]) == 1:
                        src = d
                tnames = [n.id for n in ast.walk(st.target) if isinstance(n, ast.Name)]
                called = any(isinstance(c, ast.Call) and isinstance(c.func, ast.Name) and c.func.id in tnames for b in st.body for c in ast.walk(b))
                if isinstance(src, ast.Tuple) and 1 <= len(src.elts) <= 8 and all(_simple(e) for e in src.elts) and (enum or called) and called \
                        and not any(stores_in(st.body, nm) for nm in tnames):
                    inside = {id(x) for x in ast.walk(st)}
                    live_after = any(isinstance(n, ast.Name) and n.id in tnames and isinstance(n.ctx, ast.Load) and id(n) not in inside for n in ast.walk(fn))
                    if not live_after:
                        ok = True
                        new_stmts = []
                        for i, e in enumerate(src.elts):
                            m: Dict[str, ast.AST] = {}
                            elt = ast.Tuple(elts=[ast.Constant(value=i), e], ctx=ast.Load()) if enum else e
                            if not bind_pattern(st.target, elt, m):
                                ok = False
                                break
                            for b in st.body:
                                nb = Fold().visit(Subst(m).visit(copy.deepcopy(b)))
                                ast.fix_missing_locations(nb)
                                new_stmts.append(nb)
                        if ok:
                            out.extend(new_stmts)
                            count[0] += 1
                            continue
            if isinstance(st, ast.For) and not st.orelse and isinstance(st.target, ast.Name) and isinstance(st.iter, ast.Tuple) and 1 <= len(st.iter.elts) <= 8 \
                    and all(isinstance(e, ast.Constant) and type(e.value) is int for e in st.iter.elts) \
                    and all(isinstance(b, (ast.Assign, ast.AugAssign, ast.Expr)) for b in st.body) and len(st.body) <= 4 and not stores_in(st.body, st.target.id):
                v = st.target.id
                up = parents(st)
                idx_use = any(isinstance(up.get(id(n)), (ast.Subscript, ast.BinOp, ast.Slice)) for n in loads_in(st.body, v))
                inside = {id(x) for x in ast.walk(st)}
                live_after = any(isinstance(n, ast.Name) and n.id == v and isinstance(n.ctx, ast.Load) and id(n) not in inside for n in ast.walk(fn))
                if idx_use and not live_after:
                    for e in st.iter.elts:
                        for b in st.body:
                            nb = Fold().visit(Subst({v: ast.Constant(value=e.value)}).visit(copy.deepcopy(b)))
                            ast.fix_missing_locations(nb)
                            out.append(nb)
                    count[0] += 1
                    continue
            out.append(st)
        return out
    fn.body = block(fn.body)
    return count[0]


def scalarise_local_lists(fn: ast.AST) -> int:
    """S15: `parts = [0, 0, 0]; parts[0] = a; parts[1] = b; ...; r = parts[0]` -- a local list display only ever accessed by constant
    index -- as one local per slot."""
    if not isinstance(fn, (ast.FunctionDef, ast.AsyncFunctionDef)):
        return 0
    esc = escaping_names(fn) | params_of(fn)
    up = parents(fn)
    n = 0
    for st in list(own_nodes(fn)):
        t = plain_assign(st)
        if not t or t in esc or not isinstance(st.value, (ast.List, ast.Tuple)) or not st.value.elts or len(st.value.elts) > 8 or any(isinstance(e, ast.Starred) for e in st.value.elts):
            continue
        loads, stores = names_in(fn, t)
        if len(stores) != 1:
            continue
        size = len(st.value.elts)
        ok = True
        starred = []
        for ld in loads:
            p = up.get(id(ld))
            if isinstance(p, ast.Starred) and isinstance(up.get(id(p)), ast.Call) and p in up[id(p)].args:
                starred.append((ld, p))     # f(*parts): the slots in order
                continue
            if not (isinstance(p, ast.Subscript) and p.value is ld and isinstance(p.slice, ast.Constant) and type(p.slice.value) is int and 0 <= p.slice.value < size
                    and isinstance(p.ctx, (ast.Load, ast.Store))):
                ok = False
                break
            gp = up.get(id(p))
            if isinstance(p.ctx, ast.Store) and not (isinstance(gp, ast.Assign) and len(gp.targets) == 1):
                ok = False
                break
        if not ok or not loads:
            continue
        if isinstance(st.value, ast.Tuple) and len(starred) == len(loads) == 1:
            continue        # a single f(*display): the display is simply written out by another rule
        for ld, p in starred:
            call = up[id(p)]
            k = call.args.index(p)
            call.args[k:k + 1] = [ast.copy_location(ast.Name(id=f"{t}__{j}", ctx=ast.Load()), p) for j in range(size)]
        for ld in loads:
            p = up.get(id(ld))
            if isinstance(p, ast.Starred):
                continue
            replace_child(up.get(id(p)), p, ast.copy_location(ast.Name(id=f"{t}__{p.slice.value}", ctx=type(p.ctx)()), p))
        new = [ast.copy_location(ast.Assign(targets=[ast.Name(id=f"{t}__{k}", ctx=ast.Store())], value=e), st) for k, e in enumerate(st.value.elts)]
        parent = up.get(id(st))
        for fld in ("body", "orelse", "finalbody"):
            lst = getattr(parent, fld, None)
            if isinstance(lst, list) and st in lst:
                i = lst.index(st)
                lst[i:i + 1] = new
        for x in new:
            ast.fix_missing_locations(x)
        n += 1
        up = parents(fn)
    if n:
        ast.fix_missing_locations(fn)
    return n


def comprehension_rules(n: ast.AST) -> Optional[ast.AST]:
    """F12  (f(x) for x in (g(y) for y in T if c))       ->  (f(g(y)) for y in T if c)        (one generator each; x read once, or g(y) a plain name)
       F13  [E for x in (A if c else B)]                  ->  [E for x in A] if c else [E for x in B]   (the test is evaluated first either way)"""
    from .normalize import Subst
    if not isinstance(n, (ast.GeneratorExp, ast.ListComp, ast.SetComp, ast.DictComp)) or len(n.generators) != 1 or n.generators[0].is_async:
        return None
    g = n.generators[0]
    if isinstance(g.iter, ast.IfExp) and _simple(g.iter.test) or isinstance(g.iter, ast.IfExp) and not any(isinstance(x, (ast.Call, ast.NamedExpr)) for x in ast.walk(g.iter.test)):
        def variant(it):
            m = copy.deepcopy(n)
            m.generators[0].iter = it
            return m
        return ast.IfExp(test=g.iter.test, body=variant(g.iter.body), orelse=variant(g.iter.orelse))
    src = g.iter
    if isinstance(g.target, ast.Name) and single_gen(src):
        x = g.target.id
        inner = src.generators[0]
        parts = [p_ for p_ in (getattr(n, "elt", None), getattr(n, "key", None), getattr(n, "value", None)) if p_ is not None] + list(g.ifs)
        cnt = sum(uses_of(p_, x)[0] for p_ in parts)
        nested = any(uses_of(p_, x)[1] for p_ in parts)
        inner_names = {t.id for t in ast.walk(inner.target) if isinstance(t, ast.Name)}
        clash = any(isinstance(y, ast.Name) and y.id in inner_names for p_ in parts for y in ast.walk(p_))
        if not clash and not nested and (cnt <= 1 or _simple(src.elt)) and not (g.ifs and not _simple(src.elt) and cnt > 1):
            m = copy.deepcopy(n)
            sub = Subst({x: src.elt})
            for fld in ("elt", "key", "value"):
                if getattr(m, fld, None) is not None:
                    setattr(m, fld, sub.visit(getattr(m, fld)))
            new_ifs = [sub.visit(c) for c in m.generators[0].ifs]
            m.generators = [ast.comprehension(target=inner.target, iter=inner.iter, ifs=list(inner.ifs) + new_ifs, is_async=0)]
            return m
    return None


def record_fields(ctor: ast.AST, module_assigns, module_tree) -> Optional[List[str]]:
    if not isinstance(ctor, ast.Name):
        return None
    d = module_assigns.get(ctor.id)
    if d is None and module_tree is not None:
        for cd in module_tree.body:
            if isinstance(cd, ast.ClassDef) and cd.name == ctor.id and len(cd.bases) == 1 and not cd.keywords and isinstance(cd.bases[0], ast.Call) \
                    and not any(isinstance(x, (ast.FunctionDef, ast.AsyncFunctionDef)) and x.name in ("__new__", "__init__", "__iter__", "__getitem__", "__getattr__", "__getattribute__") for x in cd.body):
                d = cd.bases[0]     # class _P(namedtuple("_P", "a b")): ... -- the record type with extra methods
    if d is None and module_tree is not None:
        for cd in module_tree.body:
            # class _P(NamedTuple): a: int; b: float      /      @dataclass(frozen=True) class _P: a: int; b: float   (no methods that change construction)
            if isinstance(cd, ast.ClassDef) and cd.name == ctor.id and not cd.keywords:
                named = len(cd.bases) == 1 and (isinstance(cd.bases[0], ast.Name) and cd.bases[0].id == "NamedTuple" or isinstance(cd.bases[0], ast.Attribute) and cd.bases[0].attr == "NamedTuple")
                if named and all(isinstance(x, ast.AnnAssign) and isinstance(x.target, ast.Name) and x.value is None or isinstance(x, ast.Expr) and isinstance(x.value, ast.Constant) or isinstance(x, ast.Pass) for x in cd.body):
                    return [x.target.id for x in cd.body if isinstance(x, ast.AnnAssign)]
    if d is None:
        return None
    if not (isinstance(d, ast.Call) and (isinstance(d.func, ast.Name) and d.func.id == "namedtuple" or isinstance(d.func, ast.Attribute) and d.func.attr == "namedtuple") and len(d.args) == 2 and not d.keywords):
        return None
    spec = d.args[1]
    if isinstance(spec, ast.Constant) and isinstance(spec.value, str):
        return spec.value.replace(",", " ").split()
    if isinstance(spec, (ast.Tuple, ast.List)) and all(isinstance(x, ast.Constant) and isinstance(x.value, str) for x in spec.elts):
        return [x.value for x in spec.elts]
    return None


def scalarise_records(fn: ast.AST, module_assigns: Dict[str, ast.AST], module_tree=None) -> int:
    """S16: `p = _Point(a, b)` where `_Point = namedtuple("_Point", ("x", "y"))` is a module-level record type and p is only ever read
    as `p.x` / `p.y`: one local per field."""
    if not isinstance(fn, (ast.FunctionDef, ast.AsyncFunctionDef)):
        return 0
    esc = escaping_names(fn) | params_of(fn)

    def dataclass_fields(ctor):
        """fields of `@dataclass(frozen=True) class _P: a: int; b: str` (no defaults, no methods): only ever read as p.a / p.b"""
        if not isinstance(ctor, ast.Name) or module_tree is None:
            return None
        for cd in module_tree.body:
            if isinstance(cd, ast.ClassDef) and cd.name == ctor.id and not cd.bases and not cd.keywords and len(cd.decorator_list) == 1:
                d = cd.decorator_list[0]
                nm = d.func if isinstance(d, ast.Call) else d
                if (isinstance(nm, ast.Name) and nm.id == "dataclass") or (isinstance(nm, ast.Attribute) and nm.attr == "dataclass"):
                    if all(isinstance(x, ast.AnnAssign) and isinstance(x.target, ast.Name) and x.value is None or isinstance(x, ast.Expr) and isinstance(x.value, ast.Constant) or isinstance(x, ast.Pass) for x in cd.body):
                        return [x.target.id for x in cd.body if isinstance(x, ast.AnnAssign)]
        return None
    dataclasses_seen = set()

    def fields_of(ctor):
        r = record_fields(ctor, module_assigns, module_tree)
        if r is None:
            r = dataclass_fields(ctor)
            if r is not None:
                dataclasses_seen.add(ctor.id)
        return r

    n = 0
    up = parents(fn)
    done = set()
    for st in list(own_nodes(fn)):
        t = plain_assign(st)
        if t and isinstance(st.value, ast.Call) and st.value.keywords and not any(k.arg is None for k in st.value.keywords):
            fs = fields_of(st.value.func)
            kw = {k.arg: k.value for k in st.value.keywords}
            if fs is not None and len(st.value.args) + len(kw) == len(fs) and set(kw) == set(fs[len(st.value.args):]) \
                    and [k.arg for k in st.value.keywords] == fs[len(st.value.args):]:
                st.value.args = list(st.value.args) + [kw[f] for f in fs[len(st.value.args):]]      # P(a=x, b=y) with the fields in declaration order: P(x, y)
                st.value.keywords = []
        if not t or t in esc or t in done or not isinstance(st.value, ast.Call) or st.value.keywords or any(isinstance(a, ast.Starred) for a in st.value.args):
            continue
        fields = fields_of(st.value.func)
        if fields is None or len(fields) != len(st.value.args) or any(isinstance(x, ast.Name) and x.id == st.value.func.id and isinstance(x.ctx, (ast.Store, ast.Del)) for x in ast.walk(fn)):
            continue
        loads, stores = names_in(fn, t)
        defs_t = [x for x in own_nodes(fn) if plain_assign(x) == t]
        # every binding of the name builds the same record type from positional arguments (then the fields can be kept apart whichever binding is live)
        if len(stores) != len(defs_t) or not loads or not all(isinstance(x.value, ast.Call) and isinstance(x.value.func, ast.Name) and x.value.func.id == st.value.func.id and not x.value.keywords
                                                               and len(x.value.args) == len(fields) and not any(isinstance(a, ast.Starred) for a in x.value.args) for x in defs_t):
            continue
        def unpacked(ld):
            if st.value.func.id in dataclasses_seen:
                return False        # a dataclass instance is not a tuple: only field reads are understood
            p = up.get(id(ld))
            if isinstance(p, ast.Call) and isinstance(p.func, ast.Name) and p.func.id == "tuple" and p.args == [ld] and not p.keywords:
                return True         # tuple(record): the fields in order
            call = p if isinstance(p, ast.Call) else (up.get(id(p)) if isinstance(p, ast.keyword) else None)
            callee = ""
            if isinstance(call, ast.Call):
                callee = call.func.id if isinstance(call.func, ast.Name) else (call.func.attr if isinstance(call.func, ast.Attribute) else "")
            recv_private = isinstance(call, ast.Call) and isinstance(call.func, ast.Attribute) and isinstance(call.func.value, ast.Name) and call.func.value.id.startswith("_")
            if callee and callee in PINNED_SHORT_NAMES and not recv_private and (isinstance(p, ast.Call) and ld in p.args or isinstance(p, ast.keyword) and p.value is ld and p.arg is not None):
                return True         # handed on as a whole to a public function: a namedtuple is the tuple of its fields
                                    # (a private helper may read the fields by name: it is inlined first, then its reads are field reads)
            return isinstance(p, ast.Assign) and p.value is ld and len(p.targets) == 1 and isinstance(p.targets[0], (ast.Tuple, ast.List)) and len(p.targets[0].elts) == len(fields) \
                and not any(isinstance(x, ast.Starred) for x in p.targets[0].elts)
        if not all(unpacked(ld) or (isinstance(up.get(id(ld)), ast.Attribute) and up[id(ld)].value is ld and up[id(ld)].attr in fields and isinstance(up[id(ld)].ctx, ast.Load)) for ld in loads):
            continue
        for ld in loads:
            p = up[id(ld)]
            if unpacked(ld):
                tup = ast.copy_location(ast.Tuple(elts=[ast.Name(id=f"{t}__{f}", ctx=ast.Load()) for f in fields], ctx=ast.Load()), ld)
                if isinstance(p, ast.Call) and isinstance(p.func, ast.Name) and p.func.id == "tuple" and p.args == [ld] and not p.keywords:
                    replace_child(up.get(id(p)), p, tup)
                elif isinstance(p, ast.Call):
                    p.args[p.args.index(ld)] = tup
                else:
                    p.value = tup
                continue
            replace_child(up.get(id(p)), p, ast.copy_location(ast.Name(id=f"{t}__{p.attr}", ctx=ast.Load()), p))
        for dst in defs_t:
            new = [ast.copy_location(ast.Assign(targets=[ast.Name(id=f"{t}__{f}", ctx=ast.Store())], value=a), dst) for f, a in zip(fields, dst.value.args)]
            parent = up.get(id(dst))
            for fld in ("body", "orelse", "finalbody"):
                lst = getattr(parent, fld, None)
                if isinstance(lst, list) and dst in lst:
                    i = lst.index(dst)
                    lst[i:i + 1] = new
            for x in new:
                ast.fix_missing_locations(x)
        done.add(t)
        n += 1
        up = parents(fn)
    return n


def fold_dict_building(fn: ast.AST) -> int:
    """S17: `d = {...}` ; `d.update(())` ; `d.update((("k", v),))` ; `d["k2"] = w`  ->  `d = {..., "k": v, "k2": w}` (statements directly
    after the display that add constant keys it does not have yet; evaluation order is the textual order either way)."""
    if not isinstance(fn, (ast.FunctionDef, ast.AsyncFunctionDef)):
        return 0
    esc = escaping_names(fn) | params_of(fn)
    count = [0]

    def block(stmts):
        out: List[ast.stmt] = []
        for st in stmts:
            if isinstance(st, FUNC):
                out.append(st)
                continue
            for fld in ("body", "orelse", "finalbody"):
                if getattr(st, fld, None):
                    setattr(st, fld, block(getattr(st, fld)))
            for h in getattr(st, "handlers", []) or []:
                h.body = block(h.body)
            prev = out[-1] if out else None
            d = plain_assign(prev) if prev is not None else None
            if d and d not in esc and isinstance(prev.value, ast.List) and not any(isinstance(x, ast.Starred) for x in prev.value.elts) \
                    and isinstance(st, ast.Expr) and isinstance(st.value, ast.Call) and isinstance(st.value.func, ast.Attribute) and st.value.func.attr == "append" \
                    and isinstance(st.value.func.value, ast.Name) and st.value.func.value.id == d and len(st.value.args) == 1 and not st.value.keywords \
                    and not any(isinstance(n, ast.Name) and n.id == d for n in ast.walk(st.value.args[0])) and len(prev.value.elts) < 16:
                prev.value.elts.append(st.value.args[0])        # xs = [..] ; xs.append(v)   ->   xs = [.., v]
                count[0] += 1
                continue
            if d and d not in esc and isinstance(prev.value, ast.Dict) and all(isinstance(k, ast.Constant) for k in prev.value.keys):
                have = {repr(k.value) for k in prev.value.keys}
                pairs = None
                if isinstance(st, ast.Expr) and isinstance(st.value, ast.Call) and isinstance(st.value.func, ast.Attribute) and st.value.func.attr == "update" \
                        and isinstance(st.value.func.value, ast.Name) and st.value.func.value.id == d and len(st.value.args) == 1 and not st.value.keywords:
                    a = st.value.args[0]
                    if isinstance(a, (ast.Tuple, ast.List)) and all(isinstance(x, (ast.Tuple, ast.List)) and len(x.elts) == 2 and isinstance(x.elts[0], ast.Constant) for x in a.elts):
                        pairs = [(x.elts[0], x.elts[1]) for x in a.elts]
                    elif isinstance(a, ast.Dict) and all(isinstance(k, ast.Constant) for k in a.keys):
                        pairs = list(zip(a.keys, a.values))
                elif isinstance(st, ast.Assign) and len(st.targets) == 1 and isinstance(st.targets[0], ast.Subscript) and isinstance(st.targets[0].value, ast.Name) \
                        and st.targets[0].value.id == d and isinstance(st.targets[0].slice, ast.Constant):
                    pairs = [(st.targets[0].slice, st.value)]
                if pairs is not None and not any(repr(k.value) in have for k, _ in pairs) and len({repr(k.value) for k, _ in pairs}) == len(pairs) \
                        and not any(isinstance(n, ast.Name) and n.id == d for _, v in pairs for n in ast.walk(v)):
                    for k, v in pairs:
                        prev.value.keys.append(k)
                        prev.value.values.append(v)
                    count[0] += 1
                    continue
            out.append(st)
        return out
    fn.body = block(fn.body)
    return count[0]


def unfold_reduce(fn: ast.AST, resolve) -> int:
    """F14: `acc = functools.reduce(operator.add, seq, init)`  ->  `acc = init` ; `for x in seq: acc = acc + x`  (what reduce does)."""
    if not isinstance(fn, (ast.FunctionDef, ast.AsyncFunctionDef)):
        return 0
    count = [0]

    def block(stmts):
        out = []
        for st in stmts:
            if isinstance(st, FUNC):
                out.append(st)
                continue
            for fld in ("body", "orelse", "finalbody"):
                if getattr(st, fld, None):
                    setattr(st, fld, block(getattr(st, fld)))
            for h in getattr(st, "handlers", []) or []:
                h.body = block(h.body)
            t = plain_assign(st)
            v = getattr(st, "value", None)
            if t and isinstance(v, ast.IfExp) and any(isinstance(x, ast.Call) and isinstance(x.func, (ast.Name, ast.Attribute)) and (x.func.id if isinstance(x.func, ast.Name) else x.func.attr) == "reduce"
                                                      for br in (v.body, v.orelse) for x in [br]):
                # acc = A if c else reduce(...)   ->   if c: acc = A / else: acc = reduce(...)
                a = ast.copy_location(ast.Assign(targets=[ast.Name(id=t, ctx=ast.Store())], value=v.body), st)
                b = ast.copy_location(ast.Assign(targets=[ast.Name(id=t, ctx=ast.Store())], value=v.orelse), st)
                new = ast.copy_location(ast.If(test=v.test, body=block([a]), orelse=block([b])), st)
                ast.fix_missing_locations(new)
                out.append(new)
                count[0] += 1
                continue
            if t and isinstance(v, ast.Call) and len(v.args) == 3 and not v.keywords and isinstance(v.func, (ast.Name, ast.Attribute)) \
                    and (v.func.id if isinstance(v.func, ast.Name) else v.func.attr) == "reduce" and isinstance(v.args[0], (ast.Name, ast.Attribute)) \
                    and resolve(v.func) == "functools.reduce" and resolve(v.args[0]) in ("operator.add", "operator.concat"):
                seq, init = v.args[1], v.args[2]
                if not any(isinstance(n, ast.Name) and n.id == t for n in ast.walk(seq)):
                    x = fresh("part")
                    if not (isinstance(init, ast.Name) and init.id == t):
                        out.append(ast.copy_location(ast.Assign(targets=[ast.Name(id=t, ctx=ast.Store())], value=init), st))
                    loop = ast.copy_location(ast.For(target=ast.Name(id=x, ctx=ast.Store()), iter=seq, orelse=[], type_comment=None,
                                                     body=[ast.Assign(targets=[ast.Name(id=t, ctx=ast.Store())],
                                                                      value=ast.BinOp(left=ast.Name(id=t, ctx=ast.Load()), op=ast.Add(), right=ast.Name(id=x, ctx=ast.Load())))]), st)
                    out.append(loop)
                    for z in out[-2:]:
                        ast.fix_missing_locations(z)
                    count[0] += 1
                    continue
            out.append(st)
        return out
    fn.body = block(fn.body)
    return count[0]


PINNED_SHORT_NAMES: Set[str] = set()      # short names of the functions of the pinned tree (filled by normalize()): they know nothing of records added later


PURE_METHODS = {"startswith", "endswith", "isdigit", "isalpha", "isalnum", "lower", "upper", "strip", "lstrip", "rstrip", "get", "keys", "values", "items"}


def pure_test(e: ast.AST) -> bool:
    for x in ast.walk(e):
        if isinstance(x, ast.Call):
            if isinstance(x.func, ast.Attribute) and x.func.attr in PURE_METHODS:
                continue
            if isinstance(x.func, ast.Name) and x.func.id in ("isinstance", "len", "abs", "str", "float", "int", "bool"):
                continue
            return False
        if isinstance(x, (ast.NamedExpr, ast.Await, ast.Yield, ast.YieldFrom, ast.Lambda)):
            return False
    return True


def first_match_lists(fn: ast.AST) -> int:
    """L14: `found = [E for row in <table> if C]` ; `if found: return found[0]`  ->  one guard clause per row (`if C_k: return E_k`),
    when the tests are plain method / comparison tests (testing every row first or stopping at the first hit is then the same) and
    `found` is used nowhere else."""
    from .normalize import Subst, is_const_expr
    if not isinstance(fn, (ast.FunctionDef, ast.AsyncFunctionDef)):
        return 0
    esc = escaping_names(fn) | params_of(fn)
    count = [0]

    def block(stmts):
        stmts = list(stmts)
        for st in stmts:
            if isinstance(st, FUNC):
                continue
            for fld in ("body", "orelse", "finalbody"):
                if getattr(st, fld, None):
                    setattr(st, fld, block(getattr(st, fld)))
            for h in getattr(st, "handlers", []) or []:
                h.body = block(h.body)
        i = 0
        while i + 1 < len(stmts):
            a, b = stmts[i], stmts[i + 1]
            t = plain_assign(a)
            if t and t not in esc and isinstance(a.value, ast.ListComp) and len(a.value.generators) == 1 and a.value.generators[0].ifs and not a.value.generators[0].is_async \
                    and isinstance(a.value.generators[0].iter, (ast.Tuple, ast.List)) and 1 <= len(a.value.generators[0].iter.elts) <= 12 \
                    and all(is_const_expr(x) for x in a.value.generators[0].iter.elts) \
                    and isinstance(b, ast.If) and isinstance(b.test, ast.Name) and b.test.id == t and len(b.body) == 1 and isinstance(b.body[0], ast.Return) \
                    and isinstance(b.body[0].value, ast.Subscript) and isinstance(b.body[0].value.value, ast.Name) and b.body[0].value.value.id == t \
                    and isinstance(b.body[0].value.slice, ast.Constant) and b.body[0].value.slice.value == 0 \
                    and len(names_in(fn, t)[0]) == 2 and len(names_in(fn, t)[1]) == 1 and all(pure_test(c) for c in a.value.generators[0].ifs) and pure_test(a.value.elt):
                g = a.value.generators[0]
                new = []
                ok = True
                for row in g.iter.elts:
                    m: Dict[str, ast.AST] = {}
                    if not bind_pattern(g.target, row, m):
                        ok = False
                        break
                    conds = [Subst(m).visit(copy.deepcopy(c)) for c in g.ifs]
                    cond = conds[0] if len(conds) == 1 else ast.BoolOp(op=ast.And(), values=conds)
                    ret = ast.Return(value=Subst(m).visit(copy.deepcopy(a.value.elt)))
                    new.append(ast.copy_location(ast.If(test=cond, body=[ret], orelse=[]), a))
                if ok:
                    tail = list(b.orelse)
                    for x in new:
                        ast.fix_missing_locations(x)
                    stmts[i:i + 2] = new + tail
                    count[0] += 1
                    continue
            i += 1
        return stmts
    fn.body = block(fn.body)
    return count[0]


def split_walrus_conjunctions(fn: ast.AST) -> int:
    """`if A and (n := f(x)) > 3: BODY` (no else)  ->  `if A:` `if (n := f(x)) > 3: BODY` so that the binding can be written as a statement."""
    if not isinstance(fn, (ast.FunctionDef, ast.AsyncFunctionDef)):
        return 0
    count = [0]

    def block(stmts):
        for st in stmts:
            if isinstance(st, FUNC):
                continue
            for fld in ("body", "orelse", "finalbody"):
                if getattr(st, fld, None):
                    block(getattr(st, fld))
            for h in getattr(st, "handlers", []) or []:
                block(h.body)
            if isinstance(st, ast.If) and not st.orelse and isinstance(st.test, ast.BoolOp) and isinstance(st.test.op, ast.And):
                vals = st.test.values
                k = next((i for i, v in enumerate(vals) if i > 0 and any(isinstance(x, ast.NamedExpr) for x in ast.walk(v))), None)
                if k is not None:
                    head = vals[0] if k == 1 else ast.BoolOp(op=ast.And(), values=vals[:k])
                    rest = vals[k] if k == len(vals) - 1 else ast.BoolOp(op=ast.And(), values=vals[k:])
                    inner = ast.copy_location(ast.If(test=rest, body=st.body, orelse=[]), st)
                    st.test, st.body = head, [inner]
                    ast.fix_missing_locations(st)
                    count[0] += 1
        return stmts
    block(fn.body)
    return count[0]


def split_on_name_truth(fn: ast.AST) -> int:
    """S20: `out.append((t or text, "ok" if t else "no"))`  ->  `if t: out.append((t, "ok"))` / `else: out.append((text, "no"))` --
    a simple statement whose only conditional parts test the truth of one plain local name is split on that test."""
    if not isinstance(fn, (ast.FunctionDef, ast.AsyncFunctionDef)):
        return 0
    count = [0]

    class Pick(ast.NodeTransformer):
        def __init__(self, name, truth):
            self.name, self.truth = name, truth

        def is_n(self, e):
            return isinstance(e, ast.Name) and e.id == self.name

        def visit_Lambda(self, n):
            return n

        def visit_BoolOp(self, n):
            self.generic_visit(n)
            if self.is_n(n.values[0]) and len(n.values) >= 2:
                if isinstance(n.op, ast.Or):
                    return n.values[0] if self.truth else (n.values[1] if len(n.values) == 2 else ast.BoolOp(op=ast.Or(), values=n.values[1:]))
                return (n.values[1] if len(n.values) == 2 else ast.BoolOp(op=ast.And(), values=n.values[1:])) if self.truth else n.values[0]
            return n

        def visit_IfExp(self, n):
            self.generic_visit(n)
            if self.is_n(n.test):
                return n.body if self.truth else n.orelse
            if isinstance(n.test, ast.UnaryOp) and isinstance(n.test.op, ast.Not) and self.is_n(n.test.operand):
                return n.orelse if self.truth else n.body
            return n

    def candidates(st):
        names = set()
        for x in ast.walk(st):
            if isinstance(x, ast.BoolOp) and len(x.values) >= 2 and isinstance(x.values[0], ast.Name):
                names.add(x.values[0].id)
            elif isinstance(x, ast.IfExp):
                t = x.test.operand if isinstance(x.test, ast.UnaryOp) and isinstance(x.test.op, ast.Not) else x.test
                if isinstance(t, ast.Name):
                    names.add(t.id)
                else:
                    return None
        return names

    def block(stmts):
        out = []
        for st in stmts:
            if isinstance(st, FUNC):
                out.append(st)
                continue
            for fld in ("body", "orelse", "finalbody"):
                if getattr(st, fld, None):
                    setattr(st, fld, block(getattr(st, fld)))
            for h in getattr(st, "handlers", []) or []:
                h.body = block(h.body)
            if isinstance(st, ast.Expr) and isinstance(st.value, ast.Call) and isinstance(st.value.func, ast.Attribute) and st.value.func.attr == "append":
                names = candidates(st)
                n_if = sum(1 for x in ast.walk(st) if isinstance(x, (ast.IfExp, ast.BoolOp)))
                if names and len(names) == 1 and n_if >= 2:
                    nm = next(iter(names))
                    if nm not in params_of(fn) and not stores_in([st], nm):
                        a = Pick(nm, True).visit(copy.deepcopy(st))
                        b = Pick(nm, False).visit(copy.deepcopy(st))
                        new = ast.copy_location(ast.If(test=ast.Name(id=nm, ctx=ast.Load()), body=[a], orelse=[b]), st)
                        ast.fix_missing_locations(new)
                        out.append(new)
                        count[0] += 1
                        continue
            out.append(st)
        return out
    fn.body = block(fn.body)
    return count[0]


def fold_tested_names(fn: ast.AST) -> int:
    """Inside `if t:` (t a plain local not assigned in the branch) `t or x` is `t` and `a if t else b` is `a`; in the else branch the other way round."""
    if not isinstance(fn, (ast.FunctionDef, ast.AsyncFunctionDef)):
        return 0
    esc = escaping_names(fn)
    count = [0]

    class Pick(ast.NodeTransformer):
        def __init__(self, truth):
            self.truth = truth

        def visit_Lambda(self, n):
            return n

        def visit_BoolOp(self, n):
            self.generic_visit(n)
            v0 = n.values[0]
            if isinstance(v0, ast.Name) and v0.id in self.truth and len(n.values) >= 2:
                t = self.truth[v0.id]
                count[0] += 1
                rest = n.values[1] if len(n.values) == 2 else ast.BoolOp(op=type(n.op)(), values=n.values[1:])
                if isinstance(n.op, ast.Or):
                    return v0 if t else rest
                return rest if t else v0
            return n

        def visit_IfExp(self, n):
            self.generic_visit(n)
            t = n.test
            flip = False
            if isinstance(t, ast.UnaryOp) and isinstance(t.op, ast.Not):
                t, flip = t.operand, True
            if isinstance(t, ast.Name) and t.id in self.truth:
                count[0] += 1
                return n.body if self.truth[t.id] != flip else n.orelse
            return n

    def block(stmts, truth):
        truth = dict(truth)
        for st in stmts:
            if isinstance(st, FUNC):
                continue
            stored = {n.id for n in ast.walk(st) if isinstance(n, ast.Name) and isinstance(n.ctx, (ast.Store, ast.Del))}
            if isinstance(st, (ast.Expr, ast.Assign, ast.Return, ast.AugAssign)) and truth and not (stored & set(truth)):
                Pick(truth).visit(st)
            if isinstance(st, ast.If):
                t = st.test
                flip = False
                if isinstance(t, ast.UnaryOp) and isinstance(t.op, ast.Not):
                    t, flip = t.operand, True
                inner_t, inner_f = dict(truth), dict(truth)
                if isinstance(t, ast.Name) and t.id not in esc:
                    inner_t[t.id] = not flip
                    inner_f[t.id] = flip
                block(st.body, {k: v for k, v in inner_t.items()})
                block(st.orelse, {k: v for k, v in inner_f.items()})
            elif isinstance(st, (ast.For, ast.While, ast.AsyncFor)):
                inner = {k: v for k, v in truth.items() if k not in stored}
                block(st.body, inner)
                block(st.orelse, inner)
            elif isinstance(st, ast.Try):
                inner = {k: v for k, v in truth.items() if k not in stored}
                block(st.body, truth)
                for h in st.handlers:
                    block(h.body, inner)
                block(st.orelse, inner)
                block(st.finalbody, inner)
            elif isinstance(st, (ast.With, ast.AsyncWith)):
                block(st.body, truth)
            for nm in stored:
                truth.pop(nm, None)
    block(fn.body, {})
    if count[0]:
        ast.fix_missing_locations(fn)
    return count[0]


def scalarise_slot_dicts(fn: ast.AST) -> int:
    """S21: `slots = {"a": None, "b": None}` ... `if key in slots: slots[key] = v` ... `slots["a"]`: a local dict with constant keys used as a table of
    slots -- only indexed by its own constants, or filled under a membership test of the very key -- as one local per key and the
    if/elif chain on the key that the membership test abbreviates."""
    if not isinstance(fn, (ast.FunctionDef, ast.AsyncFunctionDef)):
        return 0
    esc = escaping_names(fn) | params_of(fn)
    n_done = 0
    for st in list(own_nodes(fn)):
        d = plain_assign(st)
        if not d or d in esc or not isinstance(st.value, ast.Dict) or not st.value.keys or len(st.value.keys) > 8:
            continue
        if not all(isinstance(k, ast.Constant) and isinstance(k.value, str) for k in st.value.keys) or len({k.value for k in st.value.keys}) != len(st.value.keys):
            continue
        if not all(isinstance(v, (ast.Constant, ast.Name)) for v in st.value.values):
            continue
        keys = [k.value for k in st.value.keys]
        loads, stores = names_in(fn, d)
        if len(stores) != 1:
            continue
        up = parents(fn)
        fills = []      # (if statement, key expression, value)
        const_uses = []
        ok = True
        for ld in loads:
            p = up.get(id(ld))
            if isinstance(p, ast.Subscript) and p.value is ld and isinstance(p.slice, ast.Constant) and p.slice.value in keys:
                const_uses.append(p)
                continue
            if isinstance(p, ast.Compare) and len(p.ops) == 1 and isinstance(p.ops[0], ast.In) and p.comparators[0] is ld:
                ifst = up.get(id(p))
                if isinstance(ifst, ast.If) and ifst.test is p and not ifst.orelse and len(ifst.body) == 1 and isinstance(ifst.body[0], ast.Assign) and len(ifst.body[0].targets) == 1:
                    tgt = ifst.body[0].targets[0]
                    if isinstance(tgt, ast.Subscript) and isinstance(tgt.value, ast.Name) and tgt.value.id == d and ast.dump(tgt.slice) == ast.dump(p.left) and _simple(p.left):
                        fills.append((ifst, p.left, ifst.body[0].value))
                        continue
                ok = False
                break
            if isinstance(p, ast.Subscript) and p.value is ld and isinstance(p.ctx, ast.Store) and isinstance(up.get(id(p)), ast.Assign) and isinstance(up.get(id(up.get(id(p)))), ast.If) \
                    and any(f[0] is up.get(id(up.get(id(p)))) for f in fills):
                continue
            ok = False
            break
        if not ok or not (fills or const_uses):
            continue
        # the Store subscript inside a fill comes after its `in` test in walk order or before: re-validate that every load is accounted for
        accounted = {id(u.value) for u in const_uses}
        for ifst, key_e, _v in fills:
            accounted.add(id(ifst.test.comparators[0]))
            accounted.add(id(ifst.body[0].targets[0].value))
        if any(id(ld) not in accounted for ld in loads):
            continue
        slot = {k: f"{d}__{i}" for i, k in enumerate(keys)}
        for u in const_uses:
            replace_child(up.get(id(u)), u, ast.copy_location(ast.Name(id=slot[u.slice.value], ctx=type(u.ctx)()), u))
        for ifst, key_e, val in fills:
            chain = None
            for k in reversed(keys):
                test = ast.Compare(left=copy.deepcopy(key_e), ops=[ast.Eq()], comparators=[ast.Constant(value=k)])
                body = [ast.Assign(targets=[ast.Name(id=slot[k], ctx=ast.Store())], value=copy.deepcopy(val))]
                chain = ast.If(test=test, body=body, orelse=[chain] if chain is not None else [])
            ast.copy_location(chain, ifst)
            ifst.test, ifst.body, ifst.orelse = chain.test, chain.body, chain.orelse
            ast.fix_missing_locations(ifst)
        new = [ast.copy_location(ast.Assign(targets=[ast.Name(id=slot[k.value], ctx=ast.Store())], value=v), st) for k, v in zip(st.value.keys, st.value.values)]
        parent = up.get(id(st))
        for fld in ("body", "orelse", "finalbody"):
            lst = getattr(parent, fld, None)
            if isinstance(lst, list) and st in lst:
                i = lst.index(st)
                lst[i:i + 1] = new
        for x in new:
            ast.fix_missing_locations(x)
        n_done += 1
    if n_done:
        ast.fix_missing_locations(fn)
    return n_done


# ----------------------------------------------------------------------------------------------------------------------
# S24  f(*x[:K]) under `len(x) >= K` (x not re-bound in between): the slice has exactly K elements -> f(x[0], ..., x[K-1])
def expand_sliced_star(fn) -> int:
    def at_least(test, name):
        """the largest K for which `test` being true implies len(name) >= K (0 if none)"""
        best = 0
        parts = test.values if isinstance(test, ast.BoolOp) and isinstance(test.op, ast.And) else [test]
        for t in parts:
            if isinstance(t, ast.Compare) and len(t.ops) == 1 and isinstance(t.left, ast.Call) and isinstance(t.left.func, ast.Name) and t.left.func.id == "len" \
                    and len(t.left.args) == 1 and isinstance(t.left.args[0], ast.Name) and t.left.args[0].id == name and isinstance(t.comparators[0], ast.Constant) \
                    and isinstance(t.comparators[0].value, int) and not isinstance(t.comparators[0].value, bool):
                k = t.comparators[0].value
                if isinstance(t.ops[0], (ast.GtE, ast.Eq)):
                    best = max(best, k)
                elif isinstance(t.ops[0], ast.Gt):
                    best = max(best, k + 1)
        return best

    n = 0

    def walk(stmts, known):
        nonlocal n
        for st in stmts:
            if isinstance(st, (ast.FunctionDef, ast.AsyncFunctionDef, ast.ClassDef)):
                continue
            # expand in the expressions this statement evaluates itself
            heads = [st] if not isinstance(st, (ast.If, ast.For, ast.While, ast.Try, ast.With)) else ([st.test] if isinstance(st, (ast.If, ast.While)) else [])
            for h in heads:
                for c in ast.walk(h):
                    if isinstance(c, ast.Call):
                        out = []
                        for a in c.args:
                            if isinstance(a, ast.Starred) and isinstance(a.value, ast.Subscript) and isinstance(a.value.value, ast.Name) and isinstance(a.value.slice, ast.Slice) \
                                    and a.value.slice.lower is None and a.value.slice.step is None and isinstance(a.value.slice.upper, ast.Constant) \
                                    and isinstance(a.value.slice.upper.value, int) and 0 < a.value.slice.upper.value <= known.get(a.value.value.id, 0):
                                out += [ast.Subscript(value=ast.Name(id=a.value.value.id, ctx=ast.Load()), slice=ast.Constant(value=i), ctx=ast.Load()) for i in range(a.value.slice.upper.value)]
                                n += 1
                            else:
                                out.append(a)
                        c.args = out
            stored = {x.id for x in ast.walk(st) if isinstance(x, ast.Name) and isinstance(x.ctx, (ast.Store, ast.Del))}
            if isinstance(st, ast.If):
                inner = dict(known)
                for name in {x.id for x in ast.walk(st.test) if isinstance(x, ast.Name)}:
                    k = at_least(st.test, name)
                    if k:
                        inner[name] = max(inner.get(name, 0), k)
                walk(st.body, inner)
                walk(st.orelse, dict(known))
            elif isinstance(st, (ast.For, ast.While)):
                inner = {k: v for k, v in known.items() if k not in stored}
                walk(st.body, dict(inner))
                walk(st.orelse, dict(inner))
            elif isinstance(st, ast.Try):
                inner = {k: v for k, v in known.items() if k not in stored}
                for blk in (st.body, st.orelse, st.finalbody, *[h.body for h in st.handlers]):
                    walk(blk, dict(inner))
            elif isinstance(st, ast.With):
                walk(st.body, known)
            for name in stored:
                known.pop(name, None)
    walk(fn.body, {})
    return n


# ----------------------------------------------------------------------------------------------------------------------
# S25  a value selected by an if-chain and consumed once by the very next statement: the consumer moves into the arms
#      if c: v = A            if c: x, y = A
#      else: v = B      ->    else: x, y = B            (A, B: names / constants / displays of those; v read nowhere else)
#      x, y = v
#      (also `strategy = pick; r = strategy(args)` with function names in the arms)
def sink_selected_value(fn) -> int:
    def simple(e):
        if isinstance(e, (ast.Constant, ast.Name)):
            return True
        if isinstance(e, (ast.Tuple, ast.List)):        # (no attribute reads: a property may run code)
            return all(simple(x) for x in e.elts)
        if isinstance(e, ast.UnaryOp) and isinstance(e.op, ast.USub):
            return isinstance(e.operand, ast.Constant)
        return False

    def leaves(st, v, out):
        """the arms of an if / elif / else chain, each of which is the single statement `v = <simple>`; False if the chain is anything else"""
        for arm in (st.body, st.orelse):
            if len(arm) == 1 and isinstance(arm[0], ast.If):
                if not leaves(arm[0], v, out):
                    return False
            elif len(arm) == 1 and isinstance(arm[0], ast.Assign) and len(arm[0].targets) == 1 and isinstance(arm[0].targets[0], ast.Name) \
                    and arm[0].targets[0].id == v and simple(arm[0].value):
                out.append((arm, arm[0]))
            else:
                return False
        return True

    loads = {}
    for x in ast.walk(fn):
        if isinstance(x, ast.Name) and isinstance(x.ctx, ast.Load):
            loads[x.id] = loads.get(x.id, 0) + 1
    n = 0

    def block(stmts):
        nonlocal n
        i = 0
        while i < len(stmts):
            st = stmts[i]
            for fld in ("body", "orelse", "finalbody"):
                if isinstance(getattr(st, fld, None), list) and not isinstance(st, FUNC):
                    block(getattr(st, fld))
            for h in getattr(st, "handlers", []) or []:
                block(h.body)
            if isinstance(st, ast.If) and st.orelse and i + 1 < len(stmts):
                first = st.body[0] if len(st.body) == 1 else None
                while isinstance(first, ast.If) and len(first.body) == 1:
                    first = first.body[0]
                v = first.targets[0].id if isinstance(first, ast.Assign) and len(first.targets) == 1 and isinstance(first.targets[0], ast.Name) else None
                nxt = stmts[i + 1]
                if v is not None and loads.get(v, 0) == 1 and isinstance(nxt, (ast.Assign, ast.Expr, ast.Return, ast.AugAssign, ast.AnnAssign)):
                    uses = [x for x in ast.walk(nxt) if isinstance(x, ast.Name) and x.id == v]
                    tests_read_v = any(isinstance(x, ast.Name) and x.id == v for t in ast.walk(st) if isinstance(t, ast.If) for x in ast.walk(t.test))
                    out = []
                    if len(uses) == 1 and isinstance(uses[0].ctx, ast.Load) and not tests_read_v and leaves(st, v, out) and len(out) >= 2:
                        for arm, asg in out:
                            new = copy.deepcopy(nxt)
                            val = asg.value

                            class Put(ast.NodeTransformer):
                                def visit_Name(self, x):
                                    return copy.deepcopy(val) if x.id == v and isinstance(x.ctx, ast.Load) else x
                            arm[0] = ast.copy_location(Put().visit(new), asg)
                        del stmts[i + 1]
                        loads[v] = 0
                        n += 1
                        ast.fix_missing_locations(st)
                        continue
            i += 1
    block(fn.body)
    return n
