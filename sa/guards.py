"""Guard chains: for every CFG node, which atomic branch conditions are known to hold there.

State = a set of alternatives (DNF); each alternative is the set of literals (condition text,
truth value) established along some family of paths. A literal dies when a name it mentions is
assigned. ``implied(state, pred)`` asks whether *every* alternative satisfies ``pred`` -- i.e.
the node is control-dependent on the condition on all paths.
"""
from __future__ import annotations

import ast
from typing import Dict, FrozenSet, Set, Tuple

from .cfg import CFG, Node
from .dataflow import solve
from .loader import norm_text

Literal = Tuple[str, bool]
CAP = 128


def stored_names(a: ast.AST) -> Set[str]:
    out = set()
    if a is None:
        return out
    # targets of a comprehension are local to the comprehension (Python 3): they bind nothing in the enclosing function
    comp_local = set()
    for n in ast.walk(a):
        if isinstance(n, ast.comprehension):
            comp_local |= {id(x) for x in ast.walk(n.target) if isinstance(x, ast.Name)}
    for n in ast.walk(a):
        if isinstance(n, ast.Name) and isinstance(n.ctx, (ast.Store, ast.Del)) and id(n) not in comp_local:
            out.add(n.id)
        elif isinstance(n, (ast.FunctionDef, ast.ClassDef)):
            out.add(n.name)
    return out


def node_stores(node: Node) -> Set[str]:
    a = node.ast
    if node.kind in ("stmt", "funcdef"):
        if isinstance(a, (ast.Import, ast.ImportFrom)):
            return {(x.asname or x.name).split(".")[0] for x in a.names}
        return stored_names(a)
    if node.kind == "bind":
        return stored_names(a.target)
    if node.kind == "with":
        out = set()
        for it in a.items:
            if it.optional_vars is not None:
                out |= stored_names(it.optional_vars)
        return out
    if node.kind == "except" and a.name:
        return {a.name}
    return set()


def cond_literal(test: ast.AST) -> Tuple[str, Set[str], bool]:
    """Normalised text of an atomic test, the names it mentions and a polarity flip."""
    flip = False
    t = test
    # x is True / x == True / x is not False -> x
    if isinstance(t, ast.Compare) and len(t.ops) == 1 and isinstance(t.comparators[0], ast.Constant) and isinstance(t.comparators[0].value, bool):
        c = t.comparators[0].value
        if isinstance(t.ops[0], (ast.Is, ast.Eq)):
            flip = not c
            t = t.left
        elif isinstance(t.ops[0], (ast.IsNot, ast.NotEq)):
            flip = c
            t = t.left
    if isinstance(t, ast.Call) and isinstance(t.func, ast.Name) and t.func.id == "bool" and len(t.args) == 1:
        t = t.args[0]
    names = {n.id for n in ast.walk(t) if isinstance(n, ast.Name)}
    return norm_text(t), names, flip


def guard_states(cfg: CFG) -> Dict[int, FrozenSet[FrozenSet[Literal]]]:
    lit_names: Dict[str, Set[str]] = {}

    def transfer(node: Node, state):
        killed = node_stores(node)
        if not killed:
            return state
        out = set()
        for alt in state:
            out.add(frozenset(l for l in alt if not (lit_names.get(l[0], set()) & killed)))
        return frozenset(out)

    def edge(node: Node, label, state):
        if node.kind == "cond" and label in ("T", "F"):
            text, names, flip = cond_literal(node.ast)
            lit_names[text] = names
            val = (label == "T") != flip
            out = set()
            for alt in state:
                if (text, not val) in alt:
                    continue  # contradictory alternative: infeasible
                out.add(alt | {(text, val)})
            if not out:
                return None
            return frozenset(out)
        return state

    collapsed: Set[int] = set()

    def join(node: Node, incoming):
        alts = set()
        for _, _, st in incoming:
            alts |= st
        if len(alts) > CAP or node.id in collapsed:
            collapsed.add(node.id)      # sticky: once a node keeps only the common literals it stays that way (monotone, so the solver converges)
            common = None
            for a in alts:
                common = set(a) if common is None else common & a
            return frozenset({frozenset(common or ())})
        return frozenset(alts)

    IN, _ = solve(cfg, frozenset({frozenset()}), transfer, edge, join)
    return IN


def implied(state, pred) -> bool:
    """True iff every alternative reaching the node satisfies pred(alternative)."""
    if state is None:
        return True   # unreachable node
    return all(pred(alt) for alt in state)


def common_literals(state) -> Set[Literal]:
    if not state:
        return set()
    it = iter(state)
    out = set(next(it))
    for a in it:
        out &= a
    return out
