"""L1 resolver: from a syntactic callee / attribute to a qualified name.

Rules match on what a name *resolves to* (``cm_colors.core.contrast.calculate_contrast_ratio``),
never on its local spelling: renaming an import alias is harmless, shadowing a name is
noticed (a shadowed name resolves to nothing and the rule that needs it stops).
"""
from __future__ import annotations

import ast
import builtins
from typing import Dict, List, Optional, Set

from .loader import FuncInfo, Module, Project, PACKAGE

BUILTINS = set(dir(builtins))

# attributes of the two repo classes whose class is known (confirmed by reading
# Color.__init__ / ColorPair.__init__; re-derived below from the constructors' bodies)
COLORS_MOD = "cm_colors.core.colors"


def own_nodes(fn: ast.AST):
    """Walk a function body without descending into nested defs / classes / lambdas."""
    stack = list(ast.iter_child_nodes(fn))
    while stack:
        n = stack.pop()
        yield n
        if isinstance(n, (ast.FunctionDef, ast.AsyncFunctionDef, ast.ClassDef, ast.Lambda)):
            continue
        stack.extend(ast.iter_child_nodes(n))


def assigned_names(fn: ast.AST) -> Set[str]:
    out: Set[str] = set()
    for n in own_nodes(fn):
        if isinstance(n, ast.Name) and isinstance(n.ctx, (ast.Store, ast.Del)):
            out.add(n.id)
        elif isinstance(n, (ast.FunctionDef, ast.AsyncFunctionDef, ast.ClassDef)):
            out.add(n.name)
        elif isinstance(n, ast.ExceptHandler) and n.name:
            out.add(n.name)
        elif isinstance(n, (ast.Import, ast.ImportFrom)):
            for a in n.names:
                out.add((a.asname or a.name).split(".")[0])
    return out


class Scope:
    def __init__(self, project: Project, fi: Optional[FuncInfo], module: Optional[Module] = None):
        self.project = project
        self.fi = fi
        self.module = fi.module if fi else module
        self.local_imports: Dict[str, str] = {}
        self.local_defs: Dict[str, str] = {}
        self.locals: Set[str] = set()
        self.parent: Optional[Scope] = None
        if fi is not None:
            for n in own_nodes(fi.node):
                if isinstance(n, (ast.Import, ast.ImportFrom)):
                    self.module.index_imports(n, self.local_imports)
                elif isinstance(n, (ast.FunctionDef, ast.AsyncFunctionDef)):
                    self.local_defs[n.name] = f"{fi.qualname}.<locals>.{n.name}"
            self.locals = assigned_names(fi.node) | set(fi.params())
            if fi.parent is not None:
                self.parent = Scope(project, fi.parent)

    # ---------------------------------------------------------------- names
    def canonical(self, dotted: str) -> str:
        """Follow re-exports through the package's own import tables."""
        seen = set()
        while dotted not in seen:
            seen.add(dotted)
            if "." not in dotted:
                break
            mod, name = dotted.rsplit(".", 1)
            m = self.project.modules.get(mod)
            if m is None:
                break
            if name in m.funcs or name in m.classes or name in m.top_assigns:
                break
            if name in m.imports:
                dotted = m.imports[name]
                continue
            break
        return dotted

    def resolve_name(self, name: str) -> Optional[str]:
        if name in self.local_defs:
            return self.local_defs[name]
        if name in self.local_imports:
            return self.canonical(self.local_imports[name])
        if name in self.locals:
            return None  # a local variable / parameter: not statically a function
        if self.parent is not None:
            return self.parent.resolve_name(name)
        m = self.module
        if name in m.imports:
            return self.canonical(m.imports[name])
        if name in m.funcs:
            return f"{m.name}.{name}"
        if name in m.classes:
            return f"{m.name}.{name}"
        if name in m.top_assigns:
            return f"{m.name}.{name}"
        if name in BUILTINS:
            return f"builtins.{name}"
        return None

    def resolve(self, expr: ast.AST) -> Optional[str]:
        """Dotted name an expression denotes (module / function / class / module constant)."""
        if isinstance(expr, ast.Name):
            return self.resolve_name(expr.id)
        if isinstance(expr, ast.Attribute):
            base = self.resolve(expr.value)
            if base is None:
                return None
            if base.startswith("builtins."):
                return None
            return self.canonical(f"{base}.{expr.attr}")
        return None

    # ---------------------------------------------------------------- classes
    def class_of(self, expr: ast.AST, depth: int = 0) -> Optional[str]:
        """Repo class an expression's value is an instance of (Color / ColorPair), or None."""
        if depth > 6:
            return None
        if isinstance(expr, ast.Call):
            q = self.resolve(expr.func)
            if q and self._is_class(q):
                return q
            return None
        if isinstance(expr, ast.Name):
            if expr.id == "self" and self.fi is not None and self.fi.cls:
                return f"{self.module.name}.{self.fi.cls}"
            cache = self.__dict__.setdefault("_name_class", {})
            if self.fi is not None and expr.id in cache:
                return cache[expr.id]
            if self.fi is not None:
                cache[expr.id] = None       # (cycle guard; replaced below)
                # all assignments to the name must construct the same class
                classes = set()
                for n in own_nodes(self.fi.node):
                    if isinstance(n, ast.Assign):
                        for t in n.targets:
                            if isinstance(t, ast.Name) and t.id == expr.id:
                                classes.add(self.class_of(n.value, depth + 1))
                    elif isinstance(n, (ast.AugAssign, ast.AnnAssign)) and isinstance(n.target, ast.Name) and n.target.id == expr.id:
                        classes.add(None)
                    elif isinstance(n, (ast.For, ast.comprehension)) and any(
                        isinstance(t, ast.Name) and t.id == expr.id for t in ast.walk(n.target)
                    ):
                        classes.add(None)
                    elif isinstance(n, ast.Assign) is False and isinstance(n, ast.Tuple):
                        pass
                # tuple-unpacking targets make the class unknown
                for n in own_nodes(self.fi.node):
                    if isinstance(n, ast.Assign):
                        for t in n.targets:
                            if isinstance(t, (ast.Tuple, ast.List)) and any(
                                isinstance(e, ast.Name) and e.id == expr.id for e in ast.walk(t)
                            ):
                                classes.add(None)
                if len(classes) == 1:
                    cache[expr.id] = next(iter(classes))
                    return cache[expr.id]
            return None
        if isinstance(expr, ast.Attribute):
            base = self.class_of(expr.value, depth + 1)
            if base is None:
                return None
            return self.attr_class(base, expr.attr)
        return None

    def _is_class(self, q: str) -> bool:
        mod, _, name = q.rpartition(".")
        m = self.project.modules.get(mod)
        return bool(m and name in m.classes)

    def attr_class(self, cls_q: str, attr: str) -> Optional[str]:
        """Class of ``instance.attr`` derived from ``self.attr = Class(...)`` in __init__."""
        mod, _, name = cls_q.rpartition(".")
        m = self.project.modules.get(mod)
        if not m:
            return None
        init = m.funcs.get(f"{name}.__init__")
        if not init:
            return None
        sc = Scope(self.project, init)
        found = set()
        for n in own_nodes(init.node):
            if isinstance(n, ast.Assign):
                for t in n.targets:
                    if isinstance(t, ast.Attribute) and isinstance(t.value, ast.Name) and t.value.id == "self" and t.attr == attr:
                        found.add(sc.class_of(n.value))
        if len(found) == 1:
            return next(iter(found))
        # parameters annotated Optional["Color"] (background_context)
        return None

    def resolve_member(self, expr: ast.Attribute) -> Optional[str]:
        """``obj.attr`` where obj is an instance of a repo class -> qualified method/property."""
        cls = self.class_of(expr.value)
        if cls is None:
            return None
        mod, _, name = cls.rpartition(".")
        m = self.project.modules.get(mod)
        if m and f"{name}.{expr.attr}" in m.funcs:
            return f"{mod}.{name}.{expr.attr}"
        return None

    def resolve_call(self, call: ast.Call) -> Optional[str]:
        q = self.resolve(call.func)
        if q is not None:
            # constructing a repo class = calling its __init__
            return q
        if isinstance(call.func, ast.Attribute):
            return self.resolve_member(call.func)
        return None


def is_property(fi: FuncInfo) -> bool:
    for d in fi.node.decorator_list:
        if isinstance(d, ast.Name) and d.id == "property":
            return True
    return False


def bind_args(fi: FuncInfo, call: ast.Call, skip_self: bool = False) -> Dict[str, ast.AST]:
    """Bind a call's actual arguments to the callee's parameter names."""
    a = fi.node.args
    pos = [x.arg for x in a.posonlyargs + a.args]
    if skip_self and pos and pos[0] in ("self", "cls"):
        pos = pos[1:]
    out: Dict[str, ast.AST] = {}
    for i, arg in enumerate(call.args):
        if isinstance(arg, ast.Starred):
            raise ValueError("starred argument")
        if i >= len(pos):
            raise ValueError("too many positional arguments")
        out[pos[i]] = arg
    names = set(pos) | {x.arg for x in a.kwonlyargs}
    for kw in call.keywords:
        if kw.arg is None:
            raise ValueError("**kwargs argument")
        if kw.arg not in names:
            raise ValueError(f"unknown keyword {kw.arg}")
        if kw.arg in out:
            raise ValueError(f"duplicate argument {kw.arg}")
        out[kw.arg] = kw.value
    return out


def call_sites(project: Project, target: str) -> List[tuple]:
    """All (FuncInfo|None, Module, Call) whose callee resolves to ``target``."""
    out = []
    for m in project.modules.values():
        # module level
        sc = Scope(project, None, m)
        for st in m.tree.body:
            if isinstance(st, (ast.FunctionDef, ast.AsyncFunctionDef, ast.ClassDef)):
                continue
            for n in ast.walk(st):
                if isinstance(n, ast.Call) and sc.resolve_call(n) == target:
                    out.append((None, m, n))
        for fi in m.funcs.values():
            if fi.qualname in getattr(project, "transparent", ()):
                continue        # a helper inlined into every caller: its calls are counted there, in the caller's context
            sc = Scope(project, fi)
            for n in own_nodes(fi.node):
                if isinstance(n, ast.Call) and sc.resolve_call(n) == target:
                    out.append((fi, m, n))
    return out



def local_aliases(fn: ast.AST) -> Dict[str, ast.AST]:
    """Locals bound exactly once to a plain attribute chain (`text = self.text`): name -> the chain they abbreviate."""
    names = [n for n in ast.walk(fn) if isinstance(n, ast.Name)]
    a = fn.args
    params = {x.arg for x in a.posonlyargs + a.args + a.kwonlyargs}
    out: Dict[str, ast.AST] = {}
    for st in ast.walk(fn):
        if isinstance(st, ast.Assign) and len(st.targets) == 1 and isinstance(st.targets[0], ast.Name) and isinstance(st.value, ast.Attribute):
            e = st.value
            while isinstance(e, ast.Attribute):
                e = e.value
            if not isinstance(e, ast.Name):
                continue
            name = st.targets[0].id
            if name in params or sum(1 for n in names if n.id == name and isinstance(n.ctx, (ast.Store, ast.Del))) != 1:
                continue
            if e.id not in params and sum(1 for n in names if n.id == e.id and isinstance(n.ctx, (ast.Store, ast.Del))) > 1:
                continue
            out[name] = st.value
    return out


def unalias(e: ast.AST, aliases: Dict[str, ast.AST]) -> ast.AST:
    """`text.rgb` with text = self.text  ->  `self.text.rgb` (a fresh expression; the original is not modified)."""
    import copy

    class T(ast.NodeTransformer):
        def visit_Name(self, n):
            if isinstance(n.ctx, ast.Load) and n.id in aliases:
                return copy.deepcopy(aliases[n.id])
            return n
    return T().visit(copy.deepcopy(e))
