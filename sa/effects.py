"""EFF: per-function effect summaries (state writes, argument mutation, I/O), closed over the
call graph; plus small syntactic helpers shared by several checks.

Everything here is computed from the syntax tree and the resolver's name tables; no
repository code runs.
"""
from __future__ import annotations

import ast
from dataclasses import dataclass, field
from typing import Dict, List, Optional, Set, Tuple

from .loader import FuncInfo, Module, Project, norm_text
from .resolve import Scope, own_nodes, is_property

MUTATORS = {"append", "extend", "insert", "add", "update", "setdefault", "pop", "popitem", "remove",
            "discard", "clear", "sort", "reverse", "__setitem__", "__delitem__", "appendleft", "extendleft",
            "difference_update", "intersection_update", "symmetric_difference_update", "__setattr__"}

MUTABLE_CTORS = {"builtins.list", "builtins.dict", "builtins.set", "builtins.bytearray",
                 "collections.defaultdict", "collections.OrderedDict", "collections.deque", "collections.Counter"}

CACHE_DECORATORS = {"functools.lru_cache", "functools.cache", "functools.cached_property"}

# ambient inputs (P5) -- prefix match on the resolved dotted name
AMBIENT_PREFIXES = ("random.", "time.", "datetime.", "uuid.", "secrets.", "os.environ", "os.getenv", "os.getpid",
                    "os.urandom", "os.getcwd", "os.times", "socket.", "getpass.", "platform.", "threading.get_ident",
                    "builtins.input", "sys.argv", "locale.", "gc.")
DYNAMIC = {"builtins.eval", "builtins.exec", "builtins.globals", "builtins.locals", "builtins.vars",
           "builtins.__import__", "builtins.setattr", "builtins.delattr", "importlib.import_module"}

# I/O primitives: resolved dotted names (prefix match where ending with '.')
IO_CONSOLE = {"builtins.print", "click.echo", "click.secho", "click.utils.echo", "click.termui.secho",
              "traceback.print_exc", "traceback.print_exception", "traceback.print_stack", "warnings.warn",
              "sys.stdout.write", "sys.stderr.write", "sys.stdout.writelines", "sys.stderr.writelines",
              "pprint.pprint", "rich.print", "rich.console.Console.print", "rich.console.Console.log",
              "builtins.breakpoint", "builtins.help"}
IO_CONSOLE_PREFIX = ("logging.", "rich.print", "rich.pretty.", "rich.inspect")
IO_FILE = {"builtins.open", "os.remove", "os.unlink", "os.rename", "os.replace", "os.mkdir", "os.makedirs",
           "os.rmdir", "os.removedirs", "os.truncate", "os.symlink", "os.link", "os.chmod", "os.utime", "os.open",
           "os.write", "os.mkfifo", "io.open", "codecs.open", "os.system", "os.popen"}
IO_FILE_PREFIX = ("shutil.", "tempfile.", "subprocess.", "pathlib.Path.write", "sqlite3.", "pickle.dump", "json.dump",
                  "shelve.", "dbm.", "zipfile.", "tarfile.", "webbrowser.")
# method names that are I/O whatever the (unresolvable) receiver is
IO_METHODS_FILE = {"write_text", "write_bytes", "touch", "unlink", "mkdir", "rmdir", "symlink_to",
                   "hardlink_to", "chmod", "lchmod"}   # names only pathlib.Path has
IO_METHODS_CONSOLE = {"print", "log", "print_exception", "rule", "print_json"}


def io_kind_of(q: Optional[str]) -> Optional[str]:
    if not q:
        return None
    if q in IO_CONSOLE or q.startswith(IO_CONSOLE_PREFIX):
        return "console"
    if q in IO_FILE or q.startswith(IO_FILE_PREFIX):
        return "file"
    return None


@dataclass
class IOSite:
    kind: str            # console | file
    node: ast.AST        # the Call
    what: str            # resolved name or method name
    mode: Optional[str] = None   # for open(): the mode string if constant


@dataclass
class Summary:
    fi: FuncInfo
    io: List[IOSite] = field(default_factory=list)
    calls: List[Tuple[str, ast.AST]] = field(default_factory=list)   # (callee qualname, node)
    self_writes: List[ast.AST] = field(default_factory=list)         # stores into self.* / mutation of self.*
    param_mut: Dict[str, List[ast.AST]] = field(default_factory=dict)   # param -> mutation sites
    module_writes: List[Tuple[str, ast.AST]] = field(default_factory=list)  # (dotted module-level name, node)
    ambient: List[Tuple[str, ast.AST]] = field(default_factory=list)
    dynamic: List[Tuple[str, ast.AST]] = field(default_factory=list)
    unresolved_calls: List[ast.AST] = field(default_factory=list)


def open_mode(call: ast.Call) -> Optional[str]:
    mode = None
    if len(call.args) >= 2:
        mode = call.args[1]
    for kw in call.keywords:
        if kw.arg == "mode":
            mode = kw.value
    if mode is None:
        return "r"
    if isinstance(mode, ast.Constant) and isinstance(mode.value, str):
        return mode.value
    return None  # not a constant: unknown


def root_name(expr: ast.AST) -> Optional[ast.Name]:
    """The Name at the base of an attribute/subscript chain (a.b[c].d -> a)."""
    while isinstance(expr, (ast.Attribute, ast.Subscript)):
        expr = expr.value
    return expr if isinstance(expr, ast.Name) else None


class FunctionFacts:
    """Local facts about one function: which names alias parameters / module-level objects /
    fresh local objects."""

    def __init__(self, project: Project, fi: FuncInfo):
        self.project = project
        self.fi = fi
        self.scope = Scope(project, fi)
        self.params = fi.params()
        # origins[name] = set of origin tags: ('param', p) | ('module', dotted) | ('fresh',) | ('unknown',)
        self.origins: Dict[str, Set[tuple]] = {p: {("param", p)} for p in self.params}
        self._compute_origins()

    def _origin_of_expr(self, e: ast.AST) -> Set[tuple]:
        if isinstance(e, ast.Name):
            if e.id in self.origins:
                return set(self.origins[e.id])
            q = self.scope.resolve_name(e.id)
            if q and not q.startswith("builtins."):
                return {("module", q)}
            return {("unknown",)}
        if isinstance(e, (ast.List, ast.Dict, ast.Set, ast.ListComp, ast.DictComp, ast.SetComp, ast.Tuple,
                          ast.Constant, ast.JoinedStr, ast.BinOp, ast.Compare, ast.BoolOp, ast.UnaryOp, ast.GeneratorExp)):
            if isinstance(e, ast.BoolOp):  # x or default
                out = set()
                for v in e.values:
                    out |= self._origin_of_expr(v)
                return out
            return {("fresh",)}
        if isinstance(e, ast.IfExp):
            return self._origin_of_expr(e.body) | self._origin_of_expr(e.orelse)
        if isinstance(e, ast.Call):
            return {("fresh",)}
        if isinstance(e, (ast.Attribute, ast.Subscript)):
            r = root_name(e)
            if r is not None:
                # a part of an object has the origin of the object
                q = self.scope.resolve(e) if isinstance(e, ast.Attribute) else None
                if q and not q.startswith("builtins.") and r.id not in self.origins:
                    return {("module", q)}
                return {(t[0] + "-part",) + t[1:] if t[0] in ("param", "module") else t for t in self._origin_of_expr(r)}
            return {("unknown",)}
        return {("unknown",)}

    def _compute_origins(self) -> None:
        assigns: List[Tuple[str, ast.AST]] = []
        for n in own_nodes(self.fi.node):
            if isinstance(n, ast.Assign):
                for t in n.targets:
                    if isinstance(t, ast.Name):
                        assigns.append((t.id, n.value))
                    elif isinstance(t, (ast.Tuple, ast.List)):
                        for el in ast.walk(t):
                            if isinstance(el, ast.Name):
                                assigns.append((el.id, ast.Subscript(value=n.value, slice=ast.Constant(0), ctx=ast.Load())
                                                if isinstance(n.value, (ast.Name, ast.Attribute, ast.Subscript)) else n.value))
            elif isinstance(n, ast.AnnAssign) and isinstance(n.target, ast.Name) and n.value is not None:
                assigns.append((n.target.id, n.value))
            elif isinstance(n, (ast.For, ast.comprehension)):
                for el in ast.walk(n.target):
                    if isinstance(el, ast.Name):
                        it = n.iter
                        assigns.append((el.id, ast.Subscript(value=it, slice=ast.Constant(0), ctx=ast.Load())
                                        if isinstance(it, (ast.Name, ast.Attribute, ast.Subscript)) else it))
            elif isinstance(n, ast.With):
                for item in n.items:
                    if item.optional_vars is not None:
                        for el in ast.walk(item.optional_vars):
                            if isinstance(el, ast.Name):
                                assigns.append((el.id, item.context_expr))
        changed = True
        rounds = 0
        while changed and rounds < 10:
            changed = False
            rounds += 1
            for name, val in assigns:
                o = self._origin_of_expr(val)
                cur = self.origins.setdefault(name, set())
                if not o <= cur:
                    cur |= o
                    changed = True

    def origin(self, e: ast.AST) -> Set[tuple]:
        return self._origin_of_expr(e)


def summarize(project: Project, fi: FuncInfo) -> Summary:
    s = Summary(fi)
    facts = FunctionFacts(project, fi)
    sc = facts.scope
    s.facts = facts

    def record_mutation(target: ast.AST, site: ast.AST) -> None:
        """target = the object expression being mutated in place."""
        r = root_name(target)
        if r is None:
            return
        for o in facts.origin(target) | (facts.origin(r) if r is not target else set()):
            tag = o[0]
            if tag in ("param", "param-part"):
                p = o[1]
                if p == "self" and fi.cls:
                    s.self_writes.append(site)
                else:
                    s.param_mut.setdefault(p, []).append(site)
            elif tag in ("module", "module-part"):
                s.module_writes.append((o[1], site))

    declared_global: Set[str] = set()
    for n in own_nodes(fi.node):
        if isinstance(n, (ast.Global, ast.Nonlocal)):
            declared_global |= set(n.names)

    for n in own_nodes(fi.node):
        # ---- stores
        targets: List[ast.AST] = []
        if isinstance(n, ast.Assign):
            targets = list(n.targets)
        elif isinstance(n, (ast.AugAssign, ast.AnnAssign)):
            targets = [n.target]
        elif isinstance(n, ast.Delete):
            targets = list(n.targets)
        flat: List[ast.AST] = []
        for t in targets:
            if isinstance(t, (ast.Tuple, ast.List)):
                flat += [e for e in ast.walk(t) if isinstance(e, (ast.Attribute, ast.Subscript, ast.Name)) and isinstance(getattr(e, "ctx", None), (ast.Store, ast.Del))]
            else:
                flat.append(t)
        for t in flat:
            if isinstance(t, (ast.Attribute, ast.Subscript)):
                record_mutation(t.value, n)
            elif isinstance(t, ast.Name):
                if t.id in declared_global:
                    q = f"{fi.module.name}.{t.id}"
                    s.module_writes.append((q, n))
                elif isinstance(n, ast.AugAssign):
                    # x += ... on a name bound to a container mutates in place
                    if is_containerish(fi, t.id) or aliases_module_container(project, facts, t):
                        record_mutation(t, n)
        # ---- calls
        if isinstance(n, ast.Call):
            q = sc.resolve_call(n)
            if q is not None and isinstance(n.func, ast.Attribute) and q not in project.funcs and io_kind_of(q) is None:
                rc = receiver_ctor(sc, fi, n.func.value)
                if rc and io_kind_of(f"{rc}.{n.func.attr}"):
                    if not (rc.startswith("logging.") and n.func.attr in ("debug", "info", "getChild", "setLevel", "isEnabledFor", "addHandler", "log")):
                        s.io.append(IOSite(io_kind_of(f"{rc}.{n.func.attr}"), n, f"{rc}().{n.func.attr}"))
                        continue
            if q is None:
                if isinstance(n.func, ast.Attribute):
                    meth = n.func.attr
                    if meth in MUTATORS:
                        record_mutation(n.func.value, n)
                    # console.print on an object constructed from rich's Console
                    recv_cls = receiver_ctor(sc, fi, n.func.value)
                    if recv_cls:
                        k = io_kind_of(f"{recv_cls}.{meth}")
                        if k:
                            s.io.append(IOSite(k, n, f"{recv_cls}.{meth}"))
                            continue
                    io = method_io_kind(facts, fi, n, meth, recv_cls)
                    if io:
                        s.io.append(IOSite(io, n, f".{meth}"))
                    s.unresolved_calls.append(n)
                else:
                    s.unresolved_calls.append(n)
                continue
            k = io_kind_of(q)
            if k:
                s.io.append(IOSite(k, n, q, open_mode(n) if q in ("builtins.open", "io.open", "codecs.open") else None))
            if q.startswith(AMBIENT_PREFIXES):
                s.ambient.append((q, n))
            if q in DYNAMIC:
                s.dynamic.append((q, n))
            if q in project.funcs or (q + ".__init__") in project.funcs:
                s.calls.append((q if q in project.funcs else q + ".__init__", n))
            # builtins that mutate their first argument
            if q in ("builtins.setattr", "builtins.delattr") and n.args:
                record_mutation(n.args[0], n)
        # ---- property loads are calls too
        if isinstance(n, ast.Attribute) and isinstance(n.ctx, ast.Load):
            q = sc.resolve_member(n)
            if q and q in project.funcs and is_property(project.funcs[q]):
                s.calls.append((q, n))
            else:
                dq = sc.resolve(n)
                if dq and dq.startswith(AMBIENT_PREFIXES):
                    s.ambient.append((dq, n))
    return s


def aliases_module_container(project: Project, facts: "FunctionFacts", name_node: ast.Name) -> bool:
    """The name may be bound to a module-level list/dict/set (so `name += x` extends that shared object)."""
    for o in facts.origin(name_node):
        if o[0] in ("module", "module-part"):
            mod, _, nm = o[1].rpartition(".")
            m = project.modules.get(mod)
            v = m.top_assigns.get(nm) if m else None
            if isinstance(v, (ast.List, ast.Dict, ast.Set, ast.ListComp, ast.DictComp, ast.SetComp)) or (isinstance(v, ast.Call) and isinstance(v.func, ast.Name) and v.func.id in ("list", "dict", "set", "defaultdict", "deque")):
                return True
    return False


def is_containerish(fi: FuncInfo, name: str) -> bool:
    """Is a local name used as a container (subscripted / iterated / len() / container annotation)?"""
    a = fi.node.args
    for p in a.posonlyargs + a.args + a.kwonlyargs:
        if p.arg == name and p.annotation is not None:
            txt = ast.unparse(p.annotation)
            if any(w in txt for w in ("List", "list", "Dict", "dict", "Set", "set", "Sequence", "Iterable")):
                return True
    d = fi.defaults().get(name)
    if isinstance(d, (ast.List, ast.Dict, ast.Set)):
        return True
    for n in own_nodes(fi.node):
        if isinstance(n, ast.Subscript) and isinstance(n.value, ast.Name) and n.value.id == name:
            return True
        if isinstance(n, (ast.For, ast.comprehension)) and isinstance(n.iter, ast.Name) and n.iter.id == name:
            return True
        if isinstance(n, ast.Call) and isinstance(n.func, ast.Name) and n.func.id == "len" and n.args and isinstance(n.args[0], ast.Name) and n.args[0].id == name:
            return True
        if isinstance(n, ast.Assign) and any(isinstance(t, ast.Name) and t.id == name for t in n.targets) and isinstance(n.value, (ast.List, ast.Dict, ast.Set, ast.ListComp)):
            return True
    return False


def receiver_ctor(sc: Scope, fi: FuncInfo, recv: ast.AST) -> Optional[str]:
    """Dotted constructor the receiver object was built with (``console = Console()``)."""
    if isinstance(recv, ast.Call):
        return sc.resolve(recv.func)
    if isinstance(recv, ast.Name) and recv.id not in sc.locals:
        # a module-level object: logger = logging.getLogger(__name__)
        q = sc.resolve_name(recv.id)
        if q:
            mod, _, nm = q.rpartition(".")
            m = sc.project.modules.get(mod)
            v = m.top_assigns.get(nm) if m else None
            if isinstance(v, ast.Call):
                return Scope(sc.project, None, m).resolve(v.func)
    if isinstance(recv, ast.Name):
        ctors = set()
        for n in own_nodes(fi.node):
            if isinstance(n, ast.Assign) and any(isinstance(t, ast.Name) and t.id == recv.id for t in n.targets):
                if isinstance(n.value, ast.Call):
                    ctors.add(sc.resolve(n.value.func))
                else:
                    ctors.add(None)
        if len(ctors) == 1:
            c = next(iter(ctors))
            if c and not c.startswith("builtins."):
                return c
    return None


def method_io_kind(facts: "FunctionFacts", fi: FuncInfo, call: ast.Call, meth: str, recv_cls: Optional[str]) -> Optional[str]:
    """I/O by method name when the receiver's class cannot be resolved."""
    recv = call.func.value
    if meth in IO_METHODS_FILE:
        return "file"
    if meth in ("rename", "replace") and len(call.args) == 1 and not call.keywords and not isinstance(recv, ast.Constant):
        return "file"      # Path.rename/replace(target); str.replace needs two arguments
    if meth in ("write", "writelines"):
        if isinstance(recv, ast.Name) and is_file_handle_write(fi, call):
            o = facts.origin(recv)
            if o == {("fresh",)}:
                return None    # handle opened in this function: the open() call is the recorded site
            return "file"
        if isinstance(recv, ast.Name):
            return None        # some local object with a .write method
        return "file"
    if meth == "print" and recv_cls is None and not isinstance(recv, ast.Constant):
        return "console"
    return None


def is_fresh_local_container(facts: FunctionFacts, recv: ast.AST) -> bool:
    o = facts.origin(recv)
    return o == {("fresh",)} and not isinstance(recv, ast.Call)


def is_file_handle_write(fi: FuncInfo, call: ast.Call) -> bool:
    """``f.write(...)`` where f is bound by ``with open(...) as f`` or ``f = open(...)``."""
    recv = call.func.value
    if not isinstance(recv, ast.Name):
        return True  # unknown receiver of .write: conservative
    for n in own_nodes(fi.node):
        if isinstance(n, ast.With):
            for item in n.items:
                if isinstance(item.optional_vars, ast.Name) and item.optional_vars.id == recv.id:
                    return True
        if isinstance(n, ast.Assign) and any(isinstance(t, ast.Name) and t.id == recv.id for t in n.targets):
            if isinstance(n.value, ast.Call):
                return True
    return False


class Effects:
    """Whole-package summaries + transitive closure."""

    def __init__(self, project: Project):
        self.project = project
        self.sum: Dict[str, Summary] = {q: summarize(project, fi) for q, fi in project.funcs.items()}
        # nested functions are reachable from their parent
        self.callees: Dict[str, Set[str]] = {}
        for q, s in self.sum.items():
            cs = {c for c, _ in s.calls}
            self.callees[q] = cs
        for q, fi in project.funcs.items():
            if fi.parent is not None:
                self.callees[fi.parent.qualname].add(q)

    def reach(self, start: str) -> Set[str]:
        seen = set()
        stack = [start]
        while stack:
            q = stack.pop()
            if q in seen or q not in self.sum:
                continue
            seen.add(q)
            stack.extend(self.callees.get(q, ()))
        return seen

    def io_reach(self, start: str) -> List[Tuple[str, IOSite]]:
        out = []
        for q in sorted(self.reach(start)):
            for site in self.sum[q].io:
                out.append((q, site))
        return out

    def io_kinds(self, start: str) -> Set[str]:
        return {site.kind for _, site in self.io_reach(start)}

    def mutated_params(self) -> Dict[str, Set[str]]:
        """Fixpoint: params whose contents a function may mutate, directly or via callees."""
        from .resolve import bind_args
        mut: Dict[str, Set[str]] = {q: set(s.param_mut) for q, s in self.sum.items()}
        # self writes count as mutation of 'self'
        for q, s in self.sum.items():
            if s.self_writes:
                mut[q].add("self")
        changed = True
        while changed:
            changed = False
            for q, s in self.sum.items():
                facts = s.facts
                for callee, node in s.calls:
                    if not isinstance(node, ast.Call):
                        # property load obj.prop: receiver is self of callee
                        if "self" in mut.get(callee, ()):
                            for o in facts.origin(node.value):
                                if o[0] in ("param", "param-part") and o[1] not in mut[q]:
                                    mut[q].add(o[1])
                                    changed = True
                        continue
                    cfi = self.project.funcs[callee]
                    try:
                        is_method = bool(cfi.cls)
                        b = bind_args(cfi, node, skip_self=is_method)
                    except ValueError:
                        continue
                    if is_method and isinstance(node.func, ast.Attribute) and not callee.endswith(".__init__"):
                        b = dict(b)
                        b["self"] = node.func.value
                    for p, actual in b.items():
                        if p in mut.get(callee, ()):
                            for o in facts.origin(actual):
                                if o[0] in ("param", "param-part") and o[1] not in mut[q]:
                                    mut[q].add(o[1])
                                    changed = True
        return mut



MUTABLE_DEFAULT_CTORS = {"builtins.list", "builtins.dict", "builtins.set", "builtins.bytearray", "collections.defaultdict", "collections.OrderedDict", "collections.deque", "collections.Counter"}


def shared_default_state(project, eff, qualnames):
    """[(FuncInfo, parameter, default expression, mutation sites)]: a mutable default argument (one object for all calls)
    that the function mutates -- state carried from one call to the next."""
    from .resolve import Scope
    out = []
    for q in sorted(qualnames):
        fi = project.funcs.get(q)
        if fi is None or q not in eff.sum:
            continue
        sc = Scope(project, fi.parent) if fi.parent else Scope(project, None, fi.module)
        for p, d in fi.defaults().items():
            mutable = isinstance(d, (ast.List, ast.Dict, ast.Set, ast.ListComp, ast.DictComp, ast.SetComp)) or \
                (isinstance(d, ast.Call) and sc.resolve(d.func) in MUTABLE_DEFAULT_CTORS)
            if not mutable:
                continue
            sites = list(eff.sum[q].param_mut.get(p, []))
            if sites:
                out.append((fi, p, d, sites))
    return out
