"""Modular contract verification driver for the GF engine (C01, C02, C04, C16)."""
from __future__ import annotations

import ast
from typing import Dict, List, Optional, Tuple

from . import contracts as C
from .gf import (Analysis, CR, ITEM, K, K_FALSE, K_NONE, K_TRUE, P, State, norm_colour, show)
from .loader import AnalysisError, Project, norm_text


def tag_of(atom) -> str:
    k = atom[0]
    if k == "imp" and atom[2][0] == "eq" and atom[2][2][0] == "tuple":
        return "C16"
    if k == "imp" and atom[1][0] in ("truthy", "falsy") and atom[2][0] in ("ge", "gt"):
        return "C01"
    if k == "boolean":
        return "C01"
    if k == "ge":
        return "C02"
    if k == "imp" and atom[1][0] == "ge":
        return "C02"
    return "C04"


class Result:
    __slots__ = ("fi", "case", "node", "atom", "ok", "tag", "ret", "facts", "clause")

    def __init__(self, fi, case, node, atom, ok, tag, ret, facts, clause):
        self.fi, self.case, self.node, self.atom, self.ok, self.tag, self.ret, self.facts, self.clause = fi, case, node, atom, ok, tag, ret, facts, clause


def cases_for(q: str) -> List[Tuple[str, list, Dict[str, tuple], Optional[tuple]]]:
    """(label, assumptions, parameter terms for the contract, chain goal)."""
    if q in (C.BSL, C.GD):
        return [("any arguments", [], {}, None)]
    if q == C.GAC:
        base = [("notnone", P("target_contrast")), ("notnone", P("min_contrast")), ("valid8", P("text_rgb"))]
        return [("default schedule", base + [("isnone", P("delta_e_sequence"))], {}, None),
                ("caller-supplied schedule", base + [("notnone", P("delta_e_sequence"))], {}, None)]
    if q in (C.STRICT, C.RECURSIVE, C.RELAXED):
        return [("any arguments", [("valid8", P("text_rgb"))], {}, (P("text_rgb"), P("bg_rgb")))]
    if q == C.CAF:
        out = []
        for prem in (False, True):
            for large in (False, True):
                for mlabel, massume in (("mode=0", [("eq", P("mode"), K(0))]), ("mode=2", [("eq", P("mode"), K(2))]),
                                        ("mode=other", [("ne", P("mode"), K(0)), ("ne", P("mode"), K(2))])):
                    out.append((f"premium={prem}, large={large}, {mlabel}",
                                [("truthy" if prem else "falsy", P("premium")), ("truthy" if large else "falsy", P("large"))] + massume, {}, None))
        return out
    if q == C.MAKE:
        out = []
        large_t = ("attr", P("self"), "large")
        for prem in (False, True):
            for large in (False, True):
                out.append((f"very_readable={prem}, large_text={large}",
                            [("truthy" if prem else "falsy", P("very_readable")), ("truthy" if large else "falsy", large_t)], {}, None))
        return out
    if q in ADOPTED:
        return [("any arguments", [("valid8", P("text_rgb"))], {}, (P("text_rgb"), P("bg_rgb")))]
    raise AnalysisError(f"no verification cases for {q}")


ADOPTED: set = set()       # helpers introduced after the pinned tree that were given (and verified against) a strategy-style contract


def contract_args(q: str, contract: C.Contract) -> Dict[str, tuple]:
    if q == C.MAKE:
        return {"text": ("attr", ("attr", P("self"), "text"), "_rgb"), "bg": ("attr", ("attr", P("self"), "bg"), "_rgb"),
                "large": ("attr", P("self"), "large"), "mode": P("mode"), "premium": P("very_readable")}
    return {p: P(p) for p in contract.params}


def verify_function(project: Project, q: str, contracts: Dict[str, C.Contract]) -> Tuple[List[Result], List[Analysis]]:
    fi = project.func(q)
    contract = contracts[C.CAF] if q == C.MAKE else contracts[q]
    results: List[Result] = []
    analyses = []
    for (label, assumptions, _pt, chain_goal) in cases_for(q):
        an = Analysis(project, fi, contracts, assumptions=assumptions, chain_goal=chain_goal).run()
        analyses.append(an)
        a = contract_args(q, contract)
        init_pr = an.init.prover()
        posts = []
        for cl in contract.clauses:
            if all(init_pr.entails(x) for x in cl.assumes(a)):
                posts += [(cl.name, x) for x in cl.posts(("ret",), a)]
        n_ret = 0
        for node in an.cfg.nodes:
            if node.kind != "return" or node.id not in an.IN:
                continue
            st = an.IN[node.id]
            nf: List = []
            ret = an.ev(node.ast.value, st, node, [0], nf)
            st2 = st.with_facts(nf)
            if q == C.MAKE and ret == ("tuple", (K_NONE, K_FALSE)):
                continue   # the invalid-pair short-circuit (checked under C14)
            n_ret += 1
            pr = st2.prover()
            for (cname, post) in posts:
                if post[0] == "chainstep":
                    continue   # a label the contract hands to callers ("produced by this routine from text on bg"), not an obligation
                atom = subst_ret(post, ret)
                ok = pr.entails(atom)
                results.append(Result(fi, label, node, atom, ok, tag_of(post), ret, st2, cname))
        an.n_returns = n_ret
    return results, analyses


def subst_ret(atom, ret):
    from .gf import map_term, is_term

    def f(s):
        if s == ("ret",):
            return ret
        return None
    if atom[0] in ("imp", "and"):
        return (atom[0],) + tuple(subst_ret(x, ret) for x in atom[1:])
    return (atom[0],) + tuple(map_term(x, f) if is_term(x) else x for x in atom[1:])


def returns_of(an: Analysis):
    """(node, returned term, state after evaluating the return expression) for every reachable return."""
    for node in an.cfg.nodes:
        if node.kind != "return" or node.id not in an.IN:
            continue
        st = an.IN[node.id]
        nf: List = []
        ret = an.ev(node.ast.value, st, node, [0], nf)
        yield node, ret, st.with_facts(nf)
