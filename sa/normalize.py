"""L0.5 normaliser: undo extract-helper / extract-constant refactorings before anything is analysed.

The rules of /verif are anchored at the functions and module-level names the package defines at the
pinned tree (ref/baseline_names.json). A function or module-level constant that is *not* in that list
was introduced later -- typically by "extract helper", "extract constant", "hoist closure to module
level" or "template as str.format constant" refactorings. Such a name is transparent to the analyses:

  N-a  a load of a new module-level constant (literal, tuple of literals, arithmetic on literals,
       re.compile(<literals>), str constant) is replaced by a copy of its defining expression;
  N-b  '<template>'.format(a, b, k=c) with a constant template is rewritten to the equivalent f-string;
  N-c  a call of a new helper is inlined: expression-like helpers (if/return chains) become a conditional
       expression in place; statement-like helpers are spliced in before the statement that calls them,
       their `return e` rewritten to an assignment of a fresh result variable (structured return
       elimination; helpers returning from inside a loop or a `with` are left alone).

The rewrite happens on the in-memory syntax trees only; inserted nodes carry the position of the call
they replace, so reports still point at the caller's line. Nothing is executed. What could not be
normalised stays as written (and the rule that needs to read it reports ANALYSIS-INCONCLUSIVE).
"""
from __future__ import annotations

import ast
import copy
import json
import os
import string
from typing import Dict, List, Optional, Set

HERE = os.path.dirname(os.path.dirname(os.path.abspath(__file__)))
BASELINE = os.path.join(HERE, "ref", "baseline_names.json")
MAX_PASSES = 5
# parameters the pinned tree itself passes by keyword stay keywords (rules read them by name): ref/baseline_names.json "kwcalls"
def _kwcalls() -> Dict[str, List[str]]:
    try:
        with open(BASELINE) as fh:
            return json.load(fh).get("kwcalls", {})
    except OSError:
        return {}


KWCALLS = _kwcalls()
MAX_HELPER_STMTS = 60


def load_baseline():
    with open(BASELINE) as fh:
        d = json.load(fh)
    return set(d["functions"]), set(d["constants"])


def fingerprint(fn: ast.AST) -> Set[str]:
    """What a function mentions (callee names, attribute names, short constants): survives renaming the function itself."""
    toks = set()
    for n in ast.walk(fn):
        if isinstance(n, ast.Call):
            f = n.func
            toks.add("call:" + (f.id if isinstance(f, ast.Name) else f.attr if isinstance(f, ast.Attribute) else "?"))
        elif isinstance(n, ast.Attribute):
            toks.add("attr:" + n.attr)
        elif isinstance(n, ast.Constant) and isinstance(n.value, (int, float, str)) and not isinstance(n.value, bool):
            if isinstance(n.value, str) and len(n.value) > 40:
                continue
            toks.add("const:" + repr(n.value))
    return toks


def recover_renamed_anchors(project) -> List[str]:
    """A private anchor function that vanished while a new function with the same parameters and (nearly) the same
    content appeared in the same module / class was *renamed*: the rename is undone on the in-memory trees (definition,
    references, import aliases) so that the rules still find their anchor. Ambiguous or dissimilar candidates are
    left alone (the rule that needs the anchor then reports it vanished)."""
    try:
        with open(BASELINE) as fh:
            d = json.load(fh)
    except OSError:
        return []
    base = set(d["functions"])
    params = d.get("params", {})
    prints = {q: set(v) for q, v in d.get("fingerprints", {}).items()}
    missing = [q for q in sorted(base) if q not in project.funcs and ".<locals>." not in q]
    new = [q for q in sorted(project.funcs) if q not in base and ".<locals>." not in q]
    if not missing or not new:
        return []
    pairs = []
    for old in missing:
        cont = old.rpartition(".")[0]
        for n in new:
            if n.rpartition(".")[0] != cont or project.funcs[n].params() != params.get(old):
                continue
            a, b = prints.get(old, set()), fingerprint(project.funcs[n].node)
            sim = len(a & b) / max(1, len(a | b))
            pairs.append((sim, old, n))
    pairs.sort(reverse=True)
    renames: Dict[str, str] = {}
    used_old = set()
    for sim, old, n in pairs:
        if sim < 0.6 or old in used_old or n in renames:
            continue
        # unambiguous: no other candidate for this anchor (or this new function) comes close
        rivals = [s2 for (s2, o2, n2) in pairs if (o2 == old) != (n2 == n) and s2 > sim - 0.15]
        if rivals:
            continue
        renames[n] = old
        used_old.add(old)
    if not renames:
        return []
    from .resolve import Scope
    log = []
    # references first (while the index still knows the new names), then the definitions
    for m in project.modules.values():
        scopes = [(None, Scope(project, None, m), [st for st in m.tree.body if not isinstance(st, (ast.FunctionDef, ast.AsyncFunctionDef, ast.ClassDef))])]
        for fi in m.funcs.values():
            scopes.append((fi, Scope(project, fi), None))
        for fi, sc, stmts in scopes:
            nodes = list(own_walk(fi.node)) if fi is not None else [x for st in stmts for x in ast.walk(st)]
            for n in nodes:
                if isinstance(n, ast.Name) and isinstance(n.ctx, ast.Load):
                    q = sc.resolve_name(n.id)
                    if q in renames and n.id == q.rsplit(".", 1)[-1] and q.rpartition(".")[0] == m.name:
                        n.id = renames[q].rsplit(".", 1)[-1]
                elif isinstance(n, ast.Attribute):
                    q = sc.resolve(n) or sc.resolve_member(n)
                    if q in renames and n.attr == q.rsplit(".", 1)[-1]:
                        n.attr = renames[q].rsplit(".", 1)[-1]
        for n in ast.walk(m.tree):
            if isinstance(n, ast.ImportFrom):
                for a in n.names:
                    tgt = m.imports.get(a.asname or a.name)
                    for newq, oldq in renames.items():
                        if a.name == newq.rsplit(".", 1)[-1] and tgt is not None and Scope(project, None, m).canonical(tgt) == newq:
                            a.asname = a.asname or a.name
                            a.name = oldq.rsplit(".", 1)[-1]
    for newq, oldq in renames.items():
        project.funcs[newq].node.name = oldq.rsplit(".", 1)[-1]
        log.append(f"anchor {oldq} was renamed to {newq.rsplit('.', 1)[-1]}: analysed under its original name")
    project.reindex()
    return log


# ------------------------------------------------------------------------------------------------ helpers
def is_const_expr(e: ast.AST, depth: int = 0) -> bool:
    if depth > 6:
        return False
    if isinstance(e, ast.Constant):
        return True
    if isinstance(e, (ast.Tuple, ast.List)):
        return len(e.elts) <= 64 and all(is_const_expr(x, depth + 1) for x in e.elts)
    if isinstance(e, ast.UnaryOp) and isinstance(e.op, (ast.USub, ast.UAdd)):
        return is_const_expr(e.operand, depth + 1)
    if isinstance(e, ast.BinOp):
        return is_const_expr(e.left, depth + 1) and is_const_expr(e.right, depth + 1)
    if isinstance(e, ast.JoinedStr):
        return all(isinstance(v, ast.Constant) for v in e.values)
    if isinstance(e, ast.Dict):
        return len(e.keys) <= 64 and all(k is not None and is_const_expr(k, depth + 1) and is_const_expr(v, depth + 1) for k, v in zip(e.keys, e.values))
    if isinstance(e, ast.Set):
        return all(is_const_expr(x, depth + 1) for x in e.elts)
    if isinstance(e, ast.Call) and not e.keywords:
        f = e.func
        if isinstance(f, ast.Attribute) and isinstance(f.value, ast.Name) and f.value.id == "re" and f.attr == "compile":
            return all(is_const_expr(a, depth + 1) for a in e.args)
        if isinstance(f, ast.Name) and f.id.lstrip("_") in ("frozenset", "tuple", "MappingProxyType") and len(e.args) == 1:
            return is_const_expr(e.args[0], depth + 1)
        if isinstance(f, ast.Attribute) and f.attr == "MappingProxyType" and len(e.args) == 1:
            return is_const_expr(e.args[0], depth + 1)
        if isinstance(f, ast.Name) and f.id == "partial" and e.args and isinstance(e.args[0], ast.Name) and e.args[0].id in ("str", "int", "float", "round", "min", "max"):
            return all(is_const_expr(a, depth + 1) for a in e.args[1:])      # a builtin applied to constants: an immutable callable
    return False


def at(node: ast.AST, where: ast.AST) -> ast.AST:
    """Deep copy of node positioned at `where` (every node of the copy gets where's position)."""
    new = copy.deepcopy(node)
    for n in ast.walk(new):
        if isinstance(n, (ast.expr, ast.stmt, ast.arg, ast.keyword, ast.excepthandler)) or hasattr(n, "lineno"):
            for a in ("lineno", "col_offset", "end_lineno", "end_col_offset"):
                if hasattr(where, a):
                    setattr(n, a, getattr(where, a))
    return new


def format_to_joined(tmpl: str, call: ast.Call) -> Optional[ast.AST]:
    pos = list(call.args)
    if any(isinstance(a, ast.Starred) for a in pos) or any(k.arg is None for k in call.keywords):
        return None
    kws = {k.arg: k.value for k in call.keywords}
    values: List[ast.AST] = []
    auto = 0
    try:
        for lit, field, spec, conv in string.Formatter().parse(tmpl):
            if lit:
                values.append(ast.Constant(value=lit))
            if field is None:
                continue
            if spec and "{" in spec:
                return None
            if field == "":
                val = pos[auto]
                auto += 1
            elif field.isdigit():
                val = pos[int(field)]
            elif field in kws:
                val = kws[field]
            else:
                return None
            conversion = {"r": 114, "s": 115, "a": 97}.get(conv, -1) if conv else -1
            fs = ast.JoinedStr(values=[ast.Constant(value=spec)]) if spec else None
            values.append(ast.FormattedValue(value=copy.deepcopy(val), conversion=conversion, format_spec=fs))
    except (ValueError, IndexError):
        return None
    # merge adjacent constants
    merged: List[ast.AST] = []
    for v in values:
        if isinstance(v, ast.Constant) and merged and isinstance(merged[-1], ast.Constant):
            merged[-1] = ast.Constant(value=merged[-1].value + v.value)
        else:
            merged.append(v)
    return ast.JoinedStr(values=merged)


def zip_to_display(e: ast.AST) -> Optional[ast.AST]:
    """zip((a, b), (c, d)) as ((a, c), (b, d)); enumerate((a, b)) as ((0, a), (1, b))."""
    if isinstance(e, ast.Call) and isinstance(e.func, ast.Name) and e.func.id == "zip" and len(e.keywords) == 1 and e.keywords[0].arg == "strict" \
            and isinstance(e.keywords[0].value, ast.Constant) and e.keywords[0].value.value is False:
        e = ast.Call(func=e.func, args=e.args, keywords=[])       # zip(..., strict=False) is zip(...)
    if isinstance(e, ast.Call) and isinstance(e.func, ast.Name) and not e.keywords and e.args:
        if e.func.id == "zip" and all(isinstance(a, (ast.Tuple, ast.List)) and not any(isinstance(x, ast.Starred) for x in a.elts) for a in e.args) \
                and len({len(a.elts) for a in e.args}) == 1:
            return ast.Tuple(elts=[ast.Tuple(elts=[copy.deepcopy(a.elts[i]) for a in e.args], ctx=ast.Load()) for i in range(len(e.args[0].elts))], ctx=ast.Load())
        if e.func.id == "enumerate" and len(e.args) == 1 and isinstance(e.args[0], (ast.Tuple, ast.List)):
            return ast.Tuple(elts=[ast.Tuple(elts=[ast.Constant(value=i), copy.deepcopy(x)], ctx=ast.Load()) for i, x in enumerate(e.args[0].elts)], ctx=ast.Load())
    return None


def local_display(root: ast.AST, name: str) -> Optional[ast.AST]:
    """The display a local holds: it is assigned exactly once (a tuple / list display or a zip of displays) and read exactly once."""
    if not isinstance(root, (ast.FunctionDef, ast.AsyncFunctionDef)):
        return None
    stores = [x for x in ast.walk(root) if isinstance(x, ast.Name) and x.id == name and isinstance(x.ctx, (ast.Store, ast.Del))]
    loads = [x for x in ast.walk(root) if isinstance(x, ast.Name) and x.id == name and isinstance(x.ctx, ast.Load)]
    defs = [x for x in ast.walk(root) if isinstance(x, ast.Assign) and len(x.targets) == 1 and isinstance(x.targets[0], ast.Name) and x.targets[0].id == name]
    if len(stores) != 1 or len(defs) != 1 or not loads or name in {a.arg for a in root.args.args + root.args.kwonlyargs + root.args.posonlyargs}:
        return None
    v = defs[0].value
    if len(loads) != 1:
        # read several times: fine for a tuple of constants / of names that are themselves bound exactly once (nothing can change in between)
        def fixed(x):
            if isinstance(x, ast.Constant):
                return True
            if isinstance(x, ast.Name):
                return sum(1 for y in ast.walk(root) if isinstance(y, ast.Name) and y.id == x.id and isinstance(y.ctx, (ast.Store, ast.Del))) <= 1
            return False
        if not (isinstance(v, ast.Tuple) and all(fixed(x) for x in v.elts)):
            if not (isinstance(v, ast.Tuple) and all(isinstance(x, (ast.Name, ast.Constant)) for x in v.elts) and _same_definitions(root, defs[0], loads, {x.id for x in v.elts if isinstance(x, ast.Name)})):
                return None
    if isinstance(v, (ast.Tuple, ast.List)) and not any(isinstance(x, ast.Starred) for x in v.elts):
        return v
    return zip_to_display(v)


def _same_definitions(root, def_stmt, loads, names) -> bool:
    """At every one of `loads`, each of `names` still has exactly the definitions it had when def_stmt ran (reaching definitions)."""
    try:
        from .cfg import build_cfg, node_exprs
        from .defuse import reaching_defs
        cfg = build_cfg(root)
        params = [a.arg for a in root.args.posonlyargs + root.args.args + root.args.kwonlyargs] + ([root.args.vararg.arg] if root.args.vararg else []) + ([root.args.kwarg.arg] if root.args.kwarg else [])
        RD = reaching_defs(cfg, params)
    except Exception:
        return False
    at_def = None
    for node in cfg.nodes:
        if node.ast is def_stmt:
            at_def = {(x, d) for (x, d) in (RD.get(node.id) or ()) if x in names}
    if at_def is None:
        return False
    wanted = {id(l) for l in loads}
    seen = 0
    for node in cfg.nodes:
        for e in node_exprs(node):
            for x in ast.walk(e):
                if id(x) in wanted:
                    seen += 1
                    if {(y, d) for (y, d) in (RD.get(node.id) or ()) if y in names} != at_def:
                        return False
    return seen >= len(wanted)


def unroll_comprehension(n: ast.AST, root: Optional[ast.AST] = None) -> Optional[ast.AST]:
    """A comprehension over a display (of constants / plain names, or held by a single-use local), written out element by element."""
    if len(n.generators) != 1:
        return None
    g = n.generators[0]
    it = g.iter
    single_use = False
    if isinstance(it, ast.Name) and root is not None:
        d = local_display(root, it.id)
        if d is not None:
            it, single_use = d, True
    elif zip_to_display(it) is not None:
        it = zip_to_display(it)
    if g.ifs or g.is_async or not isinstance(it, (ast.Tuple, ast.List)) or not (1 <= len(it.elts) <= 24):
        return None
    if not single_use and not all(is_const_expr(x) or simple_arg(x) for x in it.elts):
        # (a display of constants / plain names: evaluating an element twice or not at all cannot matter; otherwise every target name must be
        #  read exactly once per element, unconditionally, so that each element is still evaluated exactly once)
        tnames = [t.id for t in ast.walk(g.target) if isinstance(t, ast.Name)]
        parts = [getattr(n, "elt", None), getattr(n, "key", None), getattr(n, "value", None)]
        reads = [x.id for p_ in parts if p_ is not None for x in ast.walk(p_) if isinstance(x, ast.Name) and isinstance(x.ctx, ast.Load)]
        cond = any(isinstance(x, (ast.IfExp, ast.BoolOp, ast.Lambda, ast.ListComp, ast.GeneratorExp, ast.SetComp, ast.DictComp)) for p_ in parts if p_ is not None for x in ast.walk(p_))
        if cond or any(reads.count(t) != 1 for t in tnames):
            return None
    g = copy.copy(g)
    g.iter = it

    def bind(target, value, out):
        if isinstance(target, ast.Name):
            out[target.id] = value
            return True
        if isinstance(target, (ast.Tuple, ast.List)) and isinstance(value, (ast.Tuple, ast.List)) and len(target.elts) == len(value.elts):
            return all(bind(t, v, out) for t, v in zip(target.elts, value.elts))
        return False
    items = []
    for x in g.iter.elts:
        m: Dict[str, ast.AST] = {}
        if not bind(g.target, x, m):
            return None
        if isinstance(n, ast.DictComp):
            items.append((Subst(m).visit(copy.deepcopy(n.key)), Subst(m).visit(copy.deepcopy(n.value))))
        else:
            items.append(Subst(m).visit(copy.deepcopy(n.elt)))
    if isinstance(n, ast.DictComp):
        return ast.Dict(keys=[k for k, _ in items], values=[v for _, v in items])
    if isinstance(n, ast.SetComp):
        return ast.Set(elts=items)
    if isinstance(n, ast.ListComp):
        return ast.List(elts=items, ctx=ast.Load())
    return ast.Tuple(elts=items, ctx=ast.Load())


def spread_mapping(call: ast.Call, root: ast.AST) -> None:
    """`tmpl.format(**fields)` where fields is a local assigned once from a dict display with constant keys:
    the keywords are written out as fields['key'] (in place)."""
    kws = []
    for k in call.keywords:
        if k.arg is None and isinstance(k.value, ast.Name) and isinstance(root, (ast.FunctionDef, ast.AsyncFunctionDef)):
            name = k.value.id
            stores = [x for x in ast.walk(root) if isinstance(x, ast.Name) and x.id == name and isinstance(x.ctx, (ast.Store, ast.Del))]
            defs = [x for x in ast.walk(root) if isinstance(x, ast.Assign) and len(x.targets) == 1 and isinstance(x.targets[0], ast.Name) and x.targets[0].id == name and isinstance(x.value, ast.Dict)]
            mutated = any(isinstance(x, ast.Subscript) and isinstance(x.ctx, (ast.Store, ast.Del)) and isinstance(x.value, ast.Name) and x.value.id == name for x in ast.walk(root)) \
                or any(isinstance(x, ast.Call) and isinstance(x.func, ast.Attribute) and isinstance(x.func.value, ast.Name) and x.func.value.id == name and x.func.attr in ("update", "pop", "setdefault", "clear", "popitem") for x in ast.walk(root))
            if len(stores) == 1 and len(defs) == 1 and not mutated and all(isinstance(kk, ast.Constant) and isinstance(kk.value, str) for kk in defs[0].value.keys):
                for kk in defs[0].value.keys:
                    kws.append(ast.keyword(arg=kk.value, value=ast.Subscript(value=ast.Name(id=name, ctx=ast.Load()), slice=ast.Constant(value=kk.value), ctx=ast.Load())))
                continue
        kws.append(k)
    call.keywords = kws


def contains(node: ast.AST, kinds) -> bool:
    return any(isinstance(n, kinds) for n in ast.walk(node))


def own_walk(fn: ast.AST):
    """Nodes of a function body, not descending into nested function / class definitions."""
    stack = list(getattr(fn, "body", []))
    while stack:
        n = stack.pop()
        yield n
        for ch in ast.iter_child_nodes(n):
            if isinstance(ch, (ast.FunctionDef, ast.AsyncFunctionDef, ast.ClassDef, ast.Lambda)):
                continue
            stack.append(ch)


def body_without_doc(fn: ast.AST) -> List[ast.stmt]:
    b = list(fn.body)
    if b and isinstance(b[0], ast.Expr) and isinstance(b[0].value, ast.Constant) and isinstance(b[0].value.value, str):
        b = b[1:]
    return b


def always_returns(stmts: List[ast.stmt]) -> bool:
    for st in stmts:
        if isinstance(st, (ast.Return, ast.Raise)):
            return True
        if isinstance(st, ast.If) and st.orelse and always_returns(st.body) and always_returns(st.orelse):
            return True
        if isinstance(st, ast.Try) and not st.finalbody:
            if always_returns(st.body + st.orelse) and all(always_returns(h.body) for h in st.handlers):
                return True
    return False


def has_return(stmts) -> bool:
    for st in stmts:
        for n in ast.walk(st):
            if isinstance(n, ast.Return):
                return True
            # nested defs: their returns are their own  (ast.walk descends; filter below)
    return False


def own_returns(stmts) -> bool:
    for st in stmts:
        if isinstance(st, ast.Return):
            return True
        if isinstance(st, (ast.FunctionDef, ast.AsyncFunctionDef, ast.ClassDef)):
            continue
        for fld in ("body", "orelse", "finalbody"):
            if own_returns(getattr(st, fld, []) or []):
                return True
        for h in getattr(st, "handlers", []) or []:
            if own_returns(h.body):
                return True
    return False


class Bail(Exception):
    pass


MUTATOR_METHODS = ("append", "extend", "insert", "pop", "remove", "clear", "update", "setdefault", "popitem", "add", "discard", "sort", "reverse", "__setitem__", "__delitem__")


def never_mutated(project, name: str) -> bool:
    """No statement of the package stores into / calls a mutator on / aliases an object reached through this name."""
    for m in project.modules.values():
        for n in ast.walk(m.tree):
            def is_it(x):
                return (isinstance(x, ast.Name) and x.id == name) or (isinstance(x, ast.Attribute) and x.attr == name)
            if isinstance(n, (ast.Subscript, ast.Attribute)) and isinstance(n.ctx, (ast.Store, ast.Del)) and is_it(n.value):
                return False
            if isinstance(n, ast.Call) and isinstance(n.func, ast.Attribute) and n.func.attr in MUTATOR_METHODS and is_it(n.func.value):
                return False
            if isinstance(n, ast.AugAssign) and is_it(n.target):
                return False
            if isinstance(n, ast.Assign) and is_it(n.value):
                return False      # aliased: writes through the alias are not tracked
            if isinstance(n, ast.Call) and any(is_it(a) for a in n.args) and not (isinstance(n.func, ast.Name) and n.func.id in ("len", "tuple", "list", "dict", "sorted", "max", "min", "sum", "any", "all", "enumerate", "zip", "frozenset", "set", "isinstance", "str", "repr")):
                return False      # handed to a function that might write into it
            if isinstance(n, ast.Return) and n.value is not None and is_it(n.value):
                return False
    return True


# ------------------------------------------------------------------------------------------------ expression-like helpers
def expr_of_block(stmts: List[ast.stmt], subst: Dict[str, ast.AST]) -> ast.AST:
    """`if c: return a` chains, single-assignment temporaries and a final return, as one expression."""
    if not stmts:
        raise Bail("falls off the end")
    st, rest = stmts[0], stmts[1:]
    if isinstance(st, ast.Return):
        return Subst(subst).visit(copy.deepcopy(st.value)) if st.value is not None else ast.Constant(value=None)
    if (isinstance(st, ast.Assign) and len(st.targets) == 1 and isinstance(st.targets[0], ast.Name)) or (isinstance(st, ast.AnnAssign) and isinstance(st.target, ast.Name) and st.value is not None):
        name = st.targets[0].id if isinstance(st, ast.Assign) else st.target.id
        val = Subst(subst).visit(copy.deepcopy(st.value))
        uses = sum(1 for r in rest for n in ast.walk(r) if isinstance(n, ast.Name) and n.id == name and isinstance(n.ctx, ast.Load))
        stores = sum(1 for r in rest for n in ast.walk(r) if isinstance(n, ast.Name) and n.id == name and isinstance(n.ctx, ast.Store))
        if stores or (uses > 1 and not simple_arg(val)):
            raise Bail("temporary used more than once")       # substituting it would duplicate a computation
        return expr_of_block(rest, {**subst, name: val})
    if isinstance(st, ast.If):
        test = Subst(subst).visit(copy.deepcopy(st.test))
        if st.orelse:
            if not (always_returns(st.body) and always_returns(st.orelse)) and not rest:
                raise Bail("branch without value")
            a = expr_of_block(st.body + ([] if always_returns(st.body) else rest), subst)
            b = expr_of_block(st.orelse + ([] if always_returns(st.orelse) else rest), subst)
            return ast.IfExp(test=test, body=a, orelse=b)
        if not always_returns(st.body):
            raise Bail("conditional side effect")
        return ast.IfExp(test=test, body=expr_of_block(st.body, subst), orelse=expr_of_block(rest, subst))
    if isinstance(st, ast.Pass):
        return expr_of_block(rest, subst)
    raise Bail(f"statement {type(st).__name__}")


class Subst(ast.NodeTransformer):
    def __init__(self, mapping: Dict[str, ast.AST]):
        self.mapping = mapping

    def visit_Name(self, n: ast.Name):
        if isinstance(n.ctx, ast.Load) and n.id in self.mapping:
            return copy.deepcopy(self.mapping[n.id])
        return n

    def visit_Lambda(self, n):
        shadow = {a.arg for a in n.args.args + n.args.kwonlyargs + n.args.posonlyargs}
        inner = {k: v for k, v in self.mapping.items() if k not in shadow}
        n.body = Subst(inner).visit(n.body)
        return n

    def _comp(self, n):
        shadow = set()
        for g in n.generators:
            for t in ast.walk(g.target):
                if isinstance(t, ast.Name):
                    shadow.add(t.id)
        inner = Subst({k: v for k, v in self.mapping.items() if k not in shadow})
        for g in n.generators:
            g.iter = inner.visit(g.iter)
            g.ifs = [inner.visit(x) for x in g.ifs]
        if hasattr(n, "elt"):
            n.elt = inner.visit(n.elt)
        else:
            n.key = inner.visit(n.key)
            n.value = inner.visit(n.value)
        return n

    visit_ListComp = visit_SetComp = visit_GeneratorExp = visit_DictComp = _comp


class Rename(ast.NodeTransformer):
    def __init__(self, mapping: Dict[str, str]):
        self.mapping = mapping

    def visit_Name(self, n: ast.Name):
        if n.id in self.mapping:
            n.id = self.mapping[n.id]
        return n

    def visit_ExceptHandler(self, n):
        if n.name and n.name in self.mapping:
            n.name = self.mapping[n.name]
        self.generic_visit(n)
        return n


class SpreadKw(ast.NodeTransformer):
    """`{**extra}` / `f(**extra)` with the keyword arguments the call site passed for **extra."""

    def __init__(self, name: str, extra: Dict[str, ast.AST]):
        self.name, self.extra = name, extra

    def visit_Dict(self, n: ast.Dict):
        self.generic_visit(n)
        keys, vals = [], []
        for k, v in zip(n.keys, n.values):
            if k is None and isinstance(v, ast.Name) and v.id == self.name:
                for kk, vv in self.extra.items():
                    keys.append(ast.Constant(value=kk))
                    vals.append(copy.deepcopy(vv))
            else:
                keys.append(k)
                vals.append(v)
        n.keys, n.values = keys, vals
        return n

    def visit_Call(self, n: ast.Call):
        self.generic_visit(n)
        kws = []
        for k in n.keywords:
            if k.arg is None and isinstance(k.value, ast.Name) and k.value.id == self.name:
                kws += [ast.keyword(arg=kk, value=copy.deepcopy(vv)) for kk, vv in self.extra.items()]
            else:
                kws.append(k)
        n.keywords = kws
        return n


def kwarg_only_spread(fn: ast.AST) -> bool:
    """The **kwargs parameter is used only as a `**name` spread in dict displays / calls."""
    name = fn.args.kwarg.arg
    spread = 0
    for n in own_walk(fn):
        if isinstance(n, ast.Dict):
            spread += sum(1 for k, v in zip(n.keys, n.values) if k is None and isinstance(v, ast.Name) and v.id == name)
        elif isinstance(n, ast.Call):
            spread += sum(1 for k in n.keywords if k.arg is None and isinstance(k.value, ast.Name) and k.value.id == name)
    uses = sum(1 for n in own_walk(fn) if isinstance(n, ast.Name) and n.id == name)
    return uses == spread


def bind_call(fn: ast.AST, call: ast.Call, skip_first: bool, extra_out: Optional[Dict[str, ast.AST]] = None) -> Dict[str, ast.AST]:
    a = fn.args
    if a.vararg or (a.kwarg and (extra_out is None or not kwarg_only_spread(fn))):
        raise Bail("variadic helper")
    pos = [x.arg for x in a.posonlyargs + a.args]
    if skip_first:
        pos = pos[1:]
    out: Dict[str, ast.AST] = {}
    if any(isinstance(x, ast.Starred) for x in call.args) or any(k.arg is None for k in call.keywords):
        raise Bail("starred call")
    if len(call.args) > len(pos):
        raise Bail("too many arguments")
    for p, v in zip(pos, call.args):
        out[p] = v
    allnames = pos + [x.arg for x in a.kwonlyargs]
    for k in call.keywords:
        if k.arg not in allnames and a.kwarg and extra_out is not None:
            extra_out[k.arg] = k.value
            continue
        if k.arg not in allnames or k.arg in out:
            raise Bail("keyword mismatch")
        out[k.arg] = k.value
    allpos = a.posonlyargs + a.args
    for p, d in zip(allpos[len(allpos) - len(a.defaults):], a.defaults):
        out.setdefault(p.arg, d)
    for p, d in zip(a.kwonlyargs, a.kw_defaults):
        if d is not None:
            out.setdefault(p.arg, d)
    for p in allnames:
        if p not in out:
            raise Bail(f"argument {p} missing")
    return out


def simple_arg(e: ast.AST) -> bool:
    if isinstance(e, (ast.Name, ast.Constant)):
        return True
    if isinstance(e, ast.Attribute):
        return simple_arg(e.value)
    if isinstance(e, ast.UnaryOp) and isinstance(e.operand, ast.Constant):
        return True
    if isinstance(e, ast.Tuple):
        return all(simple_arg(x) for x in e.elts)
    return False


def assigned_in(fn: ast.AST, imports: bool = True) -> Set[str]:
    out = set()
    for n in own_walk(fn):
        if isinstance(n, ast.Name) and isinstance(n.ctx, (ast.Store, ast.Del)):
            out.add(n.id)
        elif isinstance(n, ast.ExceptHandler) and n.name:
            out.add(n.name)
        elif imports and isinstance(n, (ast.Import, ast.ImportFrom)):
            for x in n.names:
                out.add((x.asname or x.name).split(".")[0])
    return out


def nested_def_names(fn: ast.AST) -> Set[str]:
    out = set()

    def walk(stmts):
        for s in stmts:
            if isinstance(s, (ast.FunctionDef, ast.AsyncFunctionDef, ast.ClassDef)):
                out.add(s.name)
                continue
            for fld in ("body", "orelse", "finalbody"):
                walk(getattr(s, fld, []) or [])
            for h in getattr(s, "handlers", []) or []:
                walk(h.body)
    walk(fn.body)
    return out


# ------------------------------------------------------------------------------------------------ statement-like helpers
def eliminate_returns(stmts: List[ast.stmt], cont: List[ast.stmt], result: Optional[str], where: ast.AST) -> List[ast.stmt]:
    """stmts followed by cont, with every `return e` turned into `result = e` (and nothing run after it)."""
    if not stmts:
        return eliminate_returns(cont, [], result, where) if cont else []
    st, rest = stmts[0], list(stmts[1:])
    if isinstance(st, ast.Return):
        if result is None:
            if st.value is not None and not isinstance(st.value, (ast.Constant, ast.Name)):
                return [ast.Expr(value=copy.deepcopy(st.value))]
            return [ast.Pass()]
        return [ast.Assign(targets=[ast.Name(id=result, ctx=ast.Store())], value=copy.deepcopy(st.value) if st.value is not None else ast.Constant(value=None))]
    if isinstance(st, ast.Raise):
        return [copy.deepcopy(st)]
    if not own_returns([st]):
        return [copy.deepcopy(st)] + eliminate_returns(rest, cont, result, where)
    if isinstance(st, ast.If):
        body_ret = always_returns(st.body)
        else_ret = always_returns(st.orelse) if st.orelse else False
        tail = rest + cont
        new = ast.If(test=copy.deepcopy(st.test), body=[], orelse=[])
        if body_ret and else_ret:
            new.body = eliminate_returns(st.body, [], result, where)
            new.orelse = eliminate_returns(st.orelse, [], result, where)
        elif body_ret:
            new.body = eliminate_returns(st.body, [], result, where)
            new.orelse = eliminate_returns(st.orelse, tail, result, where)      # the rest runs only when the body did not return
        elif else_ret:
            new.body = eliminate_returns(st.body, tail, result, where)
            new.orelse = eliminate_returns(st.orelse, [], result, where)
        else:
            # a return somewhere inside a branch that can also fall through: the continuation goes into both branches
            new.body = eliminate_returns(st.body, tail, result, where)
            new.orelse = eliminate_returns(st.orelse, tail, result, where)
        new.body = new.body or [ast.Pass()]
        return [new]
    if isinstance(st, ast.Try) and not st.finalbody:
        tail = rest + cont
        if any(not isinstance(t, (ast.Return, ast.Pass)) or (isinstance(t, ast.Return) and t.value is not None and not isinstance(t.value, (ast.Name, ast.Constant))) for t in tail):
            raise Bail("statements after a try block that returns")
        new = ast.Try(body=eliminate_returns(st.body + st.orelse, tail, result, where), handlers=[], orelse=[], finalbody=[])
        for h in st.handlers:
            new.handlers.append(ast.ExceptHandler(type=copy.deepcopy(h.type), name=h.name, body=eliminate_returns(h.body, tail, result, where) or [ast.Pass()]))
        return [new]
    raise Bail(f"return inside {type(st).__name__}")


class Inliner:
    def __init__(self, project, base_funcs: Set[str], base_consts: Set[str]):
        from .resolve import Scope
        self.Scope = Scope
        self.project = project
        self.base_funcs = base_funcs
        self.new_funcs = {q: fi for q, fi in project.funcs.items() if q not in base_funcs and self.inlinable_decl(fi)}
        self.new_consts: Dict[str, ast.AST] = {}
        self.func_tables: Dict[str, object] = {}
        for m in project.modules.values():
            for nm, expr in m.top_assigns.items():
                q = f"{m.name}.{nm}"
                if q in base_consts or nm.startswith("__"):
                    continue
                stores = sum(1 for n in ast.walk(m.tree) if isinstance(n, ast.Name) and n.id == nm and isinstance(n.ctx, (ast.Store, ast.Del)))
                glob = any(isinstance(n, ast.Global) and nm in n.names for n in ast.walk(m.tree))
                if any(isinstance(n, ast.Name) for n in ast.walk(expr)):
                    # a constant spelled through constants accepted before it (SUFFIX = STEM + ".css"): written out, text + text joined
                    me_consts, mod_name = self.new_consts, m.name

                    class _Known(ast.NodeTransformer):
                        def visit_Name(self, n):
                            k = me_consts.get(f"{mod_name}.{n.id}")
                            return copy.deepcopy(k) if k is not None and isinstance(n.ctx, ast.Load) and isinstance(k, ast.Constant) else n

                        def visit_BinOp(self, n):
                            self.generic_visit(n)
                            if isinstance(n.op, ast.Add) and isinstance(n.left, ast.Constant) and isinstance(n.right, ast.Constant) and isinstance(n.left.value, str) and isinstance(n.right.value, str):
                                return ast.copy_location(ast.Constant(value=n.left.value + n.right.value), n)
                            return n
                    expr = _Known().visit(copy.deepcopy(expr))
                    ast.fix_missing_locations(expr)
                if stores == 1 and not glob and is_const_expr(expr) and (not isinstance(expr, (ast.Dict, ast.List, ast.Set)) or never_mutated(project, nm)):
                    self.new_consts[q] = expr       # (a dict / list / set display counts only if nothing in the package writes into an object of that name)
                elif stores == 1 and not glob and isinstance(expr, (ast.Dict, ast.Tuple)) and never_mutated(project, nm) and self.function_table(m, expr):
                    self.new_consts[q] = expr       # a table of the module's own functions, keyed by constants
                    self.func_tables[q] = m
        # class-level tables of classes introduced after the pinned tree: `_Rules.TABLE = {...}` read as `_Rules.TABLE`
        base_classes = {q.rsplit(".", 1)[0] for q in base_funcs if q.rsplit(".", 1)[0].split(".")[-1][:1].isupper() or q.rsplit(".", 1)[0].split(".")[-1][:2] in ("_A", "_B")}
        for m in project.modules.values():
            for cst in m.tree.body:
                if not isinstance(cst, ast.ClassDef) or f"{m.name}.{cst.name}" in base_classes or any(f"{m.name}.{cst.name}." in bq for bq in base_funcs):
                    continue
                body = list(cst.body)
                # NAME = (..) ; NAME += (..)  in the class body: one tuple
                merged = []
                for st in body:
                    if isinstance(st, ast.AugAssign) and isinstance(st.op, ast.Add) and isinstance(st.target, ast.Name) and isinstance(st.value, ast.Tuple) and merged \
                            and isinstance(merged[-1], ast.Assign) and len(merged[-1].targets) == 1 and isinstance(merged[-1].targets[0], ast.Name) \
                            and merged[-1].targets[0].id == st.target.id and isinstance(merged[-1].value, ast.Tuple):
                        prev = merged[-1]
                        merged[-1] = ast.copy_location(ast.Assign(targets=prev.targets, value=ast.Tuple(elts=list(prev.value.elts) + list(st.value.elts), ctx=ast.Load())), prev)
                        ast.fix_missing_locations(merged[-1])
                        continue
                    merged.append(st)
                stores_in_class = {}
                for st in body:
                    for n in ast.walk(st):
                        if isinstance(n, ast.Name) and isinstance(n.ctx, (ast.Store, ast.Del)) and not isinstance(st, (ast.FunctionDef, ast.AsyncFunctionDef, ast.ClassDef)):
                            stores_in_class[n.id] = stores_in_class.get(n.id, 0) + 1
                for st in merged:
                    if isinstance(st, ast.Assign) and len(st.targets) == 1 and isinstance(st.targets[0], ast.Name) and isinstance(st.value, (ast.Dict, ast.Tuple)):
                        nm = st.targets[0].id
                        n_merged = sum(1 for x in merged if isinstance(x, ast.Assign) and any(isinstance(t, ast.Name) and t.id == nm for t in x.targets))
                        n_aug = sum(1 for x in merged if isinstance(x, ast.AugAssign) and isinstance(x.target, ast.Name) and x.target.id == nm)
                        if n_merged != 1 or n_aug:
                            continue
                        attr_stores = any(isinstance(n, ast.Attribute) and n.attr == nm and isinstance(n.ctx, (ast.Store, ast.Del)) for m2 in project.modules.values() for n in ast.walk(m2.tree))
                        vals = st.value.values if isinstance(st.value, ast.Dict) else st.value.elts
                        if not attr_stores and (isinstance(st.value, ast.Tuple) or never_mutated(project, nm)) and all(isinstance(v, ast.Lambda) or is_const_expr(v) for v in vals) \
                                and (not isinstance(st.value, ast.Dict) or all(k is not None and is_const_expr(k) for k in st.value.keys)) \
                                and not any(isinstance(x, ast.Name) and isinstance(x.ctx, ast.Load) and x.id not in {a.arg for l in ast.walk(st.value) if isinstance(l, ast.Lambda) for a in ast.walk(l.args) if isinstance(a, ast.arg)} for x in ast.walk(st.value)):
                            self.new_consts[f"{m.name}.{cst.name}.{nm}"] = st.value
        self.counter = 0
        self.log: List[str] = []
        for q, fi in list(self.new_funcs.items()):
            sc = self.Scope(project, fi)
            if any(isinstance(n, ast.Call) and sc.resolve_call(n) == q for n in own_walk(fi.node)):
                del self.new_funcs[q]          # recursive helper: left as it is

    @staticmethod
    def function_table(m, expr) -> bool:
        """A dict / tuple display whose leaves are constants or names of functions defined (once) at the top of module m."""
        defs = [st.name for st in m.tree.body if isinstance(st, (ast.FunctionDef, ast.AsyncFunctionDef))]
        rebound = {n.id for n in ast.walk(m.tree) if isinstance(n, ast.Name) and isinstance(n.ctx, (ast.Store, ast.Del))}

        def leaf(e, depth=0):
            if depth > 3:
                return False
            if isinstance(e, ast.Name):
                return defs.count(e.id) == 1 and e.id not in rebound
            if isinstance(e, ast.Tuple):
                return all(leaf(x, depth + 1) for x in e.elts)
            return is_const_expr(e)
        if isinstance(expr, ast.Dict):
            return bool(expr.keys) and len(expr.keys) <= 32 and all(k is not None and is_const_expr(k) for k in expr.keys) and all(leaf(v) for v in expr.values) \
                and any(isinstance(x, ast.Name) for v in expr.values for x in ast.walk(v))
        return len(expr.elts) <= 32 and all(leaf(v) for v in expr.elts) and any(isinstance(x, ast.Name) for v in expr.elts for x in ast.walk(v))

    @staticmethod
    def inlinable_decl(fi) -> bool:
        fn = fi.node
        if isinstance(fn, ast.AsyncFunctionDef) or fn.decorator_list and not all(isinstance(d, ast.Name) and d.id in ("staticmethod", "classmethod") for d in fn.decorator_list):
            return False
        if contains(ast.Module(body=fn.body, type_ignores=[]), (ast.Yield, ast.YieldFrom, ast.Await, ast.Global, ast.Nonlocal)):
            return False
        if nested_def_names(fn):
            return False
        if sum(1 for _ in own_walk(fn)) > 400:
            return False
        return True

    # -------------------------------------------------------------------------------------------- per function
    def run(self) -> int:
        total = 0
        for _ in range(MAX_PASSES):
            changed = 0
            for fi in list(self.project.funcs.values()):
                changed += self.function(fi)
            for m in self.project.modules.values():
                changed += self.module_level(m)
            total += changed
            if not changed:
                break
        return total

    def module_level(self, m) -> int:
        """Constants and templates used by other module-level statements (e.g. a constant built from a new constant)."""
        sc = self.Scope(self.project, None, m)
        n = 0
        for st in m.tree.body:
            if isinstance(st, (ast.FunctionDef, ast.AsyncFunctionDef, ast.ClassDef)):
                continue
            n += self.rewrite_exprs(st, sc, None)
        return n

    def function(self, fi) -> int:
        sc = self.Scope(self.project, fi)
        # 1. constants, templates and helpers that are one plain expression; 2. everything that can be spliced in as
        # statements (an if/return chain becomes the if/else assignment it was extracted from); 3. what is left
        # (calls in conditionally evaluated positions) as conditional expressions
        n = self.rewrite_exprs(fi.node, sc, fi, plain_only=True)
        n += self.inline_generators(fi, sc)
        n += self.splice(fi, sc)
        n += self.rewrite_exprs(fi.node, self.Scope(self.project, fi), fi, plain_only=False)
        return n

    # `for x in _gen(args): BODY` with _gen a generator introduced after the pinned tree: the generator's code with BODY in place of each yield
    def inline_generators(self, fi, sc) -> int:
        count = [0]
        me = self

        def generator(q):
            g = me.project.funcs.get(q)
            if g is None or q in me.base_funcs or g.parent is not None or g.cls is not None or isinstance(g.node, ast.AsyncFunctionDef) or g.node.decorator_list:
                return None
            body = body_without_doc(g.node)
            ys = [n for n in own_walk(g.node) if isinstance(n, (ast.Yield, ast.YieldFrom))]
            if not ys or any(isinstance(n, ast.YieldFrom) for n in ys) or len(ys) > 3:
                return None
            if any(isinstance(n, (ast.Try, ast.Global, ast.Nonlocal, ast.Await)) or (isinstance(n, ast.Return) and n.value is not None) for n in own_walk(g.node)):
                return None
            # a `with` block that is over before anything is yielded runs the same inlined; one that is suspended across a yield does not
            if any(isinstance(n, ast.With) and any(isinstance(y, (ast.Yield, ast.YieldFrom)) for y in ast.walk(n)) for n in own_walk(g.node)):
                return None
            if nested_def_names(g.node) or sum(1 for _ in own_walk(g.node)) > 200:
                return None
            # every yield is a statement of its own
            stmts_with_yield = [n for n in own_walk(g.node) if isinstance(n, ast.Expr) and isinstance(n.value, ast.Yield)]
            if len(stmts_with_yield) != len(ys) or any(n.value.value is None for n in stmts_with_yield):
                return None
            return g

        def block(stmts):
            out = []
            for st in stmts:
                if isinstance(st, (ast.FunctionDef, ast.AsyncFunctionDef, ast.ClassDef)):
                    out.append(st)
                    continue
                for fld in ("body", "orelse", "finalbody"):
                    if getattr(st, fld, None):
                        setattr(st, fld, block(getattr(st, fld)))
                for h in getattr(st, "handlers", []) or []:
                    h.body = block(h.body)
                if isinstance(st, ast.For) and not st.orelse and isinstance(st.iter, ast.Call) and (isinstance(st.target, ast.Name) or (
                        isinstance(st.target, ast.Tuple) and all(isinstance(t_, ast.Name) for t_ in st.target.elts))):
                    q = sc.resolve_call(st.iter)
                    g = generator(q) if q else None
                    from .normalize2 import own_jumps

                    def jumps_ok(g_):
                        # `continue` / `break` of the consuming loop mean the same in the producer's loop when the single yield is the last
                        # statement of the producer's only loop, and (for break) that loop is the last statement of the producer
                        js = own_jumps(st.body)
                        if not js:
                            return True
                        gb = body_without_doc(g_.node)
                        loops = [x for x in gb if isinstance(x, ast.For)]
                        if len(loops) != 1 or loops[0].orelse or any(isinstance(y, ast.Yield) for x in gb if x is not loops[0] for y in ast.walk(x)):
                            return False
                        lp = loops[0]
                        last = lp.body[-1] if lp.body else None
                        if not (isinstance(last, ast.Expr) and isinstance(last.value, ast.Yield)) or sum(1 for y in ast.walk(lp) if isinstance(y, ast.Yield)) != 1:
                            return False
                        if any(isinstance(j, ast.Break) for j in js) and gb[-1] is not lp:
                            return False
                        return True
                    if g is not None and q != fi.qualname and jumps_ok(g) and me.same_scope_stmt(g, fi, sc):
                        try:
                            binding = bind_call(g.node, st.iter, skip_first=False)
                        except Bail:
                            binding = None
                        if binding is not None and all(simple_arg(v) for v in binding.values()) and not (assigned_in(g.node, imports=False) & set(binding)):
                            me.counter += 1
                            k = me.counter
                            rename = {loc: f"{loc}__gen{k}" for loc in assigned_in(g.node, imports=False)}
                            body = [copy.deepcopy(x) for x in body_without_doc(g.node)]
                            body = [Rename(rename).visit(x) for x in body]
                            body = [Subst(dict(binding)).visit(x) for x in body]

                            def put(ss):
                                res = []
                                for x in ss:
                                    if isinstance(x, ast.Expr) and isinstance(x.value, ast.Yield):
                                        res.append(ast.Assign(targets=[copy.deepcopy(st.target)], value=x.value.value))
                                        res.extend(copy.deepcopy(st.body))
                                        continue
                                    if isinstance(x, ast.Return):
                                        raise Bail("return in generator")
                                    for fld in ("body", "orelse", "finalbody"):
                                        if getattr(x, fld, None):
                                            setattr(x, fld, put(getattr(x, fld)))
                                    res.append(x)
                                return res
                            try:
                                new = [at(x, st) for x in put(body)]
                            except Bail:
                                new = None
                            if new is not None:
                                out.extend(new)
                                count[0] += 1
                                me.log.append(f"{q} inlined as a generator into {fi.qualname}")
                                continue
                out.append(st)
            return out
        fi.node.body = block(fi.node.body)
        if count[0]:
            ast.fix_missing_locations(fi.node)
        return count[0]

    # constants, format templates, expression-like helpers: anywhere in an expression
    def rewrite_exprs(self, root: ast.AST, sc, fi, plain_only: bool = False) -> int:
        me = self
        count = [0]

        class T(ast.NodeTransformer):
            def visit_FunctionDef(self, n):
                if n is root:
                    self.generic_visit(n)
                return n          # nested definitions are handled as functions of their own

            visit_AsyncFunctionDef = visit_FunctionDef

            def visit_ClassDef(self, n):
                return n

            def visit_Name(self, n):
                if isinstance(n.ctx, ast.Load):
                    q = sc.resolve(n)
                    if q in me.func_tables and (fi is None or fi.module is not me.func_tables[q] or (assigned_in(root) | ({a.arg for a in ast.walk(root.args) if isinstance(a, ast.arg)} if hasattr(root, "args") else set())) & {x.id for x in ast.walk(me.new_consts[q]) if isinstance(x, ast.Name)}):
                        return n        # the table's function names mean something else here
                    if q in me.new_consts:
                        count[0] += 1
                        return at(me.new_consts[q], n)
                return n

            def visit_Attribute(self, n):
                if isinstance(n.ctx, ast.Load):
                    q = sc.resolve(n)
                    if q in me.new_consts:
                        count[0] += 1
                        return at(me.new_consts[q], n)
                    if n.attr == "_fields" and isinstance(n.value, ast.Name) and fi is not None:
                        from .normalize2 import record_fields
                        fs = record_fields(n.value, fi.module.top_assigns, fi.module.tree)
                        if fs is not None:
                            count[0] += 1
                            return at(ast.Tuple(elts=[ast.Constant(value=x) for x in fs], ctx=ast.Load()), n)     # _Point._fields
                self.generic_visit(n)
                return n

            def _unroll(self, n):
                self.generic_visit(n)
                from .normalize2 import comprehension_rules
                r2 = comprehension_rules(n)
                if r2 is not None:
                    count[0] += 1
                    return self.visit(at(r2, n))
                r = unroll_comprehension(n, root)
                if r is not None:
                    count[0] += 1
                    return at(r, n)
                return n

            visit_ListComp = visit_SetComp = visit_GeneratorExp = visit_DictComp = _unroll

            def visit_Dict(self, n):
                self.generic_visit(n)
                if any(k is None and isinstance(v, ast.Dict) and all(k2 is not None for k2 in v.keys) for k, v in zip(n.keys, n.values)):
                    keys, vals = [], []
                    for k, v in zip(n.keys, n.values):
                        if k is None and isinstance(v, ast.Dict) and all(k2 is not None for k2 in v.keys):
                            keys += v.keys
                            vals += v.values
                        else:
                            keys.append(k)
                            vals.append(v)
                    consts = [k.value for k in keys if isinstance(k, ast.Constant)]
                    if len(consts) == len(set(map(repr, consts))):      # {**{'a': 1}, 'b': 2} == {'a': 1, 'b': 2} when no key repeats
                        count[0] += 1
                        n.keys, n.values = keys, vals
                return n

            def visit_Assign(self, n):
                self.generic_visit(n)
                v = n.value
                if len(n.targets) == 1 and isinstance(n.targets[0], (ast.Tuple, ast.List)) and isinstance(v, ast.Call) and isinstance(v.func, ast.Name) and fi is not None \
                        and not any(isinstance(x, ast.Starred) for x in v.args) and not any(k.arg is None for k in v.keywords):
                    from .normalize2 import record_fields
                    fs = record_fields(v.func, fi.module.top_assigns, fi.module.tree)
                    if fs is not None and len(v.args) + len(v.keywords) == len(fs) == len(n.targets[0].elts) and [k.arg for k in v.keywords] == fs[len(v.args):]:
                        count[0] += 1
                        n.value = at(ast.Tuple(elts=list(v.args) + [k.value for k in v.keywords], ctx=ast.Load()), v)     # a, b = _Point(x=p, y=q)
                        v = n.value
                if len(n.targets) == 1 and isinstance(n.targets[0], (ast.Tuple, ast.List)) and isinstance(v, ast.Call) and isinstance(v.func, ast.Name) and v.func.id == "map" \
                        and sc.resolve(v.func) == "builtins.map" and len(v.args) == 2 and not v.keywords and isinstance(v.args[0], (ast.Name, ast.Attribute)) \
                        and isinstance(v.args[1], (ast.Tuple, ast.List)) and len(v.args[1].elts) == len(n.targets[0].elts) and all(simple_arg(x) for x in v.args[1].elts):
                    # a, b, c = map(f, (x, y, z))  ==  a, b, c = f(x), f(y), f(z)
                    count[0] += 1
                    n.value = at(ast.Tuple(elts=[ast.Call(func=copy.deepcopy(v.args[0]), args=[copy.deepcopy(x)], keywords=[]) for x in v.args[1].elts], ctx=ast.Load()), v)
                return n

            def visit_BinOp(self, n):
                self.generic_visit(n)
                if isinstance(n.op, ast.Add) and isinstance(n.left, ast.Constant) and isinstance(n.right, ast.Constant) and isinstance(n.left.value, str) and isinstance(n.right.value, str):
                    count[0] += 1
                    return at(ast.Constant(value=n.left.value + n.right.value), n)       # "*" + ".css"
                if isinstance(n.op, ast.Mult):
                    for d, k in ((n.left, n.right), (n.right, n.left)):
                        if isinstance(d, ast.Tuple) and isinstance(k, ast.Constant) and isinstance(k.value, int) and not isinstance(k.value, bool) and 1 <= k.value <= 8 \
                                and all(simple_arg(x) for x in d.elts) and len(d.elts) * k.value <= 16:
                            count[0] += 1
                            return at(ast.Tuple(elts=[copy.deepcopy(x) for _ in range(k.value) for x in d.elts], ctx=ast.Load()), n)     # (x,) * 3 == (x, x, x)
                return n

            def visit_Subscript(self, n):
                self.generic_visit(n)
                if isinstance(n.ctx, ast.Load) and isinstance(n.value, (ast.Tuple, ast.List)) and isinstance(n.slice, ast.Constant) and type(n.slice.value) is int \
                        and not any(isinstance(x, ast.Starred) for x in n.value.elts) and -len(n.value.elts) <= n.slice.value < len(n.value.elts) \
                        and all(is_const_expr(x) or simple_arg(x) for x in n.value.elts):
                    count[0] += 1
                    return n.value.elts[n.slice.value]      # (a, b, c)[1] == b  (the other elements are constants / plain names)
                if isinstance(n.ctx, ast.Load):
                    from .normalize2 import subscript_rules
                    r = subscript_rules(n, root, sc.resolve)
                    if r is not None:
                        count[0] += 1
                        return self.visit(at(r, n))
                if isinstance(n.ctx, ast.Load) and isinstance(n.value, ast.Dict):
                    r = table_lookup_to_conditional(n, bools_of(root))
                    if r is not None:
                        count[0] += 1
                        return at(r, n)
                return n

            def visit_Call(self, n):
                self.generic_visit(n)
                f = n.func
                from .normalize2 import defunctionalize_call
                r = defunctionalize_call(n, sc.resolve)
                if r is not None:
                    count[0] += 1
                    return self.visit(at(r, n))
                if isinstance(f, ast.Attribute) and f.attr == "format" and isinstance(f.value, ast.Constant) and isinstance(f.value.value, str):
                    spread_mapping(n, root)
                    j = format_to_joined(f.value.value, n)
                    if j is not None:
                        count[0] += 1
                        return at(j, n)
                if any(isinstance(a, ast.Starred) and isinstance(a.value, (ast.List, ast.Tuple)) and not any(isinstance(x, ast.Starred) for x in a.value.elts) for a in n.args):
                    new_args = []
                    for a in n.args:
                        if isinstance(a, ast.Starred) and isinstance(a.value, (ast.List, ast.Tuple)) and not any(isinstance(x, ast.Starred) for x in a.value.elts):
                            new_args += a.value.elts        # f(*[a, b]) == f(a, b)
                        else:
                            new_args.append(a)
                    n.args = new_args
                    count[0] += 1
                if isinstance(f, ast.Attribute) and f.attr == "issuperset" and len(n.args) == 1 and not n.keywords and isinstance(f.value, ast.Call) and isinstance(f.value.func, ast.Name) \
                        and f.value.func.id in ("frozenset", "set") and len(f.value.args) == 1 and isinstance(f.value.args[0], ast.Constant) and isinstance(f.value.args[0].value, str) \
                        and sc.resolve(f.value.func) == f"builtins.{f.value.func.id}":
                    # frozenset("0123..").issuperset(s)  ==  all(c in "0123.." for c in s)   (s a string: its elements are its characters)
                    count[0] += 1
                    gen = ast.GeneratorExp(elt=ast.Compare(left=ast.Name(id="c__chr", ctx=ast.Load()), ops=[ast.In()], comparators=[f.value.args[0]]),
                                           generators=[ast.comprehension(target=ast.Name(id="c__chr", ctx=ast.Store()), iter=n.args[0], ifs=[], is_async=0)])
                    return at(ast.Call(func=ast.Name(id="all", ctx=ast.Load()), args=[gen], keywords=[]), n)
                if isinstance(f, ast.Attribute) and f.attr in ("match", "fullmatch", "search", "split", "findall", "finditer", "sub", "subn") and isinstance(f.value, ast.Call) \
                        and sc.resolve(f.value.func) == "re.compile" and len(f.value.args) == 1 and not f.value.keywords and not n.keywords \
                        and isinstance(sc.resolve_name("re"), str) and sc.resolve_name("re") == "re":
                    # re.compile(P).split(s)  ==  re.split(P, s)   (a precompiled pattern is the module-level function with the pattern first)
                    count[0] += 1
                    return at(ast.Call(func=ast.Attribute(value=ast.Name(id="re", ctx=ast.Load()), attr=f.attr, ctx=ast.Load()), args=[f.value.args[0]] + list(n.args), keywords=[]), n)
                if isinstance(f, ast.Name) and f.id in ("tuple", "list") and len(n.args) == 1 and not n.keywords and isinstance(n.args[0], (ast.Tuple, ast.List)) \
                        and sc.resolve(f) == f"builtins.{f.id}" and not any(isinstance(x, ast.Starred) for x in n.args[0].elts):
                    count[0] += 1
                    d = n.args[0]
                    return at(ast.Tuple(elts=d.elts, ctx=ast.Load()) if f.id == "tuple" else ast.List(elts=d.elts, ctx=ast.Load()), n)
                q = sc.resolve_call(n)
                if q in me.project.funcs and q not in me.new_funcs and fi is not None:
                    # f(_Point(x=a, y=b)) where f belongs to the pinned package and _Point is a namedtuple record: f((a, b))
                    from .normalize2 import record_fields
                    for idx, a0 in enumerate(list(n.args)):
                        if isinstance(a0, ast.Call) and isinstance(a0.func, ast.Name) and not any(isinstance(x, ast.Starred) for x in a0.args) and not any(k.arg is None for k in a0.keywords):
                            fs = record_fields(a0.func, fi.module.top_assigns, fi.module.tree)
                            if fs is not None and len(a0.args) + len(a0.keywords) == len(fs) and [k.arg for k in a0.keywords] == fs[len(a0.args):]:
                                n.args[idx] = at(ast.Tuple(elts=list(a0.args) + [k.value for k in a0.keywords], ctx=ast.Load()), a0)
                                count[0] += 1
                # f(**{"a": x, "b": y})  ->  f(a=x, b=y)
                if any(k.arg is None and isinstance(k.value, ast.Dict) and k.value.keys and all(isinstance(kk, ast.Constant) and isinstance(kk.value, str) and kk.value.isidentifier() for kk in k.value.keys)
                       for k in n.keywords):
                    new_kws = []
                    for k in n.keywords:
                        if k.arg is None and isinstance(k.value, ast.Dict) and k.value.keys and all(isinstance(kk, ast.Constant) and isinstance(kk.value, str) and kk.value.isidentifier() for kk in k.value.keys):
                            new_kws += [ast.keyword(arg=kk.value, value=vv) for kk, vv in zip(k.value.keys, k.value.values)]
                        else:
                            new_kws.append(k)
                    if len({k.arg for k in new_kws if k.arg}) == len([k for k in new_kws if k.arg]):
                        n.keywords = new_kws
                        count[0] += 1
                # pathlib spellings of file access (what pathlib itself does):  p.open("w", ...) -> open(p, "w", ...);  p.read_text(encoding=e) -> open(p, "r", encoding=e).read()
                if isinstance(f, ast.Attribute) and f.attr == "open" and isinstance(f.value, (ast.Name, ast.Attribute)) and not any(isinstance(x, ast.Starred) for x in n.args) \
                        and all(k.arg in ("mode", "encoding", "errors", "newline", "buffering") for k in n.keywords) and (n.args or n.keywords) \
                        and (not n.args or (isinstance(n.args[0], ast.Constant) and isinstance(n.args[0].value, str) and set(n.args[0].value) <= set("rwxabt+"))) \
                        and sc.resolve(f.value) is None:
                    mode = n.args[0] if n.args else next((k.value for k in n.keywords if k.arg == "mode"), ast.Constant(value="r"))
                    rest = [k for k in n.keywords if k.arg != "mode"]
                    count[0] += 1
                    return self.visit(at(ast.Call(func=ast.Name(id="open", ctx=ast.Load()), args=[f.value, mode] + list(n.args[1:]), keywords=rest), n))
                if isinstance(f, ast.Attribute) and f.attr in ("read_text", "read_bytes") and isinstance(f.value, (ast.Name, ast.Attribute)) and not n.args \
                        and all(k.arg in ("encoding", "errors") for k in n.keywords) and sc.resolve(f.value) is None:
                    count[0] += 1
                    mode = "r" if f.attr == "read_text" else "rb"
                    opened = ast.Call(func=ast.Name(id="open", ctx=ast.Load()), args=[f.value, ast.Constant(value=mode)], keywords=list(n.keywords))
                    return self.visit(at(ast.Call(func=ast.Attribute(value=opened, attr="read", ctx=ast.Load()), args=[], keywords=[]), n))
                # open(file=p, mode="w", ...)  ->  open(p, "w", ...)
                if isinstance(f, ast.Name) and f.id == "open" and not n.args and n.keywords and n.keywords[0].arg == "file" and sc.resolve(f) == "builtins.open":
                    n.args.append(n.keywords.pop(0).value)
                    if n.keywords and n.keywords[0].arg == "mode":
                        n.args.append(n.keywords.pop(0).value)
                    count[0] += 1
                if q and q not in me.project.funcs and q + ".__init__" in me.project.funcs:
                    q = q + ".__init__"         # constructing a class of the package: the parameters of its __init__
                    ctor = True
                else:
                    ctor = False
                # a TypedDict "constructor" / dict(k=v, ...) builds exactly the dict display with those keys
                if n.keywords and not n.args and not any(k.arg is None for k in n.keywords) and isinstance(f, ast.Name):
                    is_td = False
                    if fi is not None:
                        for cd in fi.module.tree.body:
                            if isinstance(cd, ast.ClassDef) and cd.name == f.id and any((isinstance(b, ast.Name) and b.id == "TypedDict") or (isinstance(b, ast.Attribute) and b.attr == "TypedDict") for b in cd.bases):
                                is_td = True
                    if is_td or sc.resolve(f) == "builtins.dict":
                        count[0] += 1
                        return at(ast.Dict(keys=[ast.Constant(value=k.arg) for k in n.keywords], values=[k.value for k in n.keywords]), n)
                if q in me.project.funcs and n.keywords and not any(k.arg is None for k in n.keywords) and not any(isinstance(a, ast.Starred) for a in n.args):
                    # f(a, large=x) -> f(a, x) when `large` is the next positional parameter of a function of the package: one spelling of a call
                    cal = me.project.funcs[q]
                    a_ = cal.node.args
                    if not a_.vararg:
                        params = [x.arg for x in a_.posonlyargs + a_.args]
                        if cal.cls and params and (isinstance(n.func, ast.Attribute) or ctor) and not any(isinstance(d, ast.Name) and d.id == "staticmethod" for d in cal.node.decorator_list):
                            params = params[1:]
                        kw = {k.arg: k for k in n.keywords}
                        moved = 0
                        while len(n.args) < len(params) and params[len(n.args)] in kw and len(n.args) >= len(a_.posonlyargs) - (1 if params is not None and len(params) < len(a_.posonlyargs + a_.args) else 0) \
                                and n.keywords and n.keywords[0].arg == params[len(n.args)] and params[len(n.args)] not in KWCALLS.get(q, ()) and params[len(n.args)] not in KWCALLS.get(q[:-9] if q.endswith('.__init__') else q, ()):
                            k = n.keywords.pop(0)
                            n.args.append(k.value)
                            moved += 1
                        if moved:
                            count[0] += 1
                if ctor:
                    q = q[:-9]
                if q in me.new_funcs and (fi is None or q != fi.qualname):
                    e = me.as_expression(q, n, sc, fi)
                    if e is not None and not (plain_only and contains(e, ast.IfExp) and not contains(ast.Module(body=body_without_doc(me.new_funcs[q].node), type_ignores=[]), ast.IfExp)):
                        count[0] += 1
                        me.log.append(f"{q} inlined as an expression into {fi.qualname if fi else 'module level'}")
                        return at(e, n)
                return n
        T().visit(root)
        return count[0]

    def same_scope(self, helper, caller_fi, sc) -> bool:
        """Free names of the helper mean the same thing at the call site."""
        if caller_fi is not None and helper.module is caller_fi.module and helper.parent is None:
            # module-level names of the same module; a caller's local of the same name would capture them
            free = {n.id for n in own_walk(helper.node) if isinstance(n, ast.Name) and isinstance(n.ctx, ast.Load)} - set(helper.params()) - assigned_in(helper.node)
            clash = free & (assigned_in(caller_fi.node) | set(caller_fi.params()))
            return not clash
        if caller_fi is not None and helper.parent is not None:
            return helper.parent is caller_fi       # a closure called by the function that defines it
        hs = self.Scope(self.project, helper)
        free = {n.id for n in own_walk(helper.node) if isinstance(n, ast.Name) and isinstance(n.ctx, ast.Load)} - set(helper.params()) - assigned_in(helper.node)
        for nm in free:
            if hs.resolve_name(nm) != sc.resolve_name(nm):
                return False
        return True

    def as_expression(self, q, call: ast.Call, sc, fi) -> Optional[ast.AST]:
        helper = self.new_funcs[q]
        try:
            if not self.same_scope(helper, fi, sc):
                raise Bail("scope differs")
            is_method = helper.cls is not None and isinstance(call.func, ast.Attribute) and not any(isinstance(d, ast.Name) and d.id == "staticmethod" for d in helper.node.decorator_list)
            binding = bind_call(helper.node, call, skip_first=is_method)
            if is_method:
                binding[helper.node.args.args[0].arg] = call.func.value
            if assigned_in(helper.node) & set(binding) :
                raise Bail("parameter reassigned")
            body = body_without_doc(helper.node)
            if sum(1 for s in body for _ in ast.walk(s)) > 250:
                raise Bail("too large")
            return expr_of_block(body, dict(binding))
        except Bail:
            return None

    # statement-like helpers: spliced in before the calling statement
    def splice(self, fi, sc) -> int:
        count = [0]
        me = self

        def find_call(st: ast.stmt):
            """(call node, parent setter) of an unconditionally evaluated call of a new helper inside the simple statement st."""
            roots = []
            if isinstance(st, ast.Expr):
                roots = [st.value]
            elif isinstance(st, (ast.Assign, ast.AnnAssign, ast.AugAssign, ast.Return)):
                roots = [st.value] if st.value is not None else []
            elif isinstance(st, ast.If):
                roots = [st.test]
            elif isinstance(st, ast.For):
                roots = [st.iter]
            elif isinstance(st, ast.With):
                roots = [it.context_expr for it in st.items]
            for r in roots:
                for n in uncond(r):
                    if isinstance(n, ast.Call):
                        q = sc.resolve_call(n)
                        if q in me.new_funcs and q != fi.qualname:
                            return n, q
            return None, None

        def uncond(e):
            yield e
            if isinstance(e, ast.BoolOp):
                yield from uncond(e.values[0])
            elif isinstance(e, ast.IfExp):
                yield from uncond(e.test)
            elif isinstance(e, (ast.Lambda, ast.ListComp, ast.SetComp, ast.DictComp, ast.GeneratorExp)):
                if not isinstance(e, ast.Lambda):
                    yield from uncond(e.generators[0].iter)
            else:
                for ch in ast.iter_child_nodes(e):
                    if isinstance(ch, ast.expr):
                        yield from uncond(ch)
                    elif isinstance(ch, ast.keyword):
                        yield from uncond(ch.value)

        def block(stmts: List[ast.stmt]) -> List[ast.stmt]:
            out: List[ast.stmt] = []
            for st in stmts:
                if isinstance(st, (ast.FunctionDef, ast.AsyncFunctionDef, ast.ClassDef)):
                    out.append(st)
                    continue
                for _ in range(8):
                    call, q = find_call(st)
                    if call is None:
                        break
                    pre = me.as_statements(q, call, st, fi, sc)
                    if pre is None:
                        break
                    stmts_before, replacement = pre
                    count[0] += 1
                    me.log.append(f"{q} spliced into {fi.qualname}")
                    out.extend(stmts_before)
                    if replacement is None:
                        st = None
                        break
                    Replace(call, replacement).visit(st)
                if st is None:
                    continue
                for fld in ("body", "orelse", "finalbody"):
                    if getattr(st, fld, None):
                        setattr(st, fld, block(getattr(st, fld)))
                for h in getattr(st, "handlers", []) or []:
                    h.body = block(h.body)
                out.append(st)
            return out or [ast.Pass()] if stmts else out

        fi.node.body = block(fi.node.body)
        if count[0]:
            ast.fix_missing_locations(fi.node)
        return count[0]

    def as_statements(self, q, call: ast.Call, st: ast.stmt, fi, sc):
        helper = self.new_funcs[q]
        try:
            if not self.same_scope_stmt(helper, fi, sc):
                raise Bail("scope differs")
            is_method = helper.cls is not None and isinstance(call.func, ast.Attribute) and not any(isinstance(d, ast.Name) and d.id == "staticmethod" for d in helper.node.decorator_list)
            extra: Dict[str, ast.AST] = {}
            binding = bind_call(helper.node, call, skip_first=is_method, extra_out=extra)
            if is_method:
                binding[helper.node.args.args[0].arg] = call.func.value
            self.counter += 1
            k = self.counter
            reassigned = assigned_in(helper.node, imports=False)      # names bound by a local import keep their name
            pre: List[ast.stmt] = []
            subst: Dict[str, ast.AST] = {}
            rename: Dict[str, str] = {}
            for p, v in binding.items():
                if simple_arg(v) and p not in reassigned:
                    subst[p] = v
                else:
                    rename[p] = f"{p}__inl{k}"
                    pre.append(ast.Assign(targets=[ast.Name(id=rename[p], ctx=ast.Store())], value=copy.deepcopy(v)))
            for loc in reassigned - set(binding):
                rename[loc] = f"{loc}__inl{k}"
            body = [copy.deepcopy(s) for s in body_without_doc(helper.node)]
            if helper.node.args.kwarg:
                body = [SpreadKw(helper.node.args.kwarg.arg, extra).visit(s) for s in body]
            body = [Rename(rename).visit(s) for s in body]
            body = [Subst(subst).visit(s) for s in body]
            whole_stmt = isinstance(st, ast.Expr) and st.value is call
            result = None if whole_stmt else f"ret__inl{k}"
            new = eliminate_returns(body, [], result, call)
            if result is not None and not always_returns(body_without_doc(helper.node)):
                pre.append(ast.Assign(targets=[ast.Name(id=result, ctx=ast.Store())], value=ast.Constant(value=None)))
            stmts = [at(s, st) for s in pre + new]
            return stmts, (None if whole_stmt else ast.Name(id=result, ctx=ast.Load()))
        except Bail:
            return None

    def same_scope_stmt(self, helper, fi, sc) -> bool:
        if helper.parent is not None:
            return helper.parent is fi
        hs = self.Scope(self.project, helper)
        free = {n.id for n in own_walk(helper.node) if isinstance(n, ast.Name) and isinstance(n.ctx, ast.Load)} - set(helper.params()) - assigned_in(helper.node)
        caller_locals = assigned_in(fi.node) | set(fi.params())
        for nm in free:
            if nm in caller_locals:
                return False
            if helper.module is not fi.module and hs.resolve_name(nm) != sc.resolve_name(nm):
                return False
        return True


class Replace(ast.NodeTransformer):
    def __init__(self, old: ast.AST, new: ast.AST):
        self.old, self.new = old, new

    def visit(self, node):
        if node is self.old:
            return ast.copy_location(self.new, node)
        return super().visit(node)


def _bool_test(e: ast.AST) -> Optional[ast.AST]:
    """The expression whose truth value a boolean-valued key component denotes (bool(x) -> x; comparisons / not: themselves)."""
    if isinstance(e, ast.Call) and isinstance(e.func, ast.Name) and e.func.id == "bool" and len(e.args) == 1 and not e.keywords:
        return e.args[0]
    if isinstance(e, (ast.Compare, ast.BoolOp)) or (isinstance(e, ast.UnaryOp) and isinstance(e.op, ast.Not)):
        return e
    return None


def bools_of(root) -> Set[str]:
    if not isinstance(root, (ast.FunctionDef, ast.AsyncFunctionDef)):
        return set()
    from .normalize2 import boolean_locals
    return boolean_locals(root)


def table_lookup_to_conditional(node: ast.Subscript, bools=frozenset()) -> Optional[ast.AST]:
    """`{(True, True): A, (True, False): B, ...}[bool(p), bool(q)]` (every combination present) as the decision tree
    `(A if q else B) if p else (...)`; likewise a one-dimensional `{True: A, False: B}[bool(p)]`."""
    d = node.value
    if not isinstance(d, ast.Dict) or not d.keys or any(k is None for k in d.keys):
        return None
    key = node.slice
    comps = list(key.elts) if isinstance(key, ast.Tuple) else [key]
    tests = [c if (isinstance(c, ast.Name) and c.id in bools) else _bool_test(c) for c in comps]
    if any(t is None for t in tests):
        return None
    table = {}
    for k, v in zip(d.keys, d.values):
        ks = list(k.elts) if isinstance(k, ast.Tuple) else [k]
        if len(ks) != len(comps) or not all(isinstance(x, ast.Constant) and isinstance(x.value, bool) for x in ks):
            return None
        table[tuple(x.value for x in ks)] = v
    if len(table) != 2 ** len(comps):
        return None

    def build(prefix, i):
        if i == len(comps):
            return copy.deepcopy(table[tuple(prefix)])
        return ast.IfExp(test=copy.deepcopy(tests[i]), body=build(prefix + [True], i + 1), orelse=build(prefix + [False], i + 1))
    return build([], 0)


def lift_conditionals(fn: ast.AST) -> int:
    """Statement-level spelling of conditionals that choose among whole values:
      `a, b = (X if c else Y)`            -> `if c: a, b = X` / `else: a, b = Y`   (so that tuple assignments can be split)
      `return (X if c else Y, Z)`          -> `if c: return (X, Z)` / `else: return (Y, Z)`
    Only when nothing evaluated before the condition can have an effect (names, constants, attribute reads)."""
    count = [0]

    def pure(e):
        return all(isinstance(n, (ast.Name, ast.Constant, ast.Attribute, ast.Tuple, ast.List, ast.Load, ast.Store, ast.UnaryOp, ast.USub, ast.UAdd, ast.Not, ast.expr_context)) for n in ast.walk(e))

    def expand(st):
        """-> list of statements replacing st (or None)"""
        if isinstance(st, ast.Assign) and len(st.targets) == 1 and isinstance(st.targets[0], (ast.Tuple, ast.List)) and isinstance(st.value, ast.IfExp) \
                and isinstance(st.value.body, (ast.Tuple, ast.List, ast.IfExp)) and isinstance(st.value.orelse, (ast.Tuple, ast.List, ast.IfExp)):
            names = {n.id for n in ast.walk(st.targets[0]) if isinstance(n, ast.Name)}
            if names & {n.id for n in ast.walk(st.value.test) if isinstance(n, ast.Name)}:
                return None
            v = st.value
            a = ast.copy_location(ast.Assign(targets=[copy.deepcopy(st.targets[0])], value=v.body), st)
            b = ast.copy_location(ast.Assign(targets=[copy.deepcopy(st.targets[0])], value=v.orelse), st)
            return [ast.copy_location(ast.If(test=v.test, body=expand(a) or [a], orelse=expand(b) or [b]), st)]
        if isinstance(st, ast.Return) and isinstance(st.value, ast.IfExp):
            # return (X if c else Y)  ==  if c: return X / else: return Y
            a = ast.copy_location(ast.Return(value=st.value.body), st)
            b = ast.copy_location(ast.Return(value=st.value.orelse), st)
            return [ast.copy_location(ast.If(test=st.value.test, body=expand(a) or [a], orelse=expand(b) or [b]), st)]
        if isinstance(st, ast.Return) and isinstance(st.value, ast.Tuple):
            for i, e in enumerate(st.value.elts):
                if isinstance(e, ast.IfExp) and all(pure(x) for x in st.value.elts[:i]):
                    def variant(x, i=i):
                        t = copy.deepcopy(st.value)
                        t.elts[i] = x
                        return ast.copy_location(ast.Return(value=t), st)
                    a, b = variant(e.body), variant(e.orelse)
                    return [ast.copy_location(ast.If(test=e.test, body=expand(a) or [a], orelse=expand(b) or [b]), st)]
        return None

    def block(stmts):
        out = []
        for st in stmts:
            if isinstance(st, (ast.FunctionDef, ast.AsyncFunctionDef, ast.ClassDef)):
                out.append(st)
                continue
            for fld in ("body", "orelse", "finalbody"):
                if getattr(st, fld, None):
                    setattr(st, fld, block(getattr(st, fld)))
            for h in getattr(st, "handlers", []) or []:
                h.body = block(h.body)
            r = expand(st)
            if r is not None:
                count[0] += 1
                out.extend(r)
            else:
                out.append(st)
        return out
    fn.body = block(fn.body)
    if count[0]:
        ast.fix_missing_locations(fn)
    return count[0]


def sink_common_append(fn: ast.AST) -> int:
    """`if c: x = A; y = B` / `else: x = C; y = D` followed by `acc.append((x, y))`: the append is copied to the end of both
    branches (tail duplication: same executions, but each copy sees which x goes with which y)."""
    count = [0]

    def assigned(stmts):
        out = set()
        for st in stmts:
            for n in ast.walk(st):
                if isinstance(n, ast.Name) and isinstance(n.ctx, ast.Store):
                    out.add(n.id)
        return out

    def falls_through(stmts):
        return not any(isinstance(n, (ast.Return, ast.Raise, ast.Continue, ast.Break)) for st in stmts for n in ast.walk(st))

    def block(stmts):
        stmts = list(stmts)
        i = 0
        while i < len(stmts):
            st = stmts[i]
            if not isinstance(st, (ast.FunctionDef, ast.AsyncFunctionDef, ast.ClassDef)):
                for fld in ("body", "orelse", "finalbody"):
                    if getattr(st, fld, None):
                        setattr(st, fld, block(getattr(st, fld)))
                for h in getattr(st, "handlers", []) or []:
                    h.body = block(h.body)
            if isinstance(st, ast.If) and st.orelse and i + 1 < len(stmts) and falls_through(st.body) and falls_through(st.orelse):
                nxt = stmts[i + 1]
                if isinstance(nxt, ast.Expr) and isinstance(nxt.value, ast.Call) and isinstance(nxt.value.func, ast.Attribute) and nxt.value.func.attr == "append" \
                        and isinstance(nxt.value.func.value, ast.Name):
                    reads = {n.id for n in ast.walk(nxt) if isinstance(n, ast.Name) and isinstance(n.ctx, ast.Load)}
                    both = assigned(st.body) & assigned(st.orelse) & reads
                    tested = st.test.id if isinstance(st.test, ast.Name) else (st.test.operand.id if isinstance(st.test, ast.UnaryOp) and isinstance(st.test.op, ast.Not) and isinstance(st.test.operand, ast.Name) else None)
                    on_test = tested is not None and any(isinstance(x, ast.BoolOp) and isinstance(x.values[0], ast.Name) and x.values[0].id == tested for x in ast.walk(nxt)) \
                        and tested not in assigned(st.body) | assigned(st.orelse)
                    if len(both) >= 2 or (len(both) >= 1 and on_test):
                        st.body = st.body + [copy.deepcopy(nxt)]
                        st.orelse = st.orelse + [copy.deepcopy(nxt)]
                        del stmts[i + 1]
                        count[0] += 1
                        continue        # re-examine: nested if/else inside the branches were already handled
            i += 1
        return stmts
    fn.body = block(fn.body)
    if count[0]:
        ast.fix_missing_locations(fn)
    return count[0]


def desugar(fn: ast.AST) -> int:
    """`match` over literal patterns as the if/elif chain it abbreviates; `if (m := f(x)) ...:` as `m = f(x)` followed by the test."""
    count = [0]

    def pattern_test(subject: ast.AST, pat) -> Optional[ast.AST]:
        """Test expression for a value / singleton / or-of-those pattern; ast.Constant(True) for the wildcard; None if anything is captured."""
        if isinstance(pat, ast.MatchValue) and isinstance(pat.value, (ast.Constant, ast.Attribute, ast.UnaryOp)):
            return ast.Compare(left=copy.deepcopy(subject), ops=[ast.Eq()], comparators=[copy.deepcopy(pat.value)])
        if isinstance(pat, ast.MatchSingleton):
            return ast.Compare(left=copy.deepcopy(subject), ops=[ast.Is()], comparators=[ast.Constant(value=pat.value)])
        if isinstance(pat, ast.MatchOr):
            parts = [pattern_test(subject, p2) for p2 in pat.patterns]
            if all(isinstance(p2, ast.MatchValue) and isinstance(p2.value, ast.Constant) for p2 in pat.patterns):
                return ast.Compare(left=copy.deepcopy(subject), ops=[ast.In()], comparators=[ast.Tuple(elts=[copy.deepcopy(p2.value) for p2 in pat.patterns], ctx=ast.Load())])
            if all(x is not None for x in parts):
                return ast.BoolOp(op=ast.Or(), values=parts)
            return None
        if isinstance(pat, ast.MatchAs) and pat.pattern is None and pat.name is None:
            return ast.Constant(value=True)
        if isinstance(pat, ast.MatchClass) and not pat.patterns and not pat.kwd_patterns and isinstance(pat.cls, (ast.Name, ast.Attribute)):
            # case str(): / case tuple():   ->   isinstance(subject, str)
            return ast.Call(func=ast.Name(id="isinstance", ctx=ast.Load()), args=[copy.deepcopy(subject), copy.deepcopy(pat.cls)], keywords=[])
        return None

    def match_to_if(st: ast.Match) -> Optional[ast.stmt]:
        subject = st.subject
        pre = []
        if not isinstance(subject, (ast.Name, ast.Attribute)):
            # the subject is evaluated once: bind it first
            tmp = f"subject__match{getattr(st, 'lineno', 0)}"
            pre = [ast.Assign(targets=[ast.Name(id=tmp, ctx=ast.Store())], value=subject)]
            subject = ast.Name(id=tmp, ctx=ast.Load())
        arms = []
        for c in st.cases:
            t = pattern_test(subject, c.pattern)
            if t is None and isinstance(c.pattern, ast.MatchAs) and c.pattern.pattern is None and c.pattern.name is not None:
                # case name:  -- matches anything and binds it
                t = ast.Constant(value=True)
                c = ast.match_case(pattern=c.pattern, guard=c.guard, body=[ast.Assign(targets=[ast.Name(id=c.pattern.name, ctx=ast.Store())], value=copy.deepcopy(subject))] + list(c.body))
                if c.guard is not None:
                    return None
            if t is None:
                return None
            if c.guard is not None:
                t = c.guard if (isinstance(t, ast.Constant) and t.value is True) else ast.BoolOp(op=ast.And(), values=[t, c.guard])
            arms.append((t, c.body))
        node = None
        for t, body in reversed(arms):
            if isinstance(t, ast.Constant) and t.value is True:
                node = list(body)
            else:
                node = [ast.If(test=t, body=list(body), orelse=node or [])]
        if not node:
            return None
        return pre + node

    def hoist_walrus(st: ast.If):
        """Named expressions evaluated unconditionally at the start of an if-test."""
        pre = []

        def first(e):
            if isinstance(e, ast.NamedExpr) and isinstance(e.target, ast.Name):
                pre.append(ast.Assign(targets=[ast.Name(id=e.target.id, ctx=ast.Store())], value=e.value))
                return ast.Name(id=e.target.id, ctx=ast.Load())
            if isinstance(e, ast.BoolOp):
                e.values[0] = first(e.values[0])
            elif isinstance(e, ast.UnaryOp):
                e.operand = first(e.operand)
            elif isinstance(e, ast.Compare):
                e.left = first(e.left)
            elif isinstance(e, ast.Call) and isinstance(e.func, ast.Attribute):
                e.func.value = first(e.func.value)
            return e
        st.test = first(st.test)
        return pre

    def block(stmts):
        out = []
        for st in stmts:
            if isinstance(st, (ast.FunctionDef, ast.AsyncFunctionDef, ast.ClassDef)):
                out.append(st)
                continue
            if isinstance(st, ast.Expr) and isinstance(st.value, ast.YieldFrom) and isinstance(st.value.value, ast.GeneratorExp) and len(st.value.value.generators) == 1 \
                    and not st.value.value.generators[0].is_async:
                # yield from (E for x in xs if c)   ->   for x in xs: if c: yield E
                g = st.value.value.generators[0]
                body = [ast.Expr(value=ast.Yield(value=st.value.value.elt))]
                if g.ifs:
                    body = [ast.If(test=g.ifs[0] if len(g.ifs) == 1 else ast.BoolOp(op=ast.And(), values=list(g.ifs)), body=body, orelse=[])]
                st = ast.copy_location(ast.For(target=g.target, iter=g.iter, body=body, orelse=[], type_comment=None), st)
                ast.fix_missing_locations(st)
                count[0] += 1
            if isinstance(st, ast.AnnAssign) and isinstance(st.target, ast.Name) and st.value is not None and st.simple:
                st = ast.copy_location(ast.Assign(targets=[st.target], value=st.value), st)        # x: T = v  is  x = v  for everything analysed here
                count[0] += 1
            if isinstance(st, ast.Match):
                r = match_to_if(st)
                if r is not None:
                    count[0] += 1
                    for x in r:
                        ast.copy_location(x, st)
                    out.extend(block(r))
                    continue
                for c in st.cases:
                    c.body = block(c.body)
                out.append(st)
                continue
            for fld in ("body", "orelse", "finalbody"):
                if getattr(st, fld, None):
                    setattr(st, fld, block(getattr(st, fld)))
            for h in getattr(st, "handlers", []) or []:
                h.body = block(h.body)
            if isinstance(st, ast.With) and len(st.items) == 1 and st.items[0].optional_vars is None and isinstance(st.items[0].context_expr, ast.Call):
                c = st.items[0].context_expr
                if ((isinstance(c.func, ast.Name) and c.func.id == "suppress") or (isinstance(c.func, ast.Attribute) and c.func.attr == "suppress")) and c.args and not c.keywords:
                    # with suppress(E): body   ==   try: body  except E: pass
                    typ = c.args[0] if len(c.args) == 1 else ast.Tuple(elts=list(c.args), ctx=ast.Load())
                    st = ast.copy_location(ast.Try(body=st.body, handlers=[ast.ExceptHandler(type=typ, name=None, body=[ast.Pass()])], orelse=[], finalbody=[]), st)
                    count[0] += 1
            if isinstance(st, ast.Try) and st.finalbody and not any(isinstance(n, (ast.Return, ast.Break, ast.Continue)) for b in st.body + st.orelse + [x for h in st.handlers for x in h.body] for n in ast.walk(b)):
                # try: A finally: F   (no jump out of A)   ==   try: A  except BaseException: F; raise   followed by F
                fin = st.finalbody
                inner = ast.Try(body=st.body, handlers=st.handlers, orelse=st.orelse, finalbody=[]) if st.handlers else None
                body = [ast.copy_location(inner, st)] if inner is not None else st.body
                outer = ast.copy_location(ast.Try(body=body, handlers=[ast.ExceptHandler(type=ast.Name(id="BaseException", ctx=ast.Load()), name=None, body=[copy.deepcopy(x) for x in fin] + [ast.Raise(exc=None, cause=None)])], orelse=[], finalbody=[]), st)
                out.append(outer)
                out.extend(fin)
                count[0] += 1
                continue
            if isinstance(st, ast.If) and any(isinstance(n, ast.NamedExpr) for n in ast.walk(st.test)):
                pre = hoist_walrus(st)
                if pre:
                    count[0] += 1
                    out.extend(ast.copy_location(x, st) for x in pre)
            # a named expression that is the first thing a statement evaluates:  x = f(y := g())  ->  y = g() ; x = f(y)
            from .normalize2 import header_of, evaluated_first, parents as _parents, replace_child as _replace
            for _ in range(4):
                hdr = header_of(st)
                if hdr is None:
                    break
                ne = next((n for n in ast.walk(hdr) if isinstance(n, ast.NamedExpr) and isinstance(n.target, ast.Name)), None)
                if ne is None or not evaluated_first(hdr, ne):
                    break
                out.append(ast.copy_location(ast.Assign(targets=[ast.Name(id=ne.target.id, ctx=ast.Store())], value=ne.value), st))
                ast.fix_missing_locations(out[-1])
                name = ast.copy_location(ast.Name(id=ne.target.id, ctx=ast.Load()), ne)
                if hdr is ne:
                    for fld in ("test", "value", "iter"):
                        if getattr(st, fld, None) is hdr:
                            setattr(st, fld, name)
                else:
                    _replace(_parents(hdr).get(id(ne)), ne, name)
                count[0] += 1
            out.append(st)
        return out
    fn.body = block(fn.body)
    if count[0]:
        ast.fix_missing_locations(fn)
    return count[0]


def inline_explaining_variables(fn: ast.AST) -> int:
    """`flag = <expr>` immediately followed by the only statement that reads `flag`, an `if` whose test mentions it once:
    the test is written with the expression itself (nothing can change between the two statements)."""
    count = [0]
    all_names = [n for n in ast.walk(fn) if isinstance(n, ast.Name)]

    def uses(name):
        return sum(1 for n in all_names if n.id == name and isinstance(n.ctx, ast.Load)), sum(1 for n in all_names if n.id == name and isinstance(n.ctx, (ast.Store, ast.Del)))

    def block(stmts):
        out = []
        i = 0
        stmts = list(stmts)
        while i < len(stmts):
            st = stmts[i]
            if not isinstance(st, (ast.FunctionDef, ast.AsyncFunctionDef, ast.ClassDef)):
                for fld in ("body", "orelse", "finalbody"):
                    if getattr(st, fld, None):
                        setattr(st, fld, block(getattr(st, fld)))
                for h in getattr(st, "handlers", []) or []:
                    h.body = block(h.body)
            if isinstance(st, ast.Assign) and len(st.targets) == 1 and isinstance(st.targets[0], ast.Name) and i + 1 < len(stmts) and isinstance(stmts[i + 1], ast.If) \
                    and isinstance(st.value, (ast.Compare, ast.BoolOp, ast.Call, ast.UnaryOp)) and not isinstance(st.value, ast.NamedExpr):
                name = st.targets[0].id
                nxt = stmts[i + 1]
                in_test = [n for n in ast.walk(nxt.test) if isinstance(n, ast.Name) and n.id == name and isinstance(n.ctx, ast.Load)]
                loads, stores = uses(name)
                if len(in_test) == 1 and loads == 1 and stores == 1:
                    Replace(in_test[0], st.value).visit(nxt)
                    if nxt.test is in_test[0]:
                        nxt.test = st.value
                    count[0] += 1
                    i += 1
                    continue        # the assignment is dropped; the if (next iteration) is kept
            out.append(st)
            i += 1
        return out
    fn.body = block(fn.body)
    if count[0]:
        ast.fix_missing_locations(fn)
    return count[0]


def inline_function_values(fn: ast.AST) -> int:
    """`channel = partial(f, component=True)` / `to_channel = lambda t: int(round(channel(t)))`: a local bound (everywhere to the very same
    expression) to a function value built from names that never change is written out where it is read."""
    if not isinstance(fn, (ast.FunctionDef, ast.AsyncFunctionDef)):
        return 0
    params = {a.arg for a in fn.args.args + fn.args.kwonlyargs + fn.args.posonlyargs}
    total = 0
    for _ in range(8):
        names = [n for n in ast.walk(fn) if isinstance(n, ast.Name)]
        store_count: Dict[str, int] = {}
        for n in names:
            if isinstance(n.ctx, (ast.Store, ast.Del)):
                store_count[n.id] = store_count.get(n.id, 0) + 1
        defs: Dict[str, List[ast.Assign]] = {}
        for st in ast.walk(fn):
            if isinstance(st, ast.Assign) and len(st.targets) == 1 and isinstance(st.targets[0], ast.Name):
                defs.setdefault(st.targets[0].id, []).append(st)
        done = 0
        for name, sts in defs.items():
            v = sts[0].value
            is_partial = isinstance(v, ast.Call) and isinstance(v.func, ast.Name) and v.func.id == "partial" and v.args and all(simple_arg(a) for a in v.args) \
                and all(k.arg and simple_arg(k.value) for k in v.keywords)
            if not (isinstance(v, ast.Lambda) or is_partial) or name in params or store_count.get(name, 0) != len(sts) or len({ast.dump(x.value) for x in sts}) != 1:
                continue
            bound = {a.arg for a in ast.walk(v) if isinstance(a, ast.arg)}
            free = {n.id for n in ast.walk(v) if isinstance(n, ast.Name) and n.id not in bound}
            if name in free:
                continue
            unstable = {f for f in free if store_count.get(f, 0) > 1 or (f in params and store_count.get(f, 0) > 0)}
            if unstable:
                # rebound somewhere: fine if every read of the function value still sees the bindings its definition saw
                lds = [n for n in names if n.id == name and isinstance(n.ctx, ast.Load)]
                if len(sts) != 1 or not lds or not _same_definitions(fn, sts[0], lds, unstable):
                    continue
            if any(f in defs and (isinstance(defs[f][0].value, ast.Lambda) or (isinstance(defs[f][0].value, ast.Call) and isinstance(defs[f][0].value.func, ast.Name) and defs[f][0].value.func.id == "partial")) for f in free):
                continue        # built from another function value that is written out first (next round)
            loads = [n for n in names if n.id == name and isinstance(n.ctx, ast.Load)]
            if not loads:
                continue
            up = {}
            for p_ in ast.walk(fn):
                for ch in ast.iter_child_nodes(p_):
                    up[id(ch)] = p_
            from .normalize2 import replace_child
            for ld in loads:
                replace_child(up.get(id(ld)), ld, ast.copy_location(copy.deepcopy(v), ld))
            dead = {id(x) for x in sts}

            def strip(stmts):
                out = []
                for st in stmts:
                    if id(st) in dead:
                        continue
                    for fld in ("body", "orelse", "finalbody"):
                        if getattr(st, fld, None) and not isinstance(st, (ast.FunctionDef, ast.AsyncFunctionDef, ast.ClassDef)):
                            setattr(st, fld, strip(getattr(st, fld)) or [ast.Pass()])
                    for h in getattr(st, "handlers", []) or []:
                        h.body = strip(h.body) or [ast.Pass()]
                    out.append(st)
                return out
            fn.body = strip(fn.body) or [ast.Pass()]
            done += 1
            break       # recompute the census after every substitution
        total += done
        if not done:
            break
    if total:
        ast.fix_missing_locations(fn)
    return total


def inline_callable_aliases(fn: ast.AST) -> int:
    """`escape = html.escape` / `append = parts.append` followed by `escape(x)` / `append(y)`: the alias is written out at its
    call sites (the local is bound once, only ever called, and what it abbreviates cannot be rebound in between)."""
    count = [0]
    count[0] += inline_function_values(fn)
    names = [n for n in ast.walk(fn) if isinstance(n, ast.Name)]
    params = {a.arg for a in fn.args.args + fn.args.kwonlyargs + fn.args.posonlyargs}

    def dotted(e):
        while isinstance(e, ast.Attribute):
            e = e.value
        return e.id if isinstance(e, ast.Name) else None
    aliases = {}
    for st in ast.walk(fn):
        if isinstance(st, ast.Assign) and len(st.targets) == 1 and isinstance(st.targets[0], ast.Name) and isinstance(st.value, ast.Attribute) and dotted(st.value) is not None:
            name = st.targets[0].id
            base = dotted(st.value)
            stores = sum(1 for n in names if n.id == name and isinstance(n.ctx, (ast.Store, ast.Del)))
            base_stores = sum(1 for n in names if n.id == base and isinstance(n.ctx, (ast.Store, ast.Del)))
            loads = [n for n in names if n.id == name and isinstance(n.ctx, ast.Load)]
            called = [c for c in ast.walk(fn) if isinstance(c, ast.Call) and isinstance(c.func, ast.Name) and c.func.id == name]
            if stores == 1 and name not in params and base_stores <= 1 and loads and len(called) == len(loads):
                aliases[name] = st.value
    if not aliases:
        return 0
    for c in ast.walk(fn):
        if isinstance(c, ast.Call) and isinstance(c.func, ast.Name) and c.func.id in aliases:
            c.func = ast.copy_location(copy.deepcopy(aliases[c.func.id]), c.func)
            count[0] += 1
    if count[0]:
        ast.fix_missing_locations(fn)
    return count[0]


def split_assignments(fn: ast.AST) -> int:
    """`a, b = x, y` -> `a = x; b = y` (when no right-hand side reads a left-hand name) and `a = b = v` -> `a = v; b = v`
    (v a constant / conditional of constants): the same stores, one target each."""
    count = [0]

    def simple_value(v):
        return isinstance(v, ast.Constant) or (isinstance(v, ast.UnaryOp) and isinstance(v.operand, ast.Constant)) or \
            (isinstance(v, ast.IfExp) and simple_value(v.body) and simple_value(v.orelse) and not contains(v.test, ast.Call))

    def block(stmts):
        out = []
        for st in stmts:
            if isinstance(st, (ast.FunctionDef, ast.AsyncFunctionDef, ast.ClassDef)):
                out.append(st)
                continue
            for fld in ("body", "orelse", "finalbody"):
                if getattr(st, fld, None):
                    setattr(st, fld, block(getattr(st, fld)))
            for h in getattr(st, "handlers", []) or []:
                h.body = block(h.body)
            if isinstance(st, ast.Assign) and len(st.targets) == 1 and isinstance(st.targets[0], (ast.Tuple, ast.List)) and isinstance(st.value, (ast.Tuple, ast.List)) \
                    and len(st.targets[0].elts) == len(st.value.elts) and all(isinstance(t, ast.Name) for t in st.targets[0].elts) \
                    and not any(isinstance(x, ast.Starred) for x in st.value.elts):
                # low, high = low, mid: a slot assigned to itself changes nothing and is left out
                keep = [(t, v) for t, v in zip(st.targets[0].elts, st.value.elts) if not (isinstance(v, ast.Name) and v.id == t.id)]
                if keep and len(keep) < len(st.targets[0].elts) and not ({t.id for t, _ in keep} & {n.id for _, v in keep for n in ast.walk(v) if isinstance(n, ast.Name)}) \
                        and not ({t.id for t, _ in keep} & {t.id for t in st.targets[0].elts if t.id not in {k.id for k, _ in keep}}):
                    for t, v in keep:
                        out.append(ast.copy_location(ast.Assign(targets=[t], value=v), st))
                    count[0] += 1
                    continue
                lhs = {t.id for t in st.targets[0].elts}
                reads = {n.id for v in st.value.elts for n in ast.walk(v) if isinstance(n, ast.Name)}
                if not (lhs & reads) and len(lhs) == len(st.targets[0].elts):
                    for t, v in zip(st.targets[0].elts, st.value.elts):
                        out.append(ast.copy_location(ast.Assign(targets=[t], value=v), st))
                    count[0] += 1
                    continue
            if isinstance(st, ast.Assign) and len(st.targets) > 1 and isinstance(st.targets[0], ast.Name) and not simple_value(st.value) \
                    and not any(isinstance(n, ast.Name) and n.id == st.targets[0].id for t in st.targets[1:] for n in ast.walk(t)):
                # a = b[k] = V   ==   a = V; b[k] = a      (V is evaluated once, targets are bound left to right)
                out.append(ast.copy_location(ast.Assign(targets=[st.targets[0]], value=st.value), st))
                for t in st.targets[1:]:
                    out.append(ast.copy_location(ast.Assign(targets=[t], value=ast.Name(id=st.targets[0].id, ctx=ast.Load())), st))
                count[0] += 1
                continue
            if isinstance(st, ast.Assign) and len(st.targets) > 1 and all(isinstance(t, ast.Name) for t in st.targets) and simple_value(st.value):
                for t in st.targets:
                    out.append(ast.copy_location(ast.Assign(targets=[t], value=copy.deepcopy(st.value)), st))
                count[0] += 1
                continue
            out.append(st)
        return out
    fn.body = block(fn.body)
    if count[0]:
        ast.fix_missing_locations(fn)
    return count[0]


def normalize(project) -> List[str]:
    """Rewrite the project's syntax trees in place; returns a log of what was made transparent."""
    try:
        base_funcs, base_consts = load_baseline()
    except OSError:
        return []
    renamed = recover_renamed_anchors(project)
    from .normalize2 import simplify_defensive, recover_loops, hoist_lambda_calls, sink_loop_exit, unroll_search_loops, search_loops_to_any, fold_local_tables, dispatch_on_constant, accumulate_to_join, propagate_string_constants, unroll_index_loops, scalarise_local_lists, scalarise_records, fold_dict_building, unfold_reduce, first_match_lists, split_walrus_conjunctions, split_on_name_truth, fold_tested_names, scalarise_slot_dicts

    from . import normalize2 as _n2mod
    _n2mod.PINNED_SHORT_NAMES.clear()
    _n2mod.PINNED_SHORT_NAMES.update(q.rsplit(".", 1)[-1] for q in base_funcs)
    module_of = {id(fi.node): fi.module for fi in project.funcs.values()}
    fi_of = {id(fi.node): fi for fi in project.funcs.values()}
    from .resolve import Scope as _Scope

    def style_passes(fn) -> int:
        from . import normalize2 as _n2
        _n2._ESC_CACHE.pop(id(fn), None)
        _n2._ESC_CACHE[id(fn)] = _n2.escaping_names(fn)     # (these passes never move a name into or out of a nested function)
        try:
            return _style_passes(fn)
        finally:
            _n2._ESC_CACHE.pop(id(fn), None)

    def _style_passes(fn) -> int:
        total = 0
        for _ in range(4):
            n = split_walrus_conjunctions(fn)
            n += desugar(fn)
            n += first_match_lists(fn)
            n += split_on_name_truth(fn)
            k_ = sink_common_append(fn)
            if k_:
                n += k_ + fold_tested_names(fn)
            if id(fn) in fi_of and any(isinstance(x, ast.Call) and isinstance(x.func, (ast.Name, ast.Attribute)) and (x.func.id if isinstance(x.func, ast.Name) else x.func.attr) == "reduce" for x in ast.walk(fn)):
                n += unfold_reduce(fn, _Scope(project, fi_of[id(fn)]).resolve)
            n += hoist_lambda_calls(fn)
            n += _n2mod.expand_sliced_star(fn)
            n += _n2mod.sink_selected_value(fn)
            n += simplify_defensive(fn)
            n += recover_loops(fn)
            n += recover_loops(fn)      # (an index loop recovered from a while loop is looked at again once it is part of the tree)
            n += search_loops_to_any(fn)
            n += unroll_search_loops(fn)
            n += dispatch_on_constant(fn)
            n += fold_local_tables(fn)
            n += sink_loop_exit(fn)
            n += accumulate_to_join(fn)
            n += propagate_string_constants(fn)
            n += unroll_index_loops(fn)
            n += scalarise_local_lists(fn)
            n += scalarise_slot_dicts(fn)
            n += fold_dict_building(fn)
            n += inline_function_values(fn)
            if id(fn) in module_of:
                n += scalarise_records(fn, module_of[id(fn)].top_assigns, module_of[id(fn)].tree)
            total += n
            if not n:
                break
        return total
    for fi in project.funcs.values():
        inline_callable_aliases(fi.node)
        style_passes(fi.node)
    inl = Inliner(project, base_funcs, base_consts)
    inl.log += renamed
    for _round in range(3):
        before = {q: ast.dump(fi.node) for q, fi in project.funcs.items()} if _round == 0 else before
        changed = inl.run()
        again = 0
        for q, fi in project.funcs.items():
            now = ast.dump(fi.node)
            if now != before.get(q):        # only what the inliner touched needs the style passes again
                again += style_passes(fi.node)
                before[q] = ast.dump(fi.node)
        if not again:
            break
    for fi in project.funcs.values():
        inline_explaining_variables(fi.node)
        lift_conditionals(fi.node)
        split_assignments(fi.node)
        sink_common_append(fi.node)
    for m in project.modules.values():
        ast.fix_missing_locations(m.tree)
    # a private new helper whose every call site was inlined is judged through its callers, in their context
    from .resolve import Scope
    still_called = set()
    for fi in project.funcs.values():
        sc = Scope(project, fi)
        for n in own_walk(fi.node):
            if isinstance(n, ast.Call):
                q = sc.resolve_call(n)
                if q in inl.new_funcs and q != fi.qualname:
                    still_called.add(q)
    for m in project.modules.values():
        sc = Scope(project, None, m)
        for st in m.tree.body:
            if isinstance(st, (ast.FunctionDef, ast.AsyncFunctionDef, ast.ClassDef)):
                continue
            for n in ast.walk(st):
                if isinstance(n, ast.Call) and sc.resolve_call(n) in inl.new_funcs:
                    still_called.add(sc.resolve_call(n))
    # new functions that nothing of the pinned package calls: additions to the API, outside the surface the properties speak of
    edges: Dict[str, Set[str]] = {}
    for fi in project.funcs.values():
        sc = Scope(project, fi)
        outs = set()
        for n in own_walk(fi.node):
            if isinstance(n, ast.Call):
                q = sc.resolve_call(n)
                if q in project.funcs:
                    outs.add(q)
                elif q and q + ".__init__" in project.funcs:
                    outs.add(q + ".__init__")
            elif isinstance(n, ast.Attribute) and isinstance(n.ctx, ast.Load):
                q = sc.resolve_member(n)
                if q in project.funcs:
                    outs.add(q)        # property access
        edges[fi.qualname] = outs
    reach = set(q for q in project.funcs if q in base_funcs)
    stack = list(reach)
    while stack:
        q = stack.pop()
        for d in edges.get(q, ()):
            if d not in reach:
                reach.add(d)
                stack.append(d)
    for fi in project.funcs.values():       # nested functions belong to their parent
        if fi.parent is not None and fi.parent.qualname in reach:
            reach.add(fi.qualname)
    project.outside_surface = {q for q in project.funcs if q not in base_funcs and q not in reach}
    inlined = {l.split(" ", 1)[0] for l in inl.log}
    project.transparent = {q for q in inl.new_funcs if q in inlined and q not in still_called and q.rsplit(".", 1)[-1].startswith("_")}
    return inl.log
