"""Languages of regular expressions, decided on the pattern text (the pattern is parsed with the stdlib's parser, never run).

`witness_not_included(ref, code)` returns a string that fully matches `ref` but not `code`, or None when L(ref) is a subset of
L(code). Supported: literals, classes (ranges, negation, \\d \\s \\w), `.`, alternation, groups (capturing or not), greedy /
lazy / bounded repetition. Anchors, look-around, back-references and flags make the answer `Unsupported` (the caller reports
the rule as not decided rather than guessing). Characters are abstracted by a finite set of representatives: every character
either pattern mentions, plus one member of each category a class can name (ASCII digit, non-ASCII digit, letter, non-ASCII
letter, underscore, space, other punctuation, newline)."""
from __future__ import annotations

from typing import Dict, FrozenSet, List, Optional, Set, Tuple


class Unsupported(Exception):
    pass


REPRESENTATIVES = ["0", "5", "٣", "a", "Z", "é", "_", " ", "\t", "~", "\n", "%", ".", "-", "+", ","]


def _parse(pat: str):
    import re._parser as sre
    return sre.parse(pat)


def _chars_of(items, acc: Set[str]):
    from re import _constants as C
    for op, av in items:
        if op is C.LITERAL or op is C.NOT_LITERAL:
            acc.add(chr(av))
        elif op is C.IN:
            for o2, a2 in av:
                if o2 is C.LITERAL:
                    acc.add(chr(a2))
                elif o2 is C.RANGE:
                    acc.add(chr(a2[0]))
                    acc.add(chr(a2[1]))
                    if a2[1] - a2[0] > 1:
                        acc.add(chr(a2[0] + 1))
                    if a2[1] + 1 < 0x110000:
                        acc.add(chr(a2[1] + 1))
                    if a2[0] > 0:
                        acc.add(chr(a2[0] - 1))
        elif op is C.BRANCH:
            for b in av[1]:
                _chars_of(b, acc)
        elif op is C.SUBPATTERN:
            _chars_of(av[3], acc)
        elif op in (C.MAX_REPEAT, C.MIN_REPEAT, C.POSSESSIVE_REPEAT):
            _chars_of(av[2], acc)


def _category(name: str, ch: str) -> bool:
    neg = "NOT_" in name
    if "DIGIT" in name:
        r = ch.isdigit() or ch.isdecimal()
    elif "SPACE" in name:
        r = ch.isspace()
    elif "WORD" in name:
        r = ch.isalnum() or ch == "_"
    else:
        raise Unsupported(f"category {name}")
    return r != neg


class NFA:
    def __init__(self):
        self.n = 0
        self.eps: Dict[int, Set[int]] = {}
        self.tr: Dict[int, List[Tuple[FrozenSet[str], int]]] = {}

    def new(self) -> int:
        self.n += 1
        return self.n - 1

    def e(self, a: int, b: int):
        self.eps.setdefault(a, set()).add(b)

    def t(self, a: int, chars: FrozenSet[str], b: int):
        self.tr.setdefault(a, []).append((chars, b))


def _build(items, nfa: NFA, start: int, alphabet: List[str]) -> int:
    """Adds the automaton of a sequence starting at `start`; returns its end state."""
    from re import _constants as C
    cur = start
    for op, av in items:
        if op is C.LITERAL:
            nxt = nfa.new()
            nfa.t(cur, frozenset({chr(av)}), nxt)
            cur = nxt
        elif op is C.NOT_LITERAL:
            nxt = nfa.new()
            nfa.t(cur, frozenset(c for c in alphabet if c != chr(av)), nxt)
            cur = nxt
        elif op is C.ANY:
            nxt = nfa.new()
            nfa.t(cur, frozenset(c for c in alphabet if c != "\n"), nxt)
            cur = nxt
        elif op is C.IN:
            negate = any(o2 is C.NEGATE for o2, _ in av)
            chars = set()
            for ch in alphabet:
                hit = False
                for o2, a2 in av:
                    if o2 is C.LITERAL:
                        hit = hit or ord(ch) == a2
                    elif o2 is C.RANGE:
                        hit = hit or a2[0] <= ord(ch) <= a2[1]
                    elif o2 is C.CATEGORY:
                        hit = hit or _category(str(a2), ch)
                    elif o2 is C.NEGATE:
                        pass
                    else:
                        raise Unsupported(str(o2))
                if hit != negate:
                    chars.add(ch)
            nxt = nfa.new()
            nfa.t(cur, frozenset(chars), nxt)
            cur = nxt
        elif op is C.BRANCH:
            end = nfa.new()
            for b in av[1]:
                s = nfa.new()
                nfa.e(cur, s)
                nfa.e(_build(b, nfa, s, alphabet), end)
            cur = end
        elif op is C.SUBPATTERN:
            if av[1] or av[2]:
                raise Unsupported("inline flags")
            cur = _build(av[3], nfa, cur, alphabet)
        elif op in (C.MAX_REPEAT, C.MIN_REPEAT, C.POSSESSIVE_REPEAT):
            lo, hi, body = av
            unbounded = hi == C.MAXREPEAT
            if lo > 12 or (not unbounded and hi > 12):
                raise Unsupported("large bounded repeat")
            for _ in range(lo):
                cur = _build(body, nfa, cur, alphabet)
            if unbounded:
                s = nfa.new()
                nfa.e(cur, s)
                e2 = _build(body, nfa, s, alphabet)
                nfa.e(e2, s)
                cur = s
            else:
                end = nfa.new()
                nfa.e(cur, end)
                for _ in range(hi - lo):
                    cur = _build(body, nfa, cur, alphabet)
                    nfa.e(cur, end)
                cur = end
        else:
            raise Unsupported(str(op))
    return cur


def _closure(nfa: NFA, states: Set[int]) -> FrozenSet[int]:
    out = set(states)
    stack = list(states)
    while stack:
        s = stack.pop()
        for d in nfa.eps.get(s, ()):
            if d not in out:
                out.add(d)
                stack.append(d)
    return frozenset(out)


def _step(nfa: NFA, states: FrozenSet[int], ch: str) -> FrozenSet[int]:
    nxt = set()
    for s in states:
        for chars, d in nfa.tr.get(s, ()):
            if ch in chars:
                nxt.add(d)
    return _closure(nfa, nxt)


def witness_not_included(ref: str, code: str, limit: int = 20000) -> Optional[str]:
    pr, pc = _parse(ref), _parse(code)
    if pr.state.flags & ~32 or pc.state.flags & ~32:      # 32 = re.UNICODE, the default
        raise Unsupported("flags")
    acc: Set[str] = set(REPRESENTATIVES)
    _chars_of(pr, acc)
    _chars_of(pc, acc)
    alphabet = sorted(acc)
    a, b = NFA(), NFA()
    sa, sb = a.new(), b.new()
    ea, eb = _build(pr, a, sa, alphabet), _build(pc, b, sb, alphabet)
    start = (_closure(a, {sa}), _closure(b, {sb}))
    seen = {start: ""}
    queue = [start]
    while queue:
        cur = queue.pop(0)
        w = seen[cur]
        if ea in cur[0] and eb not in cur[1]:
            return w
        if len(seen) > limit:
            raise Unsupported("state space")
        for ch in alphabet:
            na = _step(a, cur[0], ch)
            if not na:
                continue
            nxt = (na, _step(b, cur[1], ch))
            if nxt not in seen:
                seen[nxt] = w + ch
                queue.append(nxt)
    return None
