"""IV: a tiny non-relational interval evaluator over sa.formula expression trees."""
from __future__ import annotations

import math
from typing import Dict, Optional, Tuple

INF = math.inf
FULL = (-INF, INF)


class Unreadable(Exception):
    pass


def _mul(a, b):
    ps = []
    for x in a:
        for y in b:
            if (x in (INF, -INF) and y == 0) or (y in (INF, -INF) and x == 0):
                ps.append(0.0)
            else:
                ps.append(x * y)
    return (min(ps), max(ps))


def interval(t, env: Dict[str, Tuple[float, float]], constraints=None) -> Tuple[float, float]:
    """Interval of an expression; ``constraints`` = [(expr, lo, hi)] learnt from validation guards."""
    if constraints:
        lo, hi = _interval(t, env, constraints)
        for (e, clo, chi) in constraints:
            if e == t:
                lo, hi = max(lo, clo), min(hi, chi)
        return (lo, hi)
    return _interval(t, env, None)


def _interval(t, env, constraints) -> Tuple[float, float]:
    def interval(x, env):       # recursive calls see the constraints
        return globals()["interval"](x, env, constraints)
    k = t[0]
    if k == "num":
        return (t[1], t[1])
    if k == "var":
        return env.get(t[1], FULL)
    if k == "index":
        if t[1][0] == "var":
            return env.get(t[1][1] + "[]", env.get(t[1][1], FULL))
        return FULL
    if k == "neg":
        lo, hi = interval(t[1], env)
        return (-hi, -lo)
    if k == "op":
        vals = [interval(x, env) for x in t[2]]
        if t[1] == "+":
            return (sum(v[0] for v in vals), sum(v[1] for v in vals))
        if t[1] == "*":
            acc = vals[0]
            for v in vals[1:]:
                acc = _mul(acc, v)
            return acc
        if t[1] == "max":
            return (max(v[0] for v in vals), max(v[1] for v in vals))
        if t[1] == "min":
            return (min(v[0] for v in vals), min(v[1] for v in vals))
        raise Unreadable(f"operator {t[1]}")
    if k == "bin":
        a, b = interval(t[2], env), interval(t[3], env)
        if t[1] == "/":
            if b[0] <= 0 <= b[1]:
                return FULL
            inv = (1 / b[1], 1 / b[0])
            return _mul(a, inv)
        if t[1] == "%":
            if b[0] == b[1] and b[0] > 0:
                return (0.0, b[0])
            return FULL
        if t[1] == "**":
            if b[0] == b[1] and a[0] >= 0 and b[0] >= 0:
                return (a[0] ** b[0], a[1] ** b[0] if a[1] != INF else INF)
            return FULL
        return FULL
    if k == "call":
        name = t[1]
        args = [interval(x, env) for x in t[2] if x[0] != "kw"]
        if name in ("round", "int", "float") and args:
            lo, hi = args[0]
            return (math.floor(lo) if lo not in (INF, -INF) else lo, math.ceil(hi) if hi not in (INF, -INF) else hi)
        if name == "abs" and args:
            lo, hi = args[0]
            if lo >= 0:
                return (lo, hi)
            if hi <= 0:
                return (-hi, -lo)
            return (0.0, max(-lo, hi))
        if name == "sqrt" and args:
            lo, hi = args[0]
            return (math.sqrt(max(lo, 0.0)), math.sqrt(hi) if hi != INF else INF)
        return FULL
    if k == "ite":
        a, b = interval(t[2], env), interval(t[3], env)
        return (min(a[0], b[0]), max(a[1], b[1]))
    if k == "raise":
        return (INF, -INF)   # empty
    return FULL


def within(iv, lo, hi) -> bool:
    return iv[0] >= lo and iv[1] <= hi
