"""L0 loader: parse every module of the package under /repo/src (or an overlay of it).

Nothing of the repository is imported or executed: sources are read as text and parsed
with the stdlib ``ast`` of the interpreter that also runs the repository
(/venv/bin/python), so the grammar is the one the code is really compiled with.

A Project can be built from the working tree or from the working tree with an in-memory
*overlay* ``{relative path: source}`` -- that is how the self-test analyses mutated
sources without writing scratch copies to disk.
"""
from __future__ import annotations

import ast
import hashlib
import os
from dataclasses import dataclass, field
from typing import Dict, List, Optional

REPO_ROOT = os.environ.get("VERIF_REPO", "/repo")
SRC_REL = "src"
PACKAGE = "cm_colors"


class AnalysisError(Exception):
    """The analysis cannot give a verdict (vanished anchor, unreadable construct)."""


@dataclass
class FuncInfo:
    qualname: str            # cm_colors.core.optimisation._strategy_strict
    module: "Module"
    node: ast.AST            # FunctionDef
    cls: Optional[str] = None  # enclosing class name (for methods)
    parent: Optional["FuncInfo"] = None  # enclosing function (nested defs)

    @property
    def name(self) -> str:
        return self.node.name

    @property
    def short(self) -> str:
        return self.qualname.split(PACKAGE + ".", 1)[-1]

    def params(self) -> List[str]:
        a = self.node.args
        names = [x.arg for x in a.posonlyargs + a.args]
        if a.vararg:
            names.append(a.vararg.arg)
        names += [x.arg for x in a.kwonlyargs]
        if a.kwarg:
            names.append(a.kwarg.arg)
        return names

    def defaults(self) -> Dict[str, ast.AST]:
        a = self.node.args
        pos = a.posonlyargs + a.args
        out = {}
        for p, d in zip(pos[len(pos) - len(a.defaults):], a.defaults):
            out[p.arg] = d
        for p, d in zip(a.kwonlyargs, a.kw_defaults):
            if d is not None:
                out[p.arg] = d
        return out


@dataclass
class Module:
    name: str                 # cm_colors.core.optimisation
    relpath: str              # src/cm_colors/core/optimisation.py
    src: str
    tree: ast.Module
    is_package: bool = False
    funcs: Dict[str, FuncInfo] = field(default_factory=dict)     # local qualname -> info
    classes: Dict[str, ast.ClassDef] = field(default_factory=dict)
    imports: Dict[str, str] = field(default_factory=dict)        # alias -> dotted target
    top_assigns: Dict[str, ast.AST] = field(default_factory=dict)  # NAME -> value expr

    def line(self, lineno: int) -> str:
        lines = self.src.splitlines()
        if 1 <= lineno <= len(lines):
            return lines[lineno - 1].strip()
        return ""


class Project:
    def __init__(self, root: str = None, overlay: Optional[Dict[str, str]] = None, normalize: bool = True):
        self.root = root or REPO_ROOT
        self.overlay = dict(overlay or {})
        self.modules: Dict[str, Module] = {}
        self.funcs: Dict[str, FuncInfo] = {}
        self._load()
        self.normalized: List[str] = []
        self.transparent: set = set()       # new private helpers fully inlined into their callers
        self.outside_surface: set = set()   # functions added after the pinned tree that no pinned function reaches (new API)
        if normalize:
            # helpers / constants introduced after the pinned tree are made transparent (sa/normalize.py)
            from .normalize import normalize as _normalize
            self.normalized = _normalize(self)

    # ------------------------------------------------------------------ loading
    def _load(self) -> None:
        base = os.path.join(self.root, SRC_REL, PACKAGE)
        if not os.path.isdir(base):
            raise AnalysisError(f"package directory missing: {base}")
        paths = []
        for dirpath, dirnames, filenames in os.walk(base):
            dirnames[:] = sorted(d for d in dirnames if d != "__pycache__")
            for fn in sorted(filenames):
                if fn.endswith(".py"):
                    paths.append(os.path.join(dirpath, fn))
        rels = {os.path.relpath(p, self.root) for p in paths}
        rels |= {r for r in self.overlay if r.endswith(".py") and r.startswith(os.path.join(SRC_REL, PACKAGE))}
        for rel in sorted(rels):
            if rel in self.overlay:
                src = self.overlay[rel]
            else:
                with open(os.path.join(self.root, rel), "r", encoding="utf-8") as fh:
                    src = fh.read()
            self._add_module(rel, src)

    def _add_module(self, rel: str, src: str) -> None:
        parts = rel[len(SRC_REL) + 1:-3].split(os.sep)
        is_pkg = parts[-1] == "__init__"
        if is_pkg:
            parts = parts[:-1]
        name = ".".join(parts)
        try:
            tree = ast.parse(src, filename=rel)
        except SyntaxError as e:  # a variant that does not compile is not our business
            raise AnalysisError(f"{rel}: does not parse: {e}")
        m = Module(name=name, relpath=rel, src=src, tree=tree, is_package=is_pkg)
        self.modules[name] = m
        self._index(m)

    def _index(self, m: Module) -> None:
        pkg_parts = m.name.split(".") if m.is_package else m.name.split(".")[:-1]

        def rel_target(level: int, module: Optional[str]) -> str:
            if level == 0:
                return module or ""
            base = pkg_parts[: len(pkg_parts) - (level - 1)]
            return ".".join(base + ([module] if module else []))

        def index_imports(node: ast.AST, table: Dict[str, str]) -> None:
            if isinstance(node, ast.Import):
                for a in node.names:
                    if a.asname:
                        table[a.asname] = a.name
                    else:
                        table[a.name.split(".")[0]] = a.name.split(".")[0]
            elif isinstance(node, ast.ImportFrom):
                tgt = rel_target(node.level, node.module)
                for a in node.names:
                    table[a.asname or a.name] = f"{tgt}.{a.name}" if tgt else a.name

        m.index_imports = index_imports  # reused for function-local imports
        for st in m.tree.body:
            index_imports(st, m.imports)
            if isinstance(st, ast.Assign) and len(st.targets) == 1 and isinstance(st.targets[0], ast.Name):
                m.top_assigns[st.targets[0].id] = st.value
            elif isinstance(st, ast.AnnAssign) and isinstance(st.target, ast.Name) and st.value is not None:
                m.top_assigns[st.target.id] = st.value

        def add_func(node, prefix, cls=None, parent=None):
            q = f"{prefix}.{node.name}"
            fi = FuncInfo(qualname=f"{m.name}.{q}", module=m, node=node, cls=cls, parent=parent)
            m.funcs[q] = fi
            self.funcs[fi.qualname] = fi
            # nested defs (direct children in the body, any depth of compound statements)
            for sub in _nested_defs(node):
                add_func(sub, f"{q}.<locals>", cls=None, parent=fi)

        def _nested_defs(fn):
            out = []

            def walk(stmts):
                for s in stmts:
                    if isinstance(s, (ast.FunctionDef, ast.AsyncFunctionDef)):
                        out.append(s)
                        continue
                    if isinstance(s, ast.ClassDef):
                        continue
                    for fld in ("body", "orelse", "finalbody"):
                        walk(getattr(s, fld, []) or [])
                    for h in getattr(s, "handlers", []) or []:
                        walk(h.body)

            walk(fn.body)
            return out

        for st in m.tree.body:
            if isinstance(st, (ast.FunctionDef, ast.AsyncFunctionDef)):
                q = st.name
                fi = FuncInfo(qualname=f"{m.name}.{q}", module=m, node=st)
                m.funcs[q] = fi
                self.funcs[fi.qualname] = fi
                for sub in _nested_defs(st):
                    add_func(sub, f"{q}.<locals>", parent=fi)
            elif isinstance(st, ast.ClassDef):
                m.classes[st.name] = st
                for cst in st.body:
                    if isinstance(cst, (ast.FunctionDef, ast.AsyncFunctionDef)):
                        q = f"{st.name}.{cst.name}"
                        # property setters etc. would overwrite; repo has none
                        fi = FuncInfo(qualname=f"{m.name}.{q}", module=m, node=cst, cls=st.name)
                        m.funcs[q] = fi
                        self.funcs[fi.qualname] = fi
                        for sub in _nested_defs(cst):
                            add_func(sub, f"{q}.<locals>", parent=fi)

    def reindex(self) -> None:
        """Rebuild the name indexes from the (rewritten) syntax trees."""
        self.funcs.clear()
        for m in self.modules.values():
            m.funcs.clear()
            m.classes.clear()
            m.imports.clear()
            m.top_assigns.clear()
            self._index(m)

    # ------------------------------------------------------------------ queries
    def module(self, name: str) -> Module:
        if name not in self.modules:
            raise AnalysisError(f"anchor module vanished: {name}")
        return self.modules[name]

    def func(self, qualname: str) -> FuncInfo:
        if qualname not in self.funcs:
            raise AnalysisError(f"anchor function vanished: {qualname}")
        return self.funcs[qualname]

    def has_func(self, qualname: str) -> bool:
        return qualname in self.funcs

    def digest(self) -> str:
        h = hashlib.sha256()
        for name in sorted(self.modules):
            h.update(name.encode())
            h.update(self.modules[name].src.encode())
        return h.hexdigest()[:16]

    def loc(self, m: Module, node: ast.AST) -> str:
        return f"{m.relpath}:{getattr(node, 'lineno', 0)}"


def unparse(node: ast.AST) -> str:
    try:
        return ast.unparse(node)
    except Exception:
        return f"<{type(node).__name__}>"


def norm_text(node: ast.AST) -> str:
    """Normalised statement text used to key findings (never line numbers)."""
    return " ".join(unparse(node).split())
