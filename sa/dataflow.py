"""L3: a generic forward worklist solver over sa.cfg.CFG.

``transfer(node, state)`` gives the state after the node; ``edge(src_node, label, state)`` refines
it per out-edge (None = edge infeasible); ``join(node, [(pred_id, label, state), ...])`` merges.
Unvisited predecessors are skipped, so a *must* analysis (meet = intersection) started this way
converges from above to the greatest fixpoint, a *may* analysis (join = union) from below to the
least one. States must support ``==``.
"""
from __future__ import annotations

from collections import deque
from typing import Callable, Dict, Optional

from .cfg import CFG
from .loader import AnalysisError


def solve(cfg: CFG, init, transfer: Callable, edge: Callable, join: Callable, max_steps: int = 20000):
    IN: Dict[int, object] = {cfg.entry: init}
    OUT_EDGE: Dict[tuple, object] = {}   # (src, dst, label) -> state
    order = {n: i for i, n in enumerate(cfg.topo_order())}
    work = deque([cfg.entry])
    queued = {cfg.entry}
    steps = 0
    while work:
        steps += 1
        if steps > max_steps:
            raise AnalysisError("dataflow did not converge")
        n = min(work, key=lambda x: order.get(x, 1 << 30))
        work.remove(n)
        queued.discard(n)
        node = cfg.nodes[n]
        if n != cfg.entry:
            incoming = []
            for (p, lab) in cfg.pred[n]:
                st = OUT_EDGE.get((p, n, lab))
                if st is not None:
                    incoming.append((p, lab, st))
            if not incoming:
                continue
            new_in = join(node, incoming)
            if n in IN and IN[n] == new_in:
                continue
            IN[n] = new_in
        state = IN[n]
        out = transfer(node, state)
        for (d, lab) in cfg.succ[n]:
            src_state = state if lab == "exc" else out
            st = edge(node, lab, src_state)
            key = (n, d, lab)
            if st is None:
                if key in OUT_EDGE:
                    del OUT_EDGE[key]
                    if d not in queued:
                        work.append(d)
                        queued.add(d)
                continue
            if OUT_EDGE.get(key) != st or d not in IN:
                OUT_EDGE[key] = st
                if d not in queued:
                    work.append(d)
                    queued.add(d)
    return IN, OUT_EDGE
