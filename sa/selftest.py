"""Sensitivity sweep (thorough tier): analyse in-memory variants of the current tree.

``corpus/<pid>.py`` lists MUTANTS (edits that break the property but compile; the check must
report them) and BENIGN variants (behaviour-preserving edits; the check must stay silent).
Variants are textual edits applied to the *current* source through the loader overlay --
nothing is written to disk and nothing is executed. A surviving mutant is a weakness of the
checker and is printed; an alarm on a benign variant is printed as SELFTEST-WARNING and recorded in
the evidence (the checker is wrong, not the code) -- neither changes the verdict on the tree. Edits whose anchor text is absent from the current tree
(because the tree has changed) are skipped and counted as such.
"""
from __future__ import annotations

import importlib
import os
from concurrent.futures import ProcessPoolExecutor
from typing import Dict, List

from .loader import AnalysisError, Project
from .report import Check


def _apply(root: str, edits) -> Dict[str, str] | None:
    overlay: Dict[str, str] = {}
    if edits == "unparse-all":
        import ast
        base = os.path.join(root, "src", "cm_colors")
        for dp, _dn, fns in os.walk(base):
            for fn in fns:
                if fn.endswith(".py"):
                    pth = os.path.join(dp, fn)
                    with open(pth, encoding="utf-8") as fh:
                        overlay[os.path.relpath(pth, root)] = ast.unparse(ast.parse(fh.read()))
        return overlay
    if isinstance(edits, str) and edits.startswith("patch:"):
        return _apply_patch(root, edits[6:])
    for (rel, old, new) in edits:
        src = overlay.get(rel)
        if src is None:
            with open(os.path.join(root, rel), encoding="utf-8") as fh:
                src = fh.read()
        if src.count(old) != 1:
            return None
        overlay[rel] = src.replace(old, new)
    return overlay


def _apply_patch(root: str, patch_path: str) -> Dict[str, str] | None:
    """Overlay produced by a unified diff (a recorded behaviour-preserving refactoring): the touched files are copied to a
    scratch directory outside /repo and /verif, patched there, read back and the directory removed. None if the diff
    does not apply to the current tree (the tree has changed under it)."""
    import re
    import shutil
    import subprocess
    import tempfile
    with open(patch_path, encoding="utf-8") as fh:
        text = fh.read()
    rels = sorted(set(re.findall(r"^\+\+\+ b/(\S+)", text, flags=re.M)))
    if not rels:
        return None
    tmp = tempfile.mkdtemp(prefix="vrf_patch_")
    try:
        for rel in rels:
            src = os.path.join(root, rel)
            if not os.path.isfile(src):
                return None
            os.makedirs(os.path.dirname(os.path.join(tmp, rel)), exist_ok=True)
            shutil.copy(src, os.path.join(tmp, rel))
        p = subprocess.run(["git", "apply", "--whitespace=nowarn", patch_path], cwd=tmp, capture_output=True, text=True)
        if p.returncode != 0:
            return None
        out = {}
        for rel in rels:
            with open(os.path.join(tmp, rel), encoding="utf-8") as fh:
                out[rel] = fh.read()
        return out
    finally:
        shutil.rmtree(tmp, ignore_errors=True)


def _one(args):
    pid, root, variant = args
    edits = variant["edits"]
    overlay = _apply(root, edits)
    if overlay is None:
        return (variant["name"], "skipped", [], [])
    try:
        project = Project(root, overlay)
        mod = importlib.import_module(f"checks.{pid}")
        chk = Check(pid, "quick", quiet=True)
        try:
            mod.run(project, chk)
            chk.raise_unmet_floors()
        except Exception:
            if not chk.split_findings()[0]:
                raise
        new, _ = chk.split_findings()
        if new:
            return (variant["name"], "reported", [f"{f.loc} {f.function} [{f.rule}] {f.message}" for f in new[:3]], [(f.rule, f.function) for f in new])
        return (variant["name"], "silent", [], [])
    except AnalysisError as e:
        return (variant["name"], "inconclusive", [str(e)], [])
    except Exception as e:  # checker crash on a variant = inconclusive
        return (variant["name"], "inconclusive", [f"{type(e).__name__}: {e}"], [])


def load_corpus(pid: str):
    try:
        mod = importlib.import_module(f"corpus.{pid}")
    except ModuleNotFoundError:
        return [], []
    return list(getattr(mod, "MUTANTS", [])), list(getattr(mod, "BENIGN", []))


def sensitivity(pid: str, root: str, chk: Check) -> dict:
    mutants, benign = load_corpus(pid)
    benign = benign + [{"name": "whole package re-printed (comments dropped, layout and quoting normalised, line numbers changed)", "edits": "unparse-all"}]
    # the recorded behaviour-preserving refactorings (refactorings/*/patch.diff: written by independent agents, each shown
    # equivalent on thousands of inputs): every check must stay silent on every one of them
    rdir = os.path.join(os.path.dirname(os.path.dirname(os.path.abspath(__file__))), "refactorings")
    if os.path.isdir(rdir):
        for d in sorted(os.listdir(rdir)):
            pth = os.path.join(rdir, d, "patch.diff")
            if os.path.isfile(pth):
                benign.append({"name": f"recorded refactoring {d}", "edits": "patch:" + pth})
    # the seeded breaking changes written for this property by independent agents (seeded/<pid>-seedK/patch.diff): each must be reported
    sdir = os.path.join(os.path.dirname(os.path.dirname(os.path.abspath(__file__))), "seeded")
    if os.path.isdir(sdir):
        for d in sorted(os.listdir(sdir)):
            pth = os.path.join(sdir, d, "patch.diff")
            if d.startswith(pid + "-") and os.path.isfile(pth):
                mutants = mutants + [{"name": f"seeded change {d}", "edits": "patch:" + pth}]
    jobs = [(pid, root, v) for v in mutants + benign]
    results = []
    if jobs:
        workers = min(16, len(jobs))
        with ProcessPoolExecutor(max_workers=workers) as ex:
            results = list(ex.map(_one, jobs))
    mres = results[: len(mutants)]
    bres = results[len(mutants):]
    survivors = [r for r in mres if r[1] in ("silent",)]
    inconclusive = [r for r in mres if r[1] == "inconclusive"]
    # an alarm on a benign variant is the checker's fault only if the variant adds something the tree itself does not show
    base_keys = {(f.rule, f.function) for f in chk.findings}
    benign_alarms = [f"{r[0]}: {r[1]} {r[2]}" for r in bres if (r[1] == "reported" and set(r[3]) - base_keys) or (r[1] == "inconclusive" and not base_keys)]
    for r in survivors:
        chk.say(f"SENSITIVITY: mutant not reported (checker weakness, not a violation): {r[0]}")
    for r in results:
        if r[1] == "skipped":
            chk.say(f"SENSITIVITY: variant skipped (its anchor text is not in the current tree): {r[0]}")
    for r in inconclusive:
        chk.say(f"SENSITIVITY: mutant made the analysis inconclusive (exit 2, fail-closed): {r[0]}: {r[2]}")
    summary = {
        "mutants": len(mres),
        "killed": sum(1 for r in mres if r[1] == "reported"),
        "fail_closed": len(inconclusive),
        "survived": [r[0] for r in survivors],
        "skipped": [r[0] for r in results if r[1] == "skipped"],
        "benign": len(bres),
        "benign_silent": sum(1 for r in bres if r[1] == "silent"),
        "benign_skipped": sum(1 for r in bres if r[1] == "skipped"),
        "per_mutant": {r[0]: {"verdict": r[1], "report": r[2][:2]} for r in mres},
    }
    return {"summary": summary, "benign_alarms": benign_alarms}
