"""Sensitivity sweep (thorough tier): analyse in-memory variants of the current tree.

``corpus/<pid>.py`` lists MUTANTS (edits that break the property but compile; the check must
report them) and BENIGN variants (behaviour-preserving edits; the check must stay silent).
Variants are textual edits applied to the *current* source through the loader overlay --
nothing is written to disk and nothing is executed. A surviving mutant is a weakness of the
checker and is printed; an alarm on a benign variant makes the whole run fail with exit 2
(the checker is wrong, not the code). Edits whose anchor text is absent from the current tree
(because the tree has changed) are skipped and counted as such.
"""
from __future__ import annotations

import importlib
import os
from concurrent.futures import ProcessPoolExecutor
from typing import Dict, List

from .loader import AnalysisError, Project
from .report import Check


def _apply(root: str, edits) -> Dict[str, str] | None:
    overlay: Dict[str, str] = {}
    if edits == "unparse-all":
        import ast
        base = os.path.join(root, "src", "cm_colors")
        for dp, _dn, fns in os.walk(base):
            for fn in fns:
                if fn.endswith(".py"):
                    pth = os.path.join(dp, fn)
                    with open(pth, encoding="utf-8") as fh:
                        overlay[os.path.relpath(pth, root)] = ast.unparse(ast.parse(fh.read()))
        return overlay
    for (rel, old, new) in edits:
        src = overlay.get(rel)
        if src is None:
            with open(os.path.join(root, rel), encoding="utf-8") as fh:
                src = fh.read()
        if src.count(old) != 1:
            return None
        overlay[rel] = src.replace(old, new)
    return overlay


def _one(args):
    pid, root, variant = args
    edits = variant["edits"]
    overlay = _apply(root, edits)
    if overlay is None:
        return (variant["name"], "skipped", [])
    try:
        project = Project(root, overlay)
        mod = importlib.import_module(f"checks.{pid}")
        chk = Check(pid, "quick", quiet=True)
        try:
            mod.run(project, chk)
        except AnalysisError:
            if not chk.split_findings()[0]:
                raise
        new, _ = chk.split_findings()
        if new:
            return (variant["name"], "reported", [f"{f.loc} {f.function} [{f.rule}] {f.message}" for f in new[:3]])
        return (variant["name"], "silent", [])
    except AnalysisError as e:
        return (variant["name"], "inconclusive", [str(e)])
    except Exception as e:  # checker crash on a variant = inconclusive
        return (variant["name"], "inconclusive", [f"{type(e).__name__}: {e}"])


def load_corpus(pid: str):
    try:
        mod = importlib.import_module(f"corpus.{pid}")
    except ModuleNotFoundError:
        return [], []
    return list(getattr(mod, "MUTANTS", [])), list(getattr(mod, "BENIGN", []))


def sensitivity(pid: str, root: str, chk: Check) -> dict:
    mutants, benign = load_corpus(pid)
    benign = benign + [{"name": "whole package re-printed (comments dropped, layout and quoting normalised, line numbers changed)", "edits": "unparse-all"}]
    jobs = [(pid, root, v) for v in mutants + benign]
    results = []
    if jobs:
        workers = min(16, len(jobs))
        with ProcessPoolExecutor(max_workers=workers) as ex:
            results = list(ex.map(_one, jobs))
    mres = results[: len(mutants)]
    bres = results[len(mutants):]
    survivors = [r for r in mres if r[1] in ("silent",)]
    inconclusive = [r for r in mres if r[1] == "inconclusive"]
    benign_alarms = [f"{r[0]}: {r[1]} {r[2]}" for r in bres if r[1] in ("reported", "inconclusive")]
    for r in survivors:
        chk.say(f"SENSITIVITY: mutant not reported (checker weakness, not a violation): {r[0]}")
    for r in results:
        if r[1] == "skipped":
            chk.say(f"SENSITIVITY: variant skipped (its anchor text is not in the current tree): {r[0]}")
    for r in inconclusive:
        chk.say(f"SENSITIVITY: mutant made the analysis inconclusive (exit 2, fail-closed): {r[0]}: {r[2]}")
    summary = {
        "mutants": len(mres),
        "killed": sum(1 for r in mres if r[1] == "reported"),
        "fail_closed": len(inconclusive),
        "survived": [r[0] for r in survivors],
        "skipped": [r[0] for r in results if r[1] == "skipped"],
        "benign": len(bres),
        "benign_silent": sum(1 for r in bres if r[1] == "silent"),
        "per_mutant": {r[0]: {"verdict": r[1], "report": r[2][:2]} for r in mres},
    }
    return {"summary": summary, "benign_alarms": benign_alarms}
