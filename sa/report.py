"""Obligations, violations, known findings, evidence and exit codes (DESIGN 2.3)."""
from __future__ import annotations

import json
import os
import time
from typing import Any, Dict, List, Optional

VERIF = os.path.dirname(os.path.dirname(os.path.abspath(__file__)))
KNOWN_FINDINGS = os.path.join(VERIF, "known_findings.json")


def load_known() -> List[dict]:
    if not os.path.exists(KNOWN_FINDINGS):
        return []
    with open(KNOWN_FINDINGS) as fh:
        return json.load(fh)["findings"]


class Finding:
    def __init__(self, rule: str, function: str, construct: str, loc: str, message: str, extra: Optional[dict] = None):
        self.rule = rule
        self.function = function
        self.construct = " ".join(construct.split())
        self.loc = loc
        self.message = message
        self.extra = extra or {}

    def key(self):
        return (self.rule, self.function, self.construct)

    def as_dict(self):
        return {"rule": self.rule, "function": self.function, "construct": self.construct,
                "loc": self.loc, "message": self.message, **({"extra": self.extra} if self.extra else {})}


class Check:
    """Collector a property check writes into. One instance per (property, source tree)."""

    def __init__(self, pid: str, tier: str = "quick", quiet: bool = False):
        self.pid = pid
        self.tier = tier
        self.quiet = quiet
        self.t0 = time.time()
        self.obligations: List[dict] = []
        self.findings: List[Finding] = []
        self.notes: List[str] = []
        self.analysed: Dict[str, Any] = {"modules": set(), "functions": set(), "cfg_nodes": 0, "call_sites": 0,
                                         "rule_instances": {}}
        self.rules: Dict[str, str] = {}
        self.assumptions: List[str] = []
        self.not_decided: List[str] = []
        self.extra: Dict[str, Any] = {}
        self.floors: List[tuple] = []

    # -------------------------------------------------------------- recording
    def rule(self, rid: str, text: str) -> None:
        self.rules[rid] = text

    def say(self, msg: str) -> None:
        if not self.quiet:
            print(msg)

    def saw_function(self, fi, cfg=None) -> None:
        self.analysed["functions"].add(fi.short)
        self.analysed["modules"].add(fi.module.name)
        if cfg is not None:
            self.analysed["cfg_nodes"] += len(cfg.nodes)

    def saw_module(self, m) -> None:
        self.analysed["modules"].add(m.name)

    def ok(self, rule: str, where: str, text: str, how: str = "", nontrivial: bool = True) -> None:
        """An obligation that was discharged."""
        self.obligations.append({"rule": rule, "where": where, "obligation": text, "discharged": True,
                                 "how": how, "nontrivial": nontrivial})
        self.analysed["rule_instances"][rule] = self.analysed["rule_instances"].get(rule, 0) + 1

    def fail(self, rule: str, function: str, construct: str, loc: str, message: str, text: str = "", extra=None) -> None:
        """An obligation that is definitely not met: a violation (or a listed known finding)."""
        self.obligations.append({"rule": rule, "where": f"{loc} {function}", "obligation": text or message,
                                 "discharged": False, "how": message, "nontrivial": True})
        self.analysed["rule_instances"][rule] = self.analysed["rule_instances"].get(rule, 0) + 1
        self.findings.append(Finding(rule, function, construct, loc, message, extra))

    def check(self, cond: bool, rule: str, function: str, construct: str, loc: str, text: str, how: str = "",
              message: str = "", nontrivial: bool = True) -> bool:
        if cond:
            self.ok(rule, f"{loc} {function}", text, how, nontrivial)
        else:
            self.fail(rule, function, construct, loc, message or f"cannot establish: {text}", text)
        return cond

    def note(self, msg: str) -> None:
        self.notes.append(msg)
        self.say(f"NOTE: {msg}")

    def floor(self, what: str, got: int, at_least: int) -> None:
        """Instance floors confirmed by hand: falling below is an analysis error, never a pass."""
        self.floors.append((what, got, at_least))
        if got < at_least:
            # deferred to the end of the run: a violation found by a later rule explains the changed count and takes precedence
            self.__dict__.setdefault("unmet_floors", []).append((what, got, at_least))

    def raise_unmet_floors(self) -> None:
        """Called once all rules have run: an unmet floor makes a run without findings inconclusive (never a pass)."""
        unmet = self.__dict__.get("unmet_floors") or []
        if unmet and not self.split_findings()[0]:
            from .loader import AnalysisError
            what, got, at_least = unmet[0]
            raise AnalysisError(f"instance floor: {what}: found {got}, confirmed by reading >= {at_least} "
                                f"(a rule that matches fewer sites than exist would pass vacuously)")

    # -------------------------------------------------------------- verdict
    def split_findings(self):
        known = [k for k in load_known() if k["property"] == self.pid]
        open_keys = {}
        for k in known:
            if k.get("status", "open") == "open":
                open_keys[(k["rule"], k["function"], " ".join(k["construct"].split()))] = k
        new, listed = [], []
        for f in self.findings:
            if f.key() in open_keys:
                listed.append((f, open_keys[f.key()]))
            else:
                new.append(f)
        return new, listed

    def evidence(self, level: str, explanation: str, checker_cmd: str, trusted_base: List[str]) -> dict:
        new, listed = self.split_findings()
        obl = self.obligations
        distinct = {(o["rule"], o["where"], o["obligation"]) for o in obl if o["nontrivial"]}
        samples = []
        seen_rules = set()
        for o in obl:  # one sample per rule first, then fill up
            if o["rule"] not in seen_rules:
                seen_rules.add(o["rule"])
                samples.append({k: o[k] for k in ("rule", "where", "obligation", "discharged", "how")})
        for o in obl:
            if len(samples) >= 40:
                break
            s = {k: o[k] for k in ("rule", "where", "obligation", "discharged", "how")}
            if s not in samples:
                samples.append(s)
        cov = {
            "evaluations": len(obl),
            "distinct_nontrivial": len(distinct),
            "rule": "one evaluation = one proof obligation of one rule instance at one program point of /repo's "
                    "current source; distinct = different (rule, site, obligation text); non-trivial = discharging it "
                    "needed at least one fact derived from the code (not a constant-true side condition)",
            "samples": samples,
            "obligations": len(obl),
            "discharged": sum(1 for o in obl if o["discharged"]),
            "checker_cmd": checker_cmd,
            "trusted_base": trusted_base,
            "explanation": explanation,
            "exhaustive": False,
            "rules": self.rules,
            "analysed": {
                "modules": sorted(self.analysed["modules"]),
                "functions": sorted(self.analysed["functions"]),
                "n_functions": len(self.analysed["functions"]),
                "cfg_nodes": self.analysed["cfg_nodes"],
                "call_sites": self.analysed["call_sites"],
                "rule_instances": self.analysed["rule_instances"],
                "instance_floors": [{"what": w, "found": g, "floor": f} for (w, g, f) in self.floors],
            },
            "not_decided": self.not_decided,
            "known_findings_rederived": [f.as_dict() for f, _ in listed],
            "new_violations": [f.as_dict() for f in new],
            "notes": self.notes,
        }
        cov.update(self.extra)
        return {
            "property_id": self.pid,
            "tier": self.tier,
            "seed": int(os.environ.get("VERIF_SEED", "0") or 0),
            "level": level,
            "coverage": cov,
            "assumptions": self.assumptions,
            "wall_s": round(time.time() - self.t0, 3),
            "violations": len(new),
        }
