"""L2: a hand-built control-flow graph per function, over the statement kinds the repo uses.

* every simple statement is one node; every *atomic* branch condition is one node with a
  'T' and an 'F' out-edge -- ``a and b`` / ``a or b`` / ``not a`` are split, so that what is
  known on an edge is exactly the truth of one atomic test;
* ``x = a if c else b`` and ``return a if c else b`` are lowered to an if/else;
* ``for`` is modelled do-while style: FOR_ITER (evaluates the iterable) -> FOR_FIRST
  --'next'--> BIND -> body ... -> FOR_NEXT --'next'--> BIND, and both FOR_FIRST and FOR_NEXT
  have an 'exhausted' edge to what follows. A dataflow client that can prove the iterable
  non-empty treats FOR_FIRST's 'exhausted' edge as infeasible: the state leaving the loop is
  then the state of the back edges only (no zero-iteration path);
* ``try``: every node in the body that may raise has an 'exc' edge to an EXCEPT_DISPATCH
  node which fans out to the handlers (and onward when no handler is catch-all).

Unsupported statement kinds raise AnalysisError -- a construct the analysis cannot read is
never silently skipped.
"""
from __future__ import annotations

import ast
import copy
from typing import Dict, List, Optional, Set, Tuple

from .loader import AnalysisError

Edge = Tuple[int, Optional[str]]  # (source node id, label)


class Node:
    __slots__ = ("id", "kind", "ast", "lineno", "origin", "meta")

    def __init__(self, id: int, kind: str, node: Optional[ast.AST], origin: Optional[ast.AST] = None):
        self.id = id
        self.kind = kind
        self.ast = node
        self.origin = origin if origin is not None else node
        self.lineno = getattr(node, "lineno", 0) if node is not None else 0
        self.meta: dict = {}

    def __repr__(self):
        txt = ""
        if self.ast is not None:
            try:
                txt = ast.unparse(self.ast).split("\n")[0][:70]
            except Exception:
                txt = type(self.ast).__name__
        return f"<{self.id}:{self.kind}@{self.lineno} {txt}>"


CATCH_ALL = {"Exception", "BaseException"}


class CFG:
    def __init__(self, fn: ast.AST):
        self.fn = fn
        self.nodes: List[Node] = []
        self.succ: Dict[int, List[Tuple[int, Optional[str]]]] = {}
        self.pred: Dict[int, List[Tuple[int, Optional[str]]]] = {}
        self.loops: List[dict] = []  # {'stmt', 'heads': set, 'body': set(node ids), 'kind'}
        self.tries: List[dict] = []  # {'stmt', 'enter', 'body': set, 'dispatch', 'handlers': [ids]}
        self.entry = self._new("entry", None).id
        self.exit = self._new("exit", None).id          # normal completion (return / fall off)
        self.raise_exit = self._new("raise_exit", None).id
        self._loop_stack: List[dict] = []
        self._try_stack: List[dict] = []
        self._open_sets: List[Set[int]] = []
        out = self._stmts(fn.body, [(self.entry, None)])
        for e in out:
            self._edge(e, self.exit)

    # ------------------------------------------------------------ primitives
    def _new(self, kind: str, node, origin=None) -> Node:
        n = Node(len(self.nodes), kind, node, origin)
        self.nodes.append(n)
        self.succ[n.id] = []
        self.pred[n.id] = []
        for s in getattr(self, "_open_sets", []):
            s.add(n.id)
        return n

    def _edge(self, src: Edge, dst: int) -> None:
        s, label = src
        if (dst, label) not in self.succ[s]:
            self.succ[s].append((dst, label))
            self.pred[dst].append((s, label))

    def _connect(self, preds: List[Edge], dst: int) -> None:
        for e in preds:
            self._edge(e, dst)

    @staticmethod
    def may_raise(node: Node) -> bool:
        if node.kind in ("join", "try", "entry", "for_first", "for_next", "except_dispatch", "except"):
            return False
        if node.kind in ("raise",):
            return True
        if node.kind in ("for_iter", "bind", "with"):
            return True
        a = node.ast
        if a is None:
            return False
        if isinstance(a, ast.Assign) and any(isinstance(t, (ast.Tuple, ast.List)) for t in a.targets):
            return True
        for sub in ast.walk(a):
            if isinstance(sub, (ast.Call, ast.Subscript, ast.BinOp, ast.Await, ast.Attribute)):
                return True
        return False

    def _exc_edge(self, node: Node) -> None:
        if not self.may_raise(node):
            return
        if self._try_stack:
            self._edge((node.id, "exc"), self._try_stack[-1]["dispatch"])
        else:
            if node.kind == "raise":
                self._edge((node.id, "exc"), self.raise_exit)

    # ------------------------------------------------------------ statements
    def _stmts(self, stmts: List[ast.stmt], preds: List[Edge]) -> List[Edge]:
        for st in stmts:
            preds = self._stmt(st, preds)
        return preds

    def _simple(self, kind: str, st: ast.AST, preds: List[Edge], origin=None) -> Node:
        n = self._new(kind, st, origin)
        self._connect(preds, n.id)
        self._exc_edge(n)
        return n

    @staticmethod
    def _value_boolop(st: ast.stmt) -> ast.stmt:
        """`x = a or b` / `return a or b` with a plain name a is the conditional `a if a else b` (and: `b if a else a`)."""
        v = getattr(st, "value", None)
        if isinstance(st, (ast.Return, ast.Assign)) and isinstance(v, ast.BoolOp) and all(isinstance(x, (ast.Name, ast.Attribute)) and not any(isinstance(y, ast.Call) for y in ast.walk(x)) for x in v.values[:-1]):
            acc = v.values[-1]
            for x in reversed(v.values[:-1]):
                acc = ast.copy_location(ast.IfExp(test=x, body=x, orelse=acc) if isinstance(v.op, ast.Or) else ast.IfExp(test=x, body=acc, orelse=x), v)
            c = copy.copy(st)
            c.value = acc
            return c
        return st

    def _stmt(self, st: ast.stmt, preds: List[Edge]) -> List[Edge]:
        lowered = self._value_boolop(st)
        if lowered is not st:
            before = len(self.nodes)
            out = self._stmt(lowered, preds)
            for n in self.nodes[before:]:
                if n.origin is lowered or n.origin is None:
                    n.origin = st
            return out
        if isinstance(st, ast.Return):
            if isinstance(st.value, ast.IfExp):
                return self._lower_ifexp(st, preds)
            n = self._simple("return", st, preds)
            self._edge((n.id, None), self.exit)
            return []
        if isinstance(st, ast.Assign) and isinstance(st.value, ast.IfExp):
            return self._lower_ifexp(st, preds)
        if isinstance(st, (ast.Assign, ast.AugAssign, ast.AnnAssign, ast.Expr, ast.Pass, ast.Import,
                           ast.ImportFrom, ast.Delete, ast.Global, ast.Nonlocal, ast.Assert)):
            n = self._simple("stmt", st, preds)
            return [(n.id, None)]
        if isinstance(st, (ast.FunctionDef, ast.AsyncFunctionDef, ast.ClassDef)):
            n = self._simple("funcdef", st, preds)
            return [(n.id, None)]
        if isinstance(st, ast.Raise):
            n = self._new("raise", st)
            self._connect(preds, n.id)
            if self._try_stack:
                self._edge((n.id, "exc"), self._try_stack[-1]["dispatch"])
            else:
                self._edge((n.id, "exc"), self.raise_exit)
            return []
        if isinstance(st, ast.If):
            t_out, f_out = self._cond(st.test, preds, st)
            body_out = self._stmts(st.body, t_out)
            else_out = self._stmts(st.orelse, f_out) if st.orelse else f_out
            return body_out + else_out
        if isinstance(st, ast.For):
            return self._for(st, preds)
        if isinstance(st, ast.While):
            return self._while(st, preds)
        if isinstance(st, ast.Break):
            n = self._simple("break", st, preds)
            if not self._loop_stack:
                raise AnalysisError("break outside loop")
            self._loop_stack[-1]["breaks"].append((n.id, None))
            return []
        if isinstance(st, ast.Continue):
            n = self._simple("continue", st, preds)
            if not self._loop_stack:
                raise AnalysisError("continue outside loop")
            self._loop_stack[-1]["continues"].append((n.id, None))
            return []
        if isinstance(st, ast.Try):
            return self._try(st, preds)
        if isinstance(st, ast.With):
            n = self._simple("with", st, preds)
            return self._stmts(st.body, [(n.id, None)])
        raise AnalysisError(f"unsupported statement kind {type(st).__name__} at line {getattr(st, 'lineno', 0)}")

    def _lower_ifexp(self, st: ast.stmt, preds: List[Edge]) -> List[Edge]:
        ife: ast.IfExp = st.value

        def variant(value):
            c = copy.copy(st)
            c.value = value
            return c

        t_out, f_out = self._cond(ife.test, preds, st)
        a = self._stmt_with_origin(variant(ife.body), t_out, st)
        b = self._stmt_with_origin(variant(ife.orelse), f_out, st)
        return a + b

    def _stmt_with_origin(self, st, preds, origin):
        before = len(self.nodes)
        out = self._stmt(st, preds)
        for n in self.nodes[before:]:
            n.origin = origin
        return out

    # ------------------------------------------------------------ conditions
    def _cond(self, test: ast.expr, preds: List[Edge], owner: ast.AST) -> Tuple[List[Edge], List[Edge]]:
        """Returns (true-exits, false-exits) as dangling edges."""
        if isinstance(test, ast.BoolOp) and isinstance(test.op, ast.And):
            trues = preds
            falses: List[Edge] = []
            for v in test.values:
                trues, f = self._cond(v, trues, owner)
                falses += f
            return trues, falses
        if isinstance(test, ast.BoolOp) and isinstance(test.op, ast.Or):
            falses = preds
            trues: List[Edge] = []
            for v in test.values:
                t, falses = self._cond(v, falses, owner)
                trues += t
            return trues, falses
        if isinstance(test, ast.UnaryOp) and isinstance(test.op, ast.Not):
            t, f = self._cond(test.operand, preds, owner)
            return f, t
        n = self._new("cond", test, owner)
        n.meta["owner"] = owner
        self._connect(preds, n.id)
        self._exc_edge(n)
        return [(n.id, "T")], [(n.id, "F")]

    # ------------------------------------------------------------ loops
    def _for(self, st: ast.For, preds: List[Edge]) -> List[Edge]:
        if isinstance(st.iter, (ast.Tuple, ast.List)) and 0 < len(st.iter.elts) <= 8 and not st.orelse \
                and not any(isinstance(e, ast.Starred) for e in st.iter.elts) and \
                (isinstance(st.target, ast.Name) or (isinstance(st.target, (ast.Tuple, ast.List)) and all(isinstance(t, ast.Name) for t in st.target.elts)
                                                     and all(isinstance(e, (ast.Tuple, ast.List)) and len(e.elts) == len(st.target.elts) for e in st.iter.elts))):
            return self._unrolled_for(st, preds)
        body_set: Set[int] = set()
        it = self._simple("for_iter", st, preds)
        first = self._new("for_first", st)
        self._edge((it.id, None), first.id)
        self._open_sets.append(body_set)
        nxt = self._new("for_next", st)
        bind = self._new("bind", st)
        self._exc_edge(bind)
        self._edge((first.id, "next"), bind.id)
        self._edge((nxt.id, "next"), bind.id)
        ctx = {"stmt": st, "breaks": [], "continues": []}
        self._loop_stack.append(ctx)
        out = self._stmts(st.body, [(bind.id, None)])
        self._loop_stack.pop()
        self._open_sets.pop()
        self._connect(out + ctx["continues"], nxt.id)
        exhausted = [(first.id, "exhausted"), (nxt.id, "exhausted")]
        after = self._stmts(st.orelse, exhausted) if st.orelse else exhausted
        self.loops.append({"stmt": st, "kind": "for", "iter": it.id, "first": first.id, "next": nxt.id,
                           "bind": bind.id, "body": body_set, "heads": {nxt.id}})
        return after + ctx["breaks"]

    def _unrolled_for(self, st: ast.For, preds: List[Edge]) -> List[Edge]:
        """``for v in (a, b, c): body`` over a literal display is straight-line code: v = a; body; v = b; body; ...
        (continue -> next element, break -> after the loop). Analyses then see each element by name."""
        breaks: List[Edge] = []
        cur = preds
        for elt in st.iter.elts:
            if isinstance(st.target, ast.Name):
                pairs = [(st.target.id, elt)]
            else:       # for a, b in ((x1, y1), (x2, y2)): one assignment per name
                pairs = [(t.id, v) for t, v in zip(st.target.elts, elt.elts)]
            n = None
            for name, val in pairs:
                asg = ast.copy_location(ast.Assign(targets=[ast.Name(id=name, ctx=ast.Store())], value=val), st)
                ast.fix_missing_locations(asg)
                n = self._simple("stmt", asg, cur, origin=st)
                cur = [(n.id, None)]
            ctx = {"stmt": st, "breaks": [], "continues": []}
            self._loop_stack.append(ctx)
            # the body's AST nodes are shared between the copies; CFG nodes are distinct
            out = self._stmts(st.body, [(n.id, None)])
            self._loop_stack.pop()
            breaks += ctx["breaks"]
            cur = out + ctx["continues"]
        return cur + breaks

    def _while(self, st: ast.While, preds: List[Edge]) -> List[Edge]:
        body_set: Set[int] = set()
        self._open_sets.append(body_set)
        head = self._new("while_head", st)
        self._connect(preds, head.id)
        t_out, f_out = self._cond(st.test, [(head.id, None)], st)
        ctx = {"stmt": st, "breaks": [], "continues": []}
        self._loop_stack.append(ctx)
        out = self._stmts(st.body, t_out)
        self._loop_stack.pop()
        self._open_sets.pop()
        self._connect(out + ctx["continues"], head.id)
        after = self._stmts(st.orelse, f_out) if st.orelse else f_out
        self.loops.append({"stmt": st, "kind": "while", "head": head.id, "body": body_set, "heads": {head.id}})
        return after + ctx["breaks"]

    # ------------------------------------------------------------ try
    def _try(self, st: ast.Try, preds: List[Edge]) -> List[Edge]:
        if st.finalbody:
            raise AnalysisError(f"try/finally not supported (line {st.lineno})")
        enter = self._simple("try", st, preds)
        dispatch = self._new("except_dispatch", st)
        body_set: Set[int] = set()
        ctx = {"stmt": st, "dispatch": dispatch.id, "enter": enter.id, "body": body_set, "handlers": []}
        self._try_stack.append(ctx)
        self._open_sets.append(body_set)
        out = self._stmts(st.body, [(enter.id, None)])
        self._open_sets.pop()
        self._try_stack.pop()
        if st.orelse:
            out = self._stmts(st.orelse, out)
        catch_all = False
        for h in st.handlers:
            hn = self._new("except", h)
            ctx["handlers"].append(hn.id)
            self._edge((dispatch.id, "exc"), hn.id)
            names = handler_names(h)
            if names is None or names & CATCH_ALL:
                catch_all = True
            out += self._stmts(h.body, [(hn.id, None)])
        if not catch_all:
            if self._try_stack:
                self._edge((dispatch.id, "exc"), self._try_stack[-1]["dispatch"])
            else:
                self._edge((dispatch.id, "exc"), self.raise_exit)
        self.tries.append(ctx)
        return out

    # ------------------------------------------------------------ queries
    def node(self, i: int) -> Node:
        return self.nodes[i]

    def reachable(self, start: int, skip_labels=("exc",), removed: Set[int] = frozenset()) -> Set[int]:
        seen = set()
        stack = [start]
        while stack:
            n = stack.pop()
            if n in seen or n in removed:
                continue
            seen.add(n)
            for d, lab in self.succ[n]:
                if lab in skip_labels:
                    continue
                stack.append(d)
        return seen

    def topo_order(self) -> List[int]:
        """Reverse post-order from entry (all edges)."""
        seen = set()
        order = []

        def dfs(n):
            stack = [(n, iter(self.succ[n]))]
            seen.add(n)
            while stack:
                cur, it = stack[-1]
                adv = False
                for d, _ in it:
                    if d not in seen:
                        seen.add(d)
                        stack.append((d, iter(self.succ[d])))
                        adv = True
                        break
                if not adv:
                    order.append(cur)
                    stack.pop()

        dfs(self.entry)
        return list(reversed(order))

    def dump(self) -> str:
        lines = []
        for n in self.nodes:
            lines.append(f"{n!r} -> {self.succ[n.id]}")
        return "\n".join(lines)


def handler_names(h: ast.ExceptHandler) -> Optional[Set[str]]:
    """Class names a handler catches; None for a bare ``except:``."""
    if h.type is None:
        return None
    out = set()
    elts = h.type.elts if isinstance(h.type, ast.Tuple) else [h.type]
    for e in elts:
        if isinstance(e, ast.Name):
            out.add(e.id)
        elif isinstance(e, ast.Attribute):
            out.add(e.attr)
        else:
            out.add(ast.unparse(e))
    return out


def build_cfg(fn: ast.AST) -> CFG:
    return CFG(fn)


def node_exprs(node: Node) -> List[ast.AST]:
    """The expressions / simple statements actually evaluated when control is at this node."""
    a = node.ast
    if a is None:
        return []
    k = node.kind
    if k in ("stmt", "return", "raise", "cond"):
        return [a]
    if k == "for_iter":
        return [a.iter]
    if k == "bind":
        return [a.target]
    if k == "with":
        out = []
        for it in a.items:
            out.append(it.context_expr)
            if it.optional_vars is not None:
                out.append(it.optional_vars)
        return out
    if k == "funcdef":
        out = list(getattr(a, "decorator_list", []))
        args = getattr(a, "args", None)
        if args is not None:
            out += [d for d in list(args.defaults) + list(args.kw_defaults) if d is not None]
        return out
    return []
